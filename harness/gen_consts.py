#!/usr/bin/env python3
"""Fail-closed translator: literals of /repo's current sources -> coq/gen/Consts_here.v.

Every pattern must match exactly once in the file it is looked for, otherwise the run stops with
FAIL-CLOSED (a broken obligation of every property).  Only stdlib `ast` is used."""
import ast, os, sys, json
from fractions import Fraction

REPO = os.environ.get("ALDY_REPO", "/repo")
R = os.path.join(REPO, "aldy") + "/"


class FailClosed(Exception):
    pass


def tree(f):
    return ast.parse(open(R + f).read())


def is_name(n, id):
    return isinstance(n, ast.Name) and n.id == id


def find(f, pred, what):
    hits = [n for n in ast.walk(tree(f)) if pred(n)]
    if len(hits) != 1:
        raise FailClosed(f"{what}: {len(hits)} matches in {f} (expected exactly 1)")
    return hits[0]


def modconst(f, name):
    hits = [
        n for n in tree(f).body
        if isinstance(n, ast.Assign) and any(is_name(x, name) for x in n.targets)
    ]
    if len(hits) != 1:
        raise FailClosed(f"{name}: {len(hits)} module-level assignments in {f}")
    return hits[0].value


def num(node, what):
    """numeric literal as exact decimal Fraction (from source text, not from the double)"""
    if isinstance(node, ast.UnaryOp) and isinstance(node.op, ast.USub):
        return -num(node.operand, what)
    if isinstance(node, ast.Constant) and isinstance(node.value, (int, float)) and not isinstance(node.value, bool):
        return Fraction(repr(node.value)) if isinstance(node.value, float) else Fraction(node.value)
    raise FailClosed(f"{what}: not a numeric literal: {ast.unparse(node)}")


def extract():
    out = {}
    # 1. Profile.__init__ defaults
    t = tree("profile.py")
    cls = [n for n in t.body if isinstance(n, ast.ClassDef) and n.name == "Profile"]
    if len(cls) != 1:
        raise FailClosed("class Profile")
    init = [n for n in cls[0].body if isinstance(n, ast.FunctionDef) and n.name == "__init__"]
    if len(init) != 1:
        raise FailClosed("Profile.__init__")
    defaults = []
    argnames = {a.arg for a in init[0].args.args}
    for st in init[0].body:
        if (isinstance(st, ast.Assign) and len(st.targets) == 1 and isinstance(st.targets[0], ast.Attribute)
                and is_name(st.targets[0].value, "self")):
            name = st.targets[0].attr
            v = st.value
            if isinstance(v, ast.Name) and v.id in argnames:
                defaults.append((name, ("arg", None)))
                continue
            try:
                lit = ast.literal_eval(v)
            except Exception:
                raise FailClosed(f"Profile default {name} is not a literal: {ast.unparse(v)}")
            if isinstance(lit, bool):
                defaults.append((name, ("bool", lit)))
            elif isinstance(lit, int):
                defaults.append((name, ("int", lit)))
            elif isinstance(lit, float):
                defaults.append((name, ("float", num(v, name))))
            elif isinstance(lit, str):
                defaults.append((name, ("str", lit)))
            elif lit is None:
                defaults.append((name, ("none", None)))
            else:
                raise FailClosed(f"Profile default {name}: unsupported literal {lit!r}")
    names = [n for n, _ in defaults]
    if len(set(names)) != len(names):
        raise FailClosed("Profile.__init__ assigns an attribute twice")
    out["params"] = defaults
    # 2. module constants
    out["solver_precision"] = num(modconst("lpinterface.py", "SOLVER_PRECISON"), "SOLVER_PRECISON")
    out["solution_precision"] = num(modconst("common.py", "SOLUTION_PRECISION"), "SOLUTION_PRECISION")
    # 3. inline literals
    n = find("genotype.py", lambda n: isinstance(n, ast.Assign) and any(is_name(x, "SLACK") for x in n.targets), "SLACK")
    out["slack"] = num(n.value, "SLACK")

    def novel_unit(n):
        return (isinstance(n, ast.AugAssign) and is_name(n.target, "objective") and isinstance(n.value, ast.BinOp)
                and isinstance(n.value.op, ast.Mult) and isinstance(n.value.left, ast.Constant)
                and isinstance(n.value.right, ast.Call) and ast.unparse(n.value.right.func) == "model.quicksum")
    n = find("major.py", novel_unit, "major novelty unit")
    out["major_novel_unit"] = num(n.value.left, "major novelty unit")
    n = find("cn.py", lambda n: isinstance(n, ast.Assign) and any(is_name(x, "PARSIMONY_PENALTY") for x in n.targets), "parsimony")
    if not (isinstance(n.value, ast.BinOp) and isinstance(n.value.op, ast.Div)
            and ast.unparse(n.value.right) == "len(gene.unique_regions)"):
        raise FailClosed("parsimony penalty shape changed: " + ast.unparse(n))
    out["cn_pars_num"] = num(n.value.left, "parsimony numerator")
    n = find("cn.py", lambda n: isinstance(n, ast.AugAssign) and is_name(n.target, "PARSIMONY_PENALTY")
             and isinstance(n.op, ast.Mult) and isinstance(n.value, ast.Constant), "parsimony factor")
    out["cn_pars_factor"] = num(n.value, "parsimony factor")
    n = find("minor.py", lambda n: isinstance(n, ast.BinOp) and isinstance(n.op, ast.Div) and is_name(n.left, "cnt")
             and isinstance(n.right, ast.Constant), "tie-breaker")
    out["minor_tie_den"] = num(n.right, "tie-breaker")
    n = find("minor.py", lambda n: isinstance(n, ast.BinOp) and isinstance(n.op, ast.Mult) and is_name(n.right, "vo")
             and isinstance(n.left, ast.BinOp) and isinstance(n.left.op, ast.Div)
             and ast.unparse(n.left.left) == "coverage.profile.minor_add", "VNEWOR penalty")
    out["minor_vnewor_div"] = num(n.left.right, "VNEWOR divisor")
    n = find("minor.py", lambda n: isinstance(n, ast.Compare) and isinstance(n.ops[0], ast.Gt)
             and ast.unparse(n.left).startswith("abs(copies -") and isinstance(n.comparators[0], ast.Constant), "homozygous eps")
    out["homozygous_eps"] = num(n.comparators[0], "homozygous eps")
    fn = find("sam.py", lambda n: isinstance(n, ast.FunctionDef) and n.name == "bin_quality", "bin_quality")
    bins, top = [], None
    body = [st for st in fn.body if not (isinstance(st, ast.Expr) and isinstance(st.value, ast.Constant))]
    for st in body:
        if isinstance(st, ast.If):
            c = st.test
            if not (isinstance(c, ast.Compare) and is_name(c.left, "q") and len(c.ops) == 1 and isinstance(c.ops[0], ast.Lt)
                    and len(st.body) == 1 and isinstance(st.body[0], ast.Return) and not st.orelse):
                raise FailClosed("bin_quality shape changed")
            bound = num(c.comparators[0], "bin bound")
            rv = st.body[0].value
            if ast.unparse(rv) == "int(q)":
                val = -1
            else:
                val = num(rv, "bin value")
            bins.append((int(bound), int(val)))
        elif isinstance(st, ast.Return) and st is body[-1]:
            top = int(num(st.value, "bin top"))
        else:
            raise FailClosed("bin_quality shape changed")
    if top is None:
        raise FailClosed("bin_quality has no final return")
    out["bins"], out["bin_top"] = bins, top
    hits = [n for n in ast.walk(tree("sam.py")) if isinstance(n, ast.BinOp) and isinstance(n.op, ast.Mult)
            and isinstance(n.left, ast.List) and len(n.left.elts) == 1 and isinstance(n.left.elts[0], ast.Tuple)
            and isinstance(n.right, ast.Constant)]
    if not hits:
        raise FailClosed("VCF pseudo-read literals not found")
    qs = {ast.unparse(h.left) for h in hits}
    if len(qs) != 1:
        raise FailClosed(f"VCF pseudo-read qualities differ: {qs}")
    q = ast.literal_eval(hits[0].left)[0]
    out["vcf_reads"] = sorted({int(h.right.value) for h in hits})
    out["vcf_read_sites"] = len(hits)
    out["vcf_q"] = (int(q[0]), int(q[1]))
    hits = [n for n in ast.walk(tree("genotype.py")) if isinstance(n, ast.Call) and is_name(n.func, "int") and n.args
            and isinstance(n.args[0], ast.BinOp) and isinstance(n.args[0].op, ast.Mult) and isinstance(n.args[0].left, ast.Constant)]
    if not hits:
        raise FailClosed("int(1000 * score) sort keys not found")
    out["sort_scale"] = [int(h.args[0].left.value) for h in hits]
    fn = find("coverage.py", lambda n: isinstance(n, ast.FunctionDef) and n.name == "average_coverage", "average_coverage")
    hits = [n for n in ast.walk(fn) if isinstance(n, ast.BinOp) and isinstance(n.op, ast.Add) and isinstance(n.right, ast.Constant)
            and ast.unparse(n.left) == "len(self._coverage)"]
    if len(hits) != 1:
        raise FailClosed("average_coverage denominator changed")
    out["avg_cov_eps"] = num(hits[0].right, "avg cov eps")
    n = find("sam.py", lambda n: isinstance(n, ast.Assign) and ast.unparse(n.targets[0]) == "self.profile.min_avg_coverage",
             "dump min_avg_coverage reset")
    out["dump_min_avg"] = num(n.value, "dump min_avg")
    n = find("sam.py", lambda n: isinstance(n, ast.Compare) and ast.unparse(n.left) == "self.coverage.diploid_avg_coverage()"
             and isinstance(n.ops[0], ast.Lt), "neutral floor")
    out["neutral_floor"] = num(n.comparators[0], "neutral floor")
    return out


def cq(q):
    q = Fraction(q)
    return f"({q.numerator} # {q.denominator})%Q" if q >= 0 else f"(({q.numerator}) # {q.denominator})%Q"


def cstr(t):
    return "[" + "; ".join(str(ord(ch)) for ch in t) + "]"


def emit(c):
    ps = []
    for name, (ty, v) in c["params"]:
        if ty == "bool":
            pv = f"VBool {'true' if v else 'false'}"
        elif ty == "int":
            pv = f"VInt ({v})"
        elif ty == "float":
            pv = f"VFloat {cq(v)}"
        elif ty == "str":
            pv = f"VStr {cstr(v)}"
        else:
            pv = "VNone"
        ps.append(f"    ({cstr(name)}, {pv}) (* {name} *)")
    L = []
    L.append("(* GENERATED by harness/gen_consts.py from /repo's current sources - do not edit *)")
    L.append("From Aldy Require Import Base Consts.")
    L.append("Open Scope Z_scope.")
    L.append("Definition here : consts := {|")
    L.append("  c_params := [\n" + ";\n".join(ps) + "];")
    L.append(f"  c_solver_precision := {cq(c['solver_precision'])};")
    L.append(f"  c_solution_precision := {cq(c['solution_precision'])};")
    L.append(f"  c_slack := {cq(c['slack'])};")
    L.append(f"  c_major_novel_unit := {cq(c['major_novel_unit'])};")
    L.append(f"  c_cn_pars_num := {cq(c['cn_pars_num'])};")
    L.append(f"  c_cn_pars_factor := {cq(c['cn_pars_factor'])};")
    L.append(f"  c_minor_tie_den := {cq(c['minor_tie_den'])};")
    L.append(f"  c_minor_vnewor_div := {cq(c['minor_vnewor_div'])};")
    L.append(f"  c_homozygous_eps := {cq(c['homozygous_eps'])};")
    L.append("  c_bins := [" + "; ".join(f"({a}, {b})" for a, b in c["bins"]) + "];")
    L.append(f"  c_bin_top := {c['bin_top']};")
    L.append("  c_vcf_reads := [" + "; ".join(str(x) for x in c["vcf_reads"]) + "];")
    L.append(f"  c_vcf_q := ({c['vcf_q'][0]}, {c['vcf_q'][1]});")
    L.append("  c_sort_scale := [" + "; ".join(str(x) for x in c["sort_scale"]) + "];")
    L.append(f"  c_avg_cov_eps := {cq(c['avg_cov_eps'])};")
    L.append(f"  c_dump_min_avg := {cq(c['dump_min_avg'])};")
    L.append(f"  c_neutral_floor := {cq(c['neutral_floor'])}")
    L.append("|}.")
    return "\n".join(L) + "\n"


WF = """(* GENERATED by harness/gen_consts.py - obligation: the literals of the current tree are well-formed *)
From Aldy Require Import Base Consts Consts_here.
Lemma here_wf : consts_wf here = true.
Proof. vm_compute. reflexivity. Qed.
"""


def main():
    out_path = sys.argv[1] if len(sys.argv) > 1 else os.path.join(os.path.dirname(__file__), "..", "coq", "gen", "Consts_here.v")
    try:
        c = extract()
    except FailClosed as e:
        print(f"FAIL-CLOSED: {e}")
        sys.exit(2)
    text = emit(c)
    for path, txt in ((out_path, text), (os.path.join(os.path.dirname(out_path), "Consts_wf.v"), WF)):
        old = open(path).read() if os.path.exists(path) else None
        if old != txt:
            with open(path, "w") as f:
                f.write(txt)
    js = {k: (str(v) if isinstance(v, Fraction) else v) for k, v in c.items() if k != "params"}
    js["params"] = [[n, ty, (str(v) if isinstance(v, Fraction) else v)] for n, (ty, v) in c["params"]]
    print(json.dumps(js))


if __name__ == "__main__":
    main()
