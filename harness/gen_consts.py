#!/usr/bin/env python3
"""Fail-closed translator: literals of /repo's current sources -> coq/gen/Consts_here.v.

Every pattern must match exactly once in the file it is looked for; a literal that cannot be read is reported FAIL-CLOSED for
that field (gen/consts_status.json): a broken obligation of every property whose model closure or harness mentions the field.  Only stdlib `ast` is used."""
import ast, os, sys, json
from fractions import Fraction

REPO = os.environ.get("ALDY_REPO", "/repo")
R = os.path.join(REPO, "aldy") + "/"


class FailClosed(Exception):
    pass


def tree(f):
    return ast.parse(open(R + f).read())


def is_name(n, id):
    return isinstance(n, ast.Name) and n.id == id


def find(f, pred, what):
    hits = [n for n in ast.walk(tree(f)) if pred(n)]
    if len(hits) != 1:
        raise FailClosed(f"{what}: {len(hits)} matches in {f} (expected exactly 1)")
    return hits[0]


def modconst(f, name):
    hits = [
        n for n in tree(f).body
        if isinstance(n, ast.Assign) and any(is_name(x, name) for x in n.targets)
    ]
    if len(hits) != 1:
        raise FailClosed(f"{name}: {len(hits)} module-level assignments in {f}")
    return hits[0].value


def num(node, what):
    """numeric literal as exact decimal Fraction (from source text, not from the double)"""
    if isinstance(node, ast.UnaryOp) and isinstance(node.op, ast.USub):
        return -num(node.operand, what)
    if isinstance(node, ast.Constant) and isinstance(node.value, (int, float)) and not isinstance(node.value, bool):
        return Fraction(repr(node.value)) if isinstance(node.value, float) else Fraction(node.value)
    raise FailClosed(f"{what}: not a numeric literal: {ast.unparse(node)}")


def _steps():
    """one function per literal (or group of literals read from one site); each fills its keys of `out`"""
    steps = []

    def f_params(out):
        # 1. Profile.__init__ defaults
        t = tree("profile.py")
        cls = [n for n in t.body if isinstance(n, ast.ClassDef) and n.name == "Profile"]
        if len(cls) != 1:
            raise FailClosed("class Profile")
        init = [n for n in cls[0].body if isinstance(n, ast.FunctionDef) and n.name == "__init__"]
        if len(init) != 1:
            raise FailClosed("Profile.__init__")
        defaults = []
        argnames = {a.arg for a in init[0].args.args}
        for st in init[0].body:
            if (isinstance(st, ast.Assign) and len(st.targets) == 1 and isinstance(st.targets[0], ast.Attribute)
                    and is_name(st.targets[0].value, "self")):
                name = st.targets[0].attr
                v = st.value
                if isinstance(v, ast.Name) and v.id in argnames:
                    defaults.append((name, ("arg", None)))
                    continue
                try:
                    lit = ast.literal_eval(v)
                except Exception:
                    raise FailClosed(f"Profile default {name} is not a literal: {ast.unparse(v)}")
                if isinstance(lit, bool):
                    defaults.append((name, ("bool", lit)))
                elif isinstance(lit, int):
                    defaults.append((name, ("int", lit)))
                elif isinstance(lit, float):
                    defaults.append((name, ("float", num(v, name))))
                elif isinstance(lit, str):
                    defaults.append((name, ("str", lit)))
                elif lit is None:
                    defaults.append((name, ("none", None)))
                else:
                    raise FailClosed(f"Profile default {name}: unsupported literal {lit!r}")
        names = [n for n, _ in defaults]
        if len(set(names)) != len(names):
            raise FailClosed("Profile.__init__ assigns an attribute twice")
        out["params"] = defaults
        # 2. module constants
    steps.append(("params", f_params))

    def f_solver_precision(out):
        out["solver_precision"] = num(modconst("lpinterface.py", "SOLVER_PRECISON"), "SOLVER_PRECISON")
    steps.append(("solver_precision", f_solver_precision))

    def f_solution_precision(out):
        out["solution_precision"] = num(modconst("common.py", "SOLUTION_PRECISION"), "SOLUTION_PRECISION")
        # 3. inline literals
    steps.append(("solution_precision", f_solution_precision))

    def f_slack(out):
        n = find("genotype.py", lambda n: isinstance(n, ast.Assign) and any(is_name(x, "SLACK") for x in n.targets), "SLACK")
        out["slack"] = num(n.value, "SLACK")

    steps.append(("slack", f_slack))

    def f_major_novel_unit(out):
        def novel_unit(n):
            return (isinstance(n, ast.AugAssign) and is_name(n.target, "objective") and isinstance(n.value, ast.BinOp)
                    and isinstance(n.value.op, ast.Mult) and isinstance(n.value.left, ast.Constant)
                    and isinstance(n.value.right, ast.Call) and ast.unparse(n.value.right.func) == "model.quicksum")
        n = find("major.py", novel_unit, "major novelty unit")
        out["major_novel_unit"] = num(n.value.left, "major novelty unit")
    steps.append(("major_novel_unit", f_major_novel_unit))

    def f_cn_pars_num(out):
        n = find("cn.py", lambda n: isinstance(n, ast.Assign) and any(is_name(x, "PARSIMONY_PENALTY") for x in n.targets), "parsimony")
        if not (isinstance(n.value, ast.BinOp) and isinstance(n.value.op, ast.Div)
                and ast.unparse(n.value.right) == "len(gene.unique_regions)"):
            raise FailClosed("parsimony penalty shape changed: " + ast.unparse(n))
        out["cn_pars_num"] = num(n.value.left, "parsimony numerator")
    steps.append(("cn_pars_num", f_cn_pars_num))

    def f_cn_pars_factor(out):
        n = find("cn.py", lambda n: isinstance(n, ast.AugAssign) and is_name(n.target, "PARSIMONY_PENALTY")
                 and isinstance(n.op, ast.Mult) and isinstance(n.value, ast.Constant), "parsimony factor")
        out["cn_pars_factor"] = num(n.value, "parsimony factor")
    steps.append(("cn_pars_factor", f_cn_pars_factor))

    def f_minor_tie_den(out):
        n = find("minor.py", lambda n: isinstance(n, ast.BinOp) and isinstance(n.op, ast.Div) and is_name(n.left, "cnt")
                 and isinstance(n.right, ast.Constant), "tie-breaker")
        out["minor_tie_den"] = num(n.right, "tie-breaker")
    steps.append(("minor_tie_den", f_minor_tie_den))

    def f_minor_vnewor_div(out):
        n = find("minor.py", lambda n: isinstance(n, ast.BinOp) and isinstance(n.op, ast.Mult) and is_name(n.right, "vo")
                 and isinstance(n.left, ast.BinOp) and isinstance(n.left.op, ast.Div)
                 and ast.unparse(n.left.left) == "coverage.profile.minor_add", "VNEWOR penalty")
        out["minor_vnewor_div"] = num(n.left.right, "VNEWOR divisor")
    steps.append(("minor_vnewor_div", f_minor_vnewor_div))

    def f_homozygous_eps(out):
        n = find("minor.py", lambda n: isinstance(n, ast.Compare) and isinstance(n.ops[0], ast.Gt)
                 and ast.unparse(n.left).startswith("abs(copies -") and isinstance(n.comparators[0], ast.Constant), "homozygous eps")
        out["homozygous_eps"] = num(n.comparators[0], "homozygous eps")
    steps.append(("homozygous_eps", f_homozygous_eps))

    def f_bins(out):
        fn = find("sam.py", lambda n: isinstance(n, ast.FunctionDef) and n.name == "bin_quality", "bin_quality")
        bins, top = [], None
        body = [st for st in fn.body if not (isinstance(st, ast.Expr) and isinstance(st.value, ast.Constant))]
        for st in body:
            if isinstance(st, ast.If):
                c = st.test
                if not (isinstance(c, ast.Compare) and is_name(c.left, "q") and len(c.ops) == 1 and isinstance(c.ops[0], ast.Lt)
                        and len(st.body) == 1 and isinstance(st.body[0], ast.Return) and not st.orelse):
                    raise FailClosed("bin_quality shape changed")
                bound = num(c.comparators[0], "bin bound")
                rv = st.body[0].value
                if ast.unparse(rv) == "int(q)":
                    val = -1
                else:
                    val = num(rv, "bin value")
                bins.append((int(bound), int(val)))
            elif isinstance(st, ast.Return) and st is body[-1]:
                top = int(num(st.value, "bin top"))
            else:
                raise FailClosed("bin_quality shape changed")
        if top is None:
            raise FailClosed("bin_quality has no final return")
        out["bins"], out["bin_top"] = bins, top
    steps.append(("bins", f_bins))

    def f_vcf_reads(out):
        hits = [n for n in ast.walk(tree("sam.py")) if isinstance(n, ast.BinOp) and isinstance(n.op, ast.Mult)
                and isinstance(n.left, ast.List) and len(n.left.elts) == 1 and isinstance(n.left.elts[0], ast.Tuple)
                and isinstance(n.right, ast.Constant)]
        if not hits:
            raise FailClosed("VCF pseudo-read literals not found")
        qs = {ast.unparse(h.left) for h in hits}
        if len(qs) != 1:
            raise FailClosed(f"VCF pseudo-read qualities differ: {qs}")
        q = ast.literal_eval(hits[0].left)[0]
        out["vcf_reads"] = sorted({int(h.right.value) for h in hits})
        out["vcf_read_sites"] = len(hits)
        out["vcf_q"] = (int(q[0]), int(q[1]))
    steps.append(("vcf_reads", f_vcf_reads))

    def f_sort_scale(out):
        hits = [n for n in ast.walk(tree("genotype.py")) if isinstance(n, ast.Call) and is_name(n.func, "int") and n.args
                and isinstance(n.args[0], ast.BinOp) and isinstance(n.args[0].op, ast.Mult) and isinstance(n.args[0].left, ast.Constant)]
        if not hits:
            raise FailClosed("int(1000 * score) sort keys not found")
        out["sort_scale"] = [int(h.args[0].left.value) for h in hits]
    steps.append(("sort_scale", f_sort_scale))

    def f_avg_cov_eps(out):
        fn = find("coverage.py", lambda n: isinstance(n, ast.FunctionDef) and n.name == "average_coverage", "average_coverage")
        hits = [n for n in ast.walk(fn) if isinstance(n, ast.BinOp) and isinstance(n.op, ast.Add) and isinstance(n.right, ast.Constant)
                and ast.unparse(n.left) == "len(self._coverage)"]
        if len(hits) != 1:
            raise FailClosed("average_coverage denominator changed")
        out["avg_cov_eps"] = num(hits[0].right, "avg cov eps")
    steps.append(("avg_cov_eps", f_avg_cov_eps))

    def f_dump_min_avg(out):
        n = find("sam.py", lambda n: isinstance(n, ast.Assign) and ast.unparse(n.targets[0]) == "self.profile.min_avg_coverage",
                 "dump min_avg_coverage reset")
        out["dump_min_avg"] = num(n.value, "dump min_avg")
    steps.append(("dump_min_avg", f_dump_min_avg))

    def f_neutral_floor(out):
        n = find("sam.py", lambda n: isinstance(n, ast.Compare) and ast.unparse(n.left) == "self.coverage.diploid_avg_coverage()"
                 and isinstance(n.ops[0], ast.Lt), "neutral floor")
        out["neutral_floor"] = num(n.comparators[0], "neutral floor")
    steps.append(("neutral_floor", f_neutral_floor))

    return steps


# values of the shipped tree: used ONLY for a literal the translator can no longer read (that literal is then reported as a broken
# obligation of every property whose model or harness mentions it; the others keep running on the literals that were read)
FALLBACK = {
    "avg_cov_eps": Fraction(1, 10), "bin_top": 40, "bins": [(2, -1), (10, 6), (20, 15), (29, 25), (39, 35)],
    "cn_pars_factor": Fraction(3, 4), "cn_pars_num": Fraction(10), "dump_min_avg": Fraction(2), "homozygous_eps": Fraction(1, 100000),
    "major_novel_unit": Fraction(1, 10), "minor_tie_den": Fraction(1000000), "minor_vnewor_div": Fraction(2), "neutral_floor": Fraction(2),
    "slack": Fraction(1), "solution_precision": Fraction(1, 100), "solver_precision": Fraction(1, 100000), "sort_scale": [1000, 1000, 1000],
    "vcf_q": (40, 40), "vcf_read_sites": 5, "vcf_reads": [10, 20],
    "params": [("name", ("arg", None)), ("cn_region", ("arg", None)), ("data", ("arg", None)), ("gap", ("float", Fraction(0))),
               ("cn_solution", ("none", None)), ("neutral_value", ("float", Fraction(0))), ("threshold", ("float", Fraction(1, 2))),
               ("min_coverage", ("float", Fraction(2))), ("min_quality", ("int", 10)), ("min_mapq", ("int", 10)), ("phase", ("bool", True)),
               ("sam_long_reads", ("bool", False)), ("sam_mappy_preset", ("str", "map-hifi")), ("cn_max", ("int", 20)),
               ("cn_pce_penalty", ("float", Fraction(2))), ("cn_diff", ("float", Fraction(10))), ("cn_fit", ("float", Fraction(1))),
               ("cn_parsimony", ("float", Fraction(1, 2))), ("cn_fusion_left", ("float", Fraction(1, 2))),
               ("cn_fusion_right", ("float", Fraction(1, 4))), ("major_novel", ("float", Fraction(21))), ("minor_miss", ("float", Fraction(3, 2))),
               ("minor_add", ("float", Fraction(1))), ("minor_phase", ("float", Fraction(2, 5))), ("minor_phase_vars", ("int", 3000)),
               ("male", ("bool", False)), ("max_minor_solutions", ("int", 1)), ("display_format", ("bool", False)), ("debug_probe", ("str", "")),
               ("debug_novel", ("bool", False)), ("min_avg_coverage", ("float", Fraction(2))), ("vcf_sample_idx", ("int", 0)),
               ("indelpost", ("bool", True))],
}


def extract(strict=False):
    """-> (dict of literals).  extract.failed maps a key to the fail-closed message of the step that should have read it."""
    out, failed = {}, {}
    for name, fn in _steps():
        tmp = {}
        try:
            fn(tmp)
            out.update(tmp)
        except (FailClosed, OSError, SyntaxError, ValueError, KeyError, IndexError, AttributeError, TypeError) as e:
            if strict:
                raise
            for k in STEP_KEYS[name]:
                out[k] = FALLBACK[k]
                failed[k] = f"{name}: {e}"
    extract.failed = failed
    return out


STEP_KEYS = {"params": ["params"], "solver_precision": ["solver_precision"], "solution_precision": ["solution_precision"], "slack": ["slack"],
             "major_novel_unit": ["major_novel_unit"], "cn_pars_num": ["cn_pars_num"], "cn_pars_factor": ["cn_pars_factor"],
             "minor_tie_den": ["minor_tie_den"], "minor_vnewor_div": ["minor_vnewor_div"], "homozygous_eps": ["homozygous_eps"],
             "bins": ["bins", "bin_top"], "vcf_reads": ["vcf_reads", "vcf_read_sites", "vcf_q"], "sort_scale": ["sort_scale"],
             "avg_cov_eps": ["avg_cov_eps"], "dump_min_avg": ["dump_min_avg"], "neutral_floor": ["neutral_floor"]}


def cq(q):
    q = Fraction(q)
    return f"({q.numerator} # {q.denominator})%Q" if q >= 0 else f"(({q.numerator}) # {q.denominator})%Q"


def cstr(t):
    return "[" + "; ".join(str(ord(ch)) for ch in t) + "]"


def emit(c):
    ps = []
    for name, (ty, v) in c["params"]:
        if ty == "bool":
            pv = f"VBool {'true' if v else 'false'}"
        elif ty == "int":
            pv = f"VInt ({v})"
        elif ty == "float":
            pv = f"VFloat {cq(v)}"
        elif ty == "str":
            pv = f"VStr {cstr(v)}"
        else:
            pv = "VNone"
        ps.append(f"    ({cstr(name)}, {pv}) (* {name} *)")
    L = []
    L.append("(* GENERATED by harness/gen_consts.py from /repo's current sources - do not edit *)")
    L.append("From Aldy Require Import Base Consts.")
    L.append("Open Scope Z_scope.")
    L.append("Definition here : consts := {|")
    L.append("  c_params := [\n" + ";\n".join(ps) + "];")
    L.append(f"  c_solver_precision := {cq(c['solver_precision'])};")
    L.append(f"  c_solution_precision := {cq(c['solution_precision'])};")
    L.append(f"  c_slack := {cq(c['slack'])};")
    L.append(f"  c_major_novel_unit := {cq(c['major_novel_unit'])};")
    L.append(f"  c_cn_pars_num := {cq(c['cn_pars_num'])};")
    L.append(f"  c_cn_pars_factor := {cq(c['cn_pars_factor'])};")
    L.append(f"  c_minor_tie_den := {cq(c['minor_tie_den'])};")
    L.append(f"  c_minor_vnewor_div := {cq(c['minor_vnewor_div'])};")
    L.append(f"  c_homozygous_eps := {cq(c['homozygous_eps'])};")
    L.append("  c_bins := [" + "; ".join(f"({a}, {b})" for a, b in c["bins"]) + "];")
    L.append(f"  c_bin_top := {c['bin_top']};")
    L.append("  c_vcf_reads := [" + "; ".join(str(x) for x in c["vcf_reads"]) + "];")
    L.append(f"  c_vcf_q := ({c['vcf_q'][0]}, {c['vcf_q'][1]});")
    L.append("  c_sort_scale := [" + "; ".join(str(x) for x in c["sort_scale"]) + "];")
    L.append(f"  c_avg_cov_eps := {cq(c['avg_cov_eps'])};")
    L.append(f"  c_dump_min_avg := {cq(c['dump_min_avg'])};")
    L.append(f"  c_neutral_floor := {cq(c['neutral_floor'])}")
    L.append("|}.")
    return "\n".join(L) + "\n"


WF = """(* GENERATED by harness/gen_consts.py - obligation: the literals of the current tree are well-formed *)
From Aldy Require Import Base Consts Consts_here.
Lemma here_wf : consts_wf here = true.
Proof. vm_compute. reflexivity. Qed.
"""


def main():
    out_path = sys.argv[1] if len(sys.argv) > 1 else os.path.join(os.path.dirname(__file__), "..", "coq", "gen", "Consts_here.v")
    c = extract()
    text = emit(c)
    for path, txt in ((out_path, text), (os.path.join(os.path.dirname(out_path), "Consts_wf.v"), WF)):
        old = open(path).read() if os.path.exists(path) else None
        if old != txt:
            with open(path, "w") as f:
                f.write(txt)
    # which literals could not be read (their fallback value is in the generated file; common.build turns each into a broken
    # obligation of the properties whose model closure or harness mentions it)
    with open(os.path.join(os.path.dirname(out_path), "consts_status.json"), "w") as f:
        json.dump({"failed": extract.failed}, f, indent=1)
    js = {k: (str(v) if isinstance(v, Fraction) else v) for k, v in c.items() if k != "params"}
    js["params"] = [[n, ty, (str(v) if isinstance(v, Fraction) else v)] for n, (ty, v) in c["params"]]
    print(json.dumps(js))
    for k, msg in extract.failed.items():
        print(f"FAIL-CLOSED field {k}: {msg}")


if __name__ == "__main__":
    main()
