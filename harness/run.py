"""entry point of bin/check"""
import argparse, importlib, os, sys, traceback
sys.path.insert(0, os.path.dirname(os.path.abspath(__file__)))
import common


def main():
    ap = argparse.ArgumentParser()
    ap.add_argument("prop")
    ap.add_argument("--tier", default=os.environ.get("VERIF_TIER", "quick"), choices=["quick", "thorough"])
    ap.add_argument("--replay", default=None)
    ap.add_argument("--seed", type=int, default=int(os.environ.get("VERIF_SEED", "20260926")))
    a = ap.parse_args()
    common.quiet_aldy()
    mod = importlib.import_module(a.prop.lower())
    chk = common.Check(a.prop, a.tier, a.seed)
    if a.replay:
        sys.exit(mod.replay(chk, a.replay))
    try:
        mod.run(chk)
    except common.CoqEvalError as e:
        chk.broken.append(("obligation", "model-evaluation", str(e)[-2000:]))
    except Exception:
        # a crash of the harness itself is reported as a broken check, never silently passed
        chk.broken.append(("correspondence", "harness-crash", traceback.format_exc()[-3000:]))
        traceback.print_exc()
    sys.exit(chk.finish())


if __name__ == "__main__":
    main()
