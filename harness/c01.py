"""C01 - error-free reads from a catalogued genotype are called as that genotype (PARTIAL: see coq/props/C01.v).

A case is a seed: generated consistent database (strand ++/+-/-+/--, with/without pseudogene, SNP/MNP/insertion/deletion alleles,
optional whole-gene deletion and fusion alleles), read length 50-250, per-copy depth 20-30, profile built from a simulated two-copy
reference sample of the same technology (YAML profile or BAM-as-profile), planted multiset of 1-4 catalogued alleles (two copies,
allele + deletion, double deletion, three / four copies, left fusion over a base allele, right fusion), error-free tiled reads,
real aldy.genotype.genotype().
Predicate (on the implementation's answer only), evaluated whenever the planted structure is an optimal explanation of the region
depths BY THE STRUCTURE STAGE'S OWN SCORE (it is among estimate_cn's results with the minimal score):
   planted-among-best : some reported solution has exactly the planted major star-alleles (structure configuration + defining
                        variants, copy for copy)
   variants-exact     : every reported solution's alleles carry exactly the planted variants with multiplicity
Correspondence with Pipeline.v: the evidence hypotheses E1/E2 of C01_planted_fit_zero are MEASURED on the sample the implementation
built (cov = d x planted copies, total = d x copy number at every catalogued variant site) and the rows are handed to the model,
whose fit error of the planted combination must be 0 exactly when the hypotheses were measured to hold.
Streams: "friendly" (simulation_friendly databases) and, separately, "adversarial" (same-site SNP+deletion, indels 8 bp apart,
shiftable indels)."""
import collections, json, os, random, tempfile, time
from fractions import Fraction
import common, e2e
from common import cz, cq, clist

IMPORTS = ["Base", "Consts", "Select", "Pipeline", "Consts_here"]
TOL = 1e-6


def gen_cases(rng, n, n_adv, n_ship=0):
    cases = [{"seed": rng.randrange(1 << 30), "stream": "friendly"} for _ in range(n)]
    cases += [{"seed": rng.randrange(1 << 30), "stream": "adversarial"} for _ in range(n_adv)]
    for which in ("last", "first", "last", "first"):
        cases.append({"seed": rng.randrange(1 << 30), "stream": "friendly", "edge": which})
    for strands in ("++", "--", "++", "+-"):       # a variant on the last base before the break region of a left fusion, planted with the fusion
        cases.append({"seed": rng.randrange(1 << 30), "stream": "friendly", "before_break": strands})
    for _ in range(3):
        cases.append({"seed": rng.randrange(1 << 30), "stream": "friendly", "alias_before": True})
    import shipdesc
    for k in range(n_ship):
        cases.append({"seed": rng.randrange(1 << 30), "stream": "shipped", "gene": shipdesc.SMALL[k % len(shipdesc.SMALL)],
                      "prefer_overlap": k < len(shipdesc.SMALL)})
    for j in range(3 if n_ship else 0):     # every pair of NUDT15 in which one allele deletes bases where the other has a variant
        cases.append({"seed": rng.randrange(1 << 30), "stream": "shipped", "gene": "nudt15", "prefer_overlap": True, "overlap_index": j})
    return cases


def plant(rng, desc):
    A = desc["alleles"]
    normal = [a for a, v in A.items() if v["kind"] == "normal"]
    dels = [a for a, v in A.items() if v["kind"] == "deletion"]
    lf = [a for a, v in A.items() if v["kind"] == "left_fusion"]
    rf = [a for a, v in A.items() if v["kind"] == "right_fusion"]
    kinds = ["two", "two", "two"]
    if dels:
        kinds += ["del", "deldel", "three", "three", "four"]
    if lf:
        kinds += ["lf", "lf"]
    if rf:
        kinds += ["rf"]
    k = rng.choice(kinds)
    pick = lambda: rng.choice(normal)
    if k == "two":
        return k, [pick(), pick()]
    if k == "del":
        return k, [pick(), dels[0]]
    if k == "deldel":
        return k, [dels[0], dels[0]]
    if k == "three":
        return k, [pick(), pick(), pick()]
    if k == "four":
        return k, [pick(), pick(), pick(), pick()]
    if k == "lf":
        if not A[lf[0]]["functional"]:
            return k, [pick(), lf[0] + "#" + pick()]
        # a left fusion with own defining variants has no partial alleles: its hybrid is catalogued only over a variant-free base
        bare = [a for a in normal if not A[a]["variants"]]
        if bare:
            return k, [pick(), lf[0] + "#" + bare[0]]
        return "two", [pick(), pick()]
    return k, [pick(), rf[0]]       # a right-fusion hybrid over a non-reference base is not a catalogued allele


def expected_structure(desc, alleles):
    c = collections.Counter()
    for spec in alleles:
        a = desc["alleles"][spec.split("#")[0]]
        if a["kind"] == "normal":
            c["1"] += 1
        elif a["kind"] != "deletion":
            c[a["major"]] += 1
    return c


def planted_major_signature(gene, desc, build, alleles, info):
    """Counter of (cn configuration, frozenset of defining variants present on the copy) over the planted copies"""
    import gendb
    sig = collections.Counter()
    for spec, pcs in zip(alleles, info["copies"]):
        first = spec.split("#")[0]
        a = desc["alleles"][first]
        if a["kind"] == "deletion":
            continue
        conf = "1" if a["kind"] == "normal" else a["major"]
        fun = set()
        for part in spec.split("#"):
            gv = {tuple(v) for v in desc["builds"][build]["alleles"][part]}
            hit = gene.get_allele(part)
            names = {(m.pos, m.op) for m in hit[0].func_muts} if hit else set()
            if hit is None:      # left fusion replaced by partial alleles: its own defining set is empty
                names = set()
            for pos, op in gv & names:
                lo, hi = e2e._span(pos, op)
                if any(x <= lo and hi <= y for x, y in pcs):
                    fun.add((pos, op))
        sig[(conf, frozenset(fun))] += 1
    return sig


def solution_major_signature(gene, sol):
    sig = collections.Counter()
    for sa in sol.solution:
        ma = gene.alleles[sa.major]
        sig[(ma.cn_config, frozenset((m.pos, m.op) for m in ma.func_muts))] += 1
    return sig


def run_case(case):
    common.quiet_aldy()
    import gendb, simreads
    from aldy.genotype import genotype
    from aldy.common import AldyException
    from aldy.gene import Gene, Mutation
    t0 = time.time()
    rng = random.Random(case["seed"])
    friendly = case["stream"] == "friendly"
    with tempfile.TemporaryDirectory(dir=common.SCRATCH) as d:
        if case["stream"] == "shipped":
            # a small shipped database (no pseudogene, no structural alleles): error-free reads of two catalogued alleles
            import shipdesc
            build = rng.choice(["hg19", "hg38"])
            yml, desc, _g = shipdesc.desc_from_gene(case["gene"], build, case["seed"])
            desc["opts"] = {"refseq_span": "gene"}
        else:
            extra_opts = {"fusions": ("left",), "pseudogene": True, "strands": case["before_break"]} if case.get("before_break") else {}
            yml, desc = gendb.write_db(d, rng, n_alleles=rng.randint(3, 9), simulation_friendly=friendly,
                                       length=rng.randint(300, 1600), deletion=(rng.random() < 0.7), **extra_opts)
            build = rng.choice(["hg19", "hg38"])
        L = rng.choice([50, 75, 100, 150, 200, 250]) if case["stream"] != "shipped" else rng.choice([100, 150])
        depth = rng.choice([20, 25, 30]) if L not in (75,) else 25
        step = max(1, L // depth)
        while L % step:
            step -= 1
        prof = simreads.make_profile(desc, yml, build, L, step, d, rng, kind=rng.choice(["yaml", "bam"]))
        if case["stream"] == "shipped":
            names = sorted(desc["alleles"])
            withvar = [n for n in names if desc["alleles"][n]["variants"]]
            kind = "two"
            # pairs in which one allele DELETES bases where the other allele has a variant (e.g. NUDT15 *5/*9: the two haplotypes
            # disagree inside the deleted span) are planted first when the catalogue has any
            span = lambda v: (v[0], v[0] + (len(v[1][3:].split("ins")[0]) if v[1].startswith("del") else len(v[1].split(">")[0]) if ">" in v[1] else 1))
            overl = [(a, b) for a in withvar for b in withvar if a != b and any(
                va[1].startswith("del") and not vb[1].startswith("del") and span(va)[0] < span(vb)[1] and span(vb)[0] < span(va)[1] and
                (span(vb)[0] > span(va)[0] or span(va)[1] - span(va)[0] > 1)
                for va in desc["alleles"][a]["variants"] for vb in desc["alleles"][b]["variants"])]
            if case.get("alleles"):
                alleles = case["alleles"]
            elif overl and case.get("prefer_overlap"):
                alleles = list(sorted(overl)[case["overlap_index"] % len(overl)] if "overlap_index" in case else rng.choice(sorted(overl)))
                kind = "two-overlapping"
            else:
                alleles = [rng.choice(withvar), rng.choice(withvar if rng.random() < 0.6 else names)]
        else:
            kind, alleles = plant(rng, desc)
            if case.get("alias_before"):
                normal_ = [a for a, v in desc["alleles"].items() if v["kind"] == "normal"]
                dels_ = [a for a, v in desc["alleles"].items() if v["kind"] == "deletion"]
                # a structure that is NOT two default copies, so that skipping the structure stage shows
                kind, alleles = ("del", [rng.choice(normal_), dels_[0]]) if dels_ and rng.random() < 0.5 else ("three", [rng.choice(normal_) for _ in range(3)])
            if case.get("before_break"):
                # region labels at a region border decide the copy number there: a variant on the last base before the break region
                # of a left fusion (a region the fusion does not retain), on both normal copies, next to a fusion hybrid
                pb = gendb.plant_before_break_allele(desc, yml, salt=case["seed"])
                bare = [a for a, v in desc["alleles"].items() if v["kind"] == "normal" and not v["variants"]]
                if pb is not None and bare and not desc["alleles"][pb[1]]["functional"]:
                    kind, alleles = "before-break", [pb[0], pb[1] + "#" + bare[0], pb[0] if rng.random() < 0.6 else bare[0]]
            if case.get("edge"):
                # an allele defined on the first / last base of the RefSeq mapping: the outermost aligned genome base, where the
                # window tests of the loader (sam.py:584-589) decide whether an observation is a variant or folded into the reference
                nm = gendb.plant_edge_allele(desc, yml, case["edge"], salt=case["seed"])
                if nm is not None:
                    normal = [a for a, v in desc["alleles"].items() if v["kind"] == "normal"]
                    kind, alleles = "edge-" + case["edge"], [nm, rng.choice(normal)]
        n_patches = 0
        if case["stream"] != "shipped" and random.Random(case["seed"] + 17).random() < 0.3:
            # the reference spelled with `patches` (as VKORC1 and NAT1 are): the substitutions of the planted alleles sit on patched bases
            n_patches = gendb.respell_with_patches(desc, yml, random.Random(case["seed"] + 18), prefer=alleles)
        bam = os.path.join(d, f"S{case['seed'] % 100000}.bam")
        info = simreads.simulate(desc, build, alleles, None, L, step, bam, rng)
        out = {"planted": alleles, "kind": kind, "patches": n_patches, "build": build, "strand": desc["builds"][build]["strand"], "L": L, "depth": L // step,
               "pseudogene": bool(desc["pseudogene"]), "refseq_span": desc["opts"]["refseq_span"], "error": None,
               "variant_kinds": sorted({("snp" if ">" in v[1] and len(v[1]) == 3 else "mnp" if ">" in v[1] else v[1][:3])
                                        for s in alleles for p in s.split("#") for v in desc["alleles"][p]["variants"]})}
        want = e2e.planted_variants(desc, build, alleles, info)
        out["want"] = sorted([list(k) + [n] for k, n in want.items()])
        if case.get("alias_before"):
            # history: the same database was genotyped before in this process under a profile alias that switches copy-number calling
            # off (exome); whatever that call did, the call that is judged starts from the database as it is on disk
            try:
                genotype(yml, bam, output_file=None, solver="any", **dict(simreads.genotype_kwargs(desc, build, prof), profile_name="exome"))
            except Exception:     # noqa
                pass
        with e2e.StageRecorder() as rec:
            try:
                res = genotype(yml, bam, output_file=None, solver="any", **simreads.genotype_kwargs(desc, build, prof))
                final = list(res.values())[0]
            except AldyException as ex:
                out["error"] = str(ex).split("\n")[0]
                final = None
        gene = Gene(yml, genome=build)
        exp_cn = expected_structure(desc, alleles)
        out["expected_structure"] = dict(exp_cn)
        out["cn"] = [(c._solution_nice(), s) for c, s in zip(rec.cn or [], rec.cn_scores or [])]
        best_cn = min(rec.cn_scores) if rec.cn_scores else None
        out["structure_optimal"] = bool(rec.cn) and any(collections.Counter({k: v for k, v in c.solution.items() if v}) == exp_cn and
                                                        s <= best_cn + TOL for c, s in zip(rec.cn, rec.cn_scores))
        out["reported"] = None
        if final is not None:
            psig = planted_major_signature(gene, desc, build, alleles, info)
            out["reported"] = []
            for s in final:
                got = e2e.reported_variants(s)
                out["reported"].append({"diplotype": s.get_major_diplotype(), "minor": s._solution_nice(), "score": float(s.score),
                                        "structure": s.major_solution.cn_solution._solution_nice(),
                                        "majors_match": solution_major_signature(gene, s) == psig,
                                        "variants_match": got == want,
                                        "extra": sorted([list(k) + [n] for k, n in (got - want).items()]),
                                        "lost": sorted([list(k) + [n] for k, n in (want - got).items()])})
        # ---- measured evidence at the catalogued variant sites of the planted copies (hypotheses E1/E2 of the theorem)
        rows = []
        if rec.coverage is not None and rec.cn:
            cn_sol = next((c for c in rec.cn if collections.Counter({k: v for k, v in c.solution.items() if v}) == exp_cn), None)
            if cn_sol is not None:
                dd = L // step
                for (pos, op), mult in sorted(want.items()):
                    m = Mutation(pos, op)
                    sc = rec.coverage.single_copy(m, cn_sol)
                    rows.append({"pos": pos, "op": op, "mult": mult, "cov": float(rec.coverage.coverage(m)),
                                 "total": float(rec.coverage.total(m)), "cn": int(cn_sol.position_cn(pos)), "d": dd,
                                 "obs": (float(rec.coverage.coverage(m)) / sc) if sc else 0.0})   # as major.py:156-159 computes it
        out["rows"] = rows
        # catalogued insertions/deletions that were NOT planted but got support from the realigner
        out["spurious_indels"] = []
        if rec.coverage is not None:
            for (pos, op) in sorted(gene.mutations):
                if op[:3] in ("ins", "del") and (pos, op) not in want and rec.coverage.coverage(Mutation(pos, op)) > 0:
                    out["spurious_indels"].append([pos, op, float(rec.coverage.coverage(Mutation(pos, op)))])
        sites = collections.Counter()
        for (pos, op) in want:
            lo, hi = e2e._span(pos, op)
            for q in range(lo, hi):
                sites[q] += 1
        out["same_site"] = any(v > 1 for v in sites.values())
        # catalogued deletions outside exons / up / utr: the minor stage's read filter (minor.py:57-71) drops the "-" observations of
        # their bases, so its reference row at the site sees all copies
        nonex = set()
        for (pos, op), mult in want.items():
            if op.startswith("del"):
                reg = gene.region_at(pos)
                if not (reg and (reg[1][0] == "e" or reg[1] in ("utr3", "utr5", "up"))):
                    nonex.add((pos, op))
        out["nonexonic_deletions"] = sorted([list(k) + [want[k]] for k in nonex])
        if out["reported"]:
            for x in out["reported"]:
                diff = [tuple(v[:2]) for v in x["extra"] + x["lost"]]
                x["diff_only_nonexonic_del"] = bool(diff) and all(k in nonex for k in diff)
        # ---- diagnosis of a failing case: does it pass with the phasing term switched off?
        out["passes_without_phase"] = None
        failing = out["structure_optimal"] and (out["reported"] is None or not any(x["majors_match"] for x in out["reported"])
                                                or any(not x["variants_match"] for x in out["reported"]))
        if failing:
            try:
                res2 = genotype(yml, bam, output_file=None, solver="any", phase=False, **simreads.genotype_kwargs(desc, build, prof))
                f2 = list(res2.values())[0]
                psig = planted_major_signature(gene, desc, build, alleles, info)
                out["passes_without_phase"] = bool(f2) and any(solution_major_signature(gene, s) == psig for s in f2) and \
                    all(e2e.reported_variants(s) == want for s in f2)
            except AldyException:
                out["passes_without_phase"] = False
        out["wall"] = round(time.time() - t0, 1)
        return out


# ----------------------------------------------------------------------------------------------------------------------
def term(r):
    """rows as measured; copies are numbered 0..n-1 and copy i is a member of a row iff i < mult (only counts matter)"""
    def row(x):
        return (f"{{| r_cov := {cq(Fraction(x['cov']))}; r_total := {cq(Fraction(x['total']))}; r_cn := {cz(x['cn'])}; "
                f"r_member := fun a : Z => a <? {cz(x['mult'])} |}}")
    n = max([x["mult"] for x in r["rows"]] + [len(r["planted"])])
    planted = clist(range(n), cz)
    return f"o_q (fit_error {clist(r['rows'], row)} {planted})"


def evaluate(chk, cases, jobs=12, timeout=120):
    results = e2e.run_pool(run_case, cases, jobs=jobs, timeout=timeout)
    usable = []
    for case, r in zip(cases, results):
        if r.get("timeout"):
            chk.count(case["stream"], "timeout")
            continue
        if r.get("crash"):
            chk.broken.append(("correspondence", "harness-crash", {"case": case, "trace": r["crash"]}))
            continue
        usable.append((case, r))
    with_rows = [(c, r) for c, r in usable if r["rows"]]
    model = {}
    if chk.model_available() and with_rows:
        vals = common.coq_eval(IMPORTS, [term(r) for _, r in with_rows], shard=20)
        model = {id(r): common.dq(v) for (_, r), v in zip(with_rows, vals)}
    for case, r in usable:
        st = case["stream"]
        canon = {"planted": r["planted"], "want": r["want"], "L": r["L"], "depth": r["depth"], "strand": r["strand"], "build": r["build"]}
        chk.case(st, canon, nontrivial=bool(r["want"]) or r["kind"] != "two",
                 sample={"case": case, "planted": r["planted"], "kind": r["kind"], "strand": r["strand"], "L": r["L"], "depth": r["depth"],
                         "structures": r["cn"], "reported": [x["diplotype"] for x in (r["reported"] or [])], "error": r["error"]})
        chk.count(st, "kind=" + r["kind"])
        chk.count(st, "strand=" + r["strand"])
        chk.count(st, "pseudogene" if r["pseudogene"] else "no-pseudogene")
        for k in r["variant_kinds"]:
            chk.count(st, "variants:" + k)
        # ---- correspondence: measured evidence vs the model's fit error of the planted combination
        if id(r) in model:
            ideal = all(abs(x["cov"] - x["d"] * x["mult"]) < 1e-9 and abs(x["total"] - x["d"] * x["cn"]) < 1e-9 and x["cn"] > 0 for x in r["rows"])
            chk.count(st, "evidence-ideal" if ideal else "evidence-within-boundary-reads" if all(
                abs(x["cov"] - x["d"] * x["mult"]) <= 2 and abs(x["total"] - x["d"] * x["cn"]) <= 2 for x in r["rows"]) else "evidence-not-ideal")
            impl_fit = sum(abs(x["obs"] - x["mult"]) for x in r["rows"])       # with coverage.single_copy of the implementation
            if abs(impl_fit - float(model[id(r)])) > 1e-9 or (ideal and model[id(r)] != 0):
                chk.mismatch("planted-fit-error", case, str(model[id(r)]), {"implementation_fit": impl_fit, "ideal": ideal, "rows": r["rows"]})
        # ---- predicate
        if not r["structure_optimal"]:
            chk.count(st, "planted-structure-not-optimal (escape clause)")
            continue
        chk.count(st, "planted-structure-optimal")
        desc = {"stream": st, "kind": r["kind"], "strand": r["strand"], "build": r["build"], "pseudogene": r["pseudogene"],
                "copies": len(r["planted"]), "L": r["L"], "depth": r["depth"], "variant_kinds": r["variant_kinds"],
                "has_indel": any(k in ("ins", "del") for k in r["variant_kinds"]), "has_ins": "ins" in r["variant_kinds"],
                "passes_without_phase": r["passes_without_phase"],
                "realigner_zero": any(x["op"][:3] in ("ins", "del") and x["cov"] == 0 for x in r["rows"]),
                "realigner_spurious": bool(r["spurious_indels"]), "same_site": r["same_site"],
                "nonexonic_deletion": bool(r["nonexonic_deletions"]),
                "diff_only_nonexonic_del": bool(r["reported"]) and all(x.get("diff_only_nonexonic_del") for x in r["reported"] if not x["variants_match"])
                                           and any(not x["variants_match"] for x in r["reported"]),
                "evidence_ideal": (all(abs(x["cov"] - x["d"] * x["mult"]) < 1e-9 and abs(x["total"] - x["d"] * x["cn"]) < 1e-9 for x in r["rows"])
                                   if r["rows"] else None)}
        if r["reported"] is None:
            chk.fail("planted-among-best", desc, case, {"planted": r["planted"]}, {"error": r["error"]})
            continue
        if not any(x["majors_match"] for x in r["reported"]):
            chk.fail("planted-among-best", desc, case, {"planted": r["planted"], "want": r["want"]},
                     {"reported": [(x["diplotype"], x["minor"], x["score"]) for x in r["reported"]], "rows": r["rows"]})
        bad = [x for x in r["reported"] if not x["variants_match"]]
        if bad:
            chk.fail("variants-exact", desc, case, {"planted": r["planted"], "want": r["want"]},
                     {"reported": [(x["diplotype"], x["minor"], x["score"], {"extra": x["extra"], "lost": x["lost"]}) for x in bad],
                      "rows": r["rows"]})


def load_corpus():
    p = os.path.join(common.VERIF, "corpus", "C01.json")
    return json.load(open(p)) if os.path.exists(p) else []


def run(chk):
    chk.rule = ("a case is a seed (database, build/strand, read length, depth, profile kind, planted multiset and structure); non-trivial = "
                "the planted copies carry at least one variant or the structure is not plain two-copy; distinct = distinct (planted "
                "alleles, variant multiset, strand, read length, depth); stream shipped = two catalogued alleles of a small shipped database")
    chk.build()
    n, n_adv, n_ship = (60, 10, 10) if chk.tier == "quick" else (600, 150, 120)
    evaluate(chk, load_corpus() + gen_cases(chk.rng, n, n_adv, n_ship))
    chk.assumptions = ["PARTIAL: the theorems assume the ideal-pileup evidence hypotheses E1-E6 (coq/props/C01.v); whether real reads give "
                       "them is measured per case here (evidence-ideal / evidence-not-ideal) and the realigner is a foreign component",
                       "the escape clause of the statement is decided with the structure stage's own scores",
                       "small shipped genes (stream shipped: nudt15, cyp1a1, cyp2a13, cyp1a2, cyp2f1, ifnl3, nat2, cyp2w1, gstp1, cyp2e1) are simulated on "
                       "aldy's own genome-oriented RefSeq with random flanks and a synthetic neutral stretch next to the gene (harness/shipdesc.py)"]


def replay(chk, path):
    r = json.load(open(path))
    chk.build()
    evaluate(chk, [r["case"]], jobs=1, timeout=900)
    for f in chk.failures:
        print("still failing:", f["clause"], json.dumps(f["observed"], default=str)[:600])
    print("REPLAY", "FAILS" if chk.failures else "passes")
    return 1 if chk.failures else 0
