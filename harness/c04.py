"""C04 — minor-allele refinement preserves the major call and is optimal.

(a) structural tie : the LP aldy hands to CBC inside solve_minor_model (read back by lprec.Recorder)  vs  MinorModel.gen
                     (variables by role, rows and objective coefficient by coefficient, 1e-9 relative)
(b) behavioural tie: solver objective == MinorSpec.score of the solver's assignment (1e-6); that assignment is admissible and
                     optimal for the exhaustive MinorSpec.optimum (tie-breaker excluded: it lies below CBC's stopping gap);
                     reported alleles == MinorSpec.readout of the solver's assignment (variant AsShipped | Fixed detected by
                     replaying the refutation witnesses of props/C04.v); the canonical point MinorSpec.point_of of the optimal
                     assignment is feasible for MinorModel.gen with objective == score (kernel computation per instance)
(c) property predicate on the implementation's REPORTED alleles, clause by clause in Python on aldy's own Gene/Coverage
    facts; the two score clauses use MinorSpec.score / MinorSpec.optimum (the specification the theorems are about).
    The clause booleans are additionally evaluated in Gallina (MinorSpec.clauses; theorem C04_minor_point_clauses is about
    exactly these) and the two evaluations must agree.

The model instance of one solve_minor_model call is a serialisation of aldy's own objects (candidate minors with their
variant sets, functional flags, has_coverage, position copy numbers, filtered counts and totals, phase records) in the
iteration order the implementation used: the pooled `mutations` set is the very object the implementation iterates, its
order is cross-checked against the creation order of the E_ variables."""
import collections, itertools, json, os, sys, time
from fractions import Fraction
import common, lprec
from common import cz, cq, clist, cbool, copt

IMPORTS = ["Base", "Consts", "Lp", "MinorModel", "MinorSpec", "Consts_here"]
CLAUSES = ["one-minor-per-copy", "core-kept", "add-needs-copies", "add-needs-reads", "carried-has-reads", "one-per-site",
           "supported-carried"]
ENUM_LIMIT = 5000          # assignments enumerated inside Coq per instance (larger instances: no optimum, only evaluation)
TOL_ABS, TOL_REL = 1e-6, 1e-9

_GENES = {}


def gene(name):
    if name not in _GENES:
        from aldy.gene import Gene
        from aldy.common import script_path
        if name == "toy":
            _GENES[name] = Gene(script_path("aldy.tests.resources/toy.yml"))
        else:
            _GENES[name] = Gene(script_path(f"aldy.resources.genes/{name}.yml"), genome="hg38")
    return _GENES[name]


def close(a, b):
    return abs(a - b) <= TOL_ABS + TOL_REL * max(abs(a), abs(b))


# ------------------------------------------------------------------------------------------------
# implementation adapter
# ------------------------------------------------------------------------------------------------
def build_inputs(case):
    from aldy.profile import Profile
    from aldy.coverage import Coverage
    from aldy.sam import Sample
    from aldy.gene import Mutation
    from aldy.solutions import CNSolution, MajorSolution, SolvedAllele
    g = gene(case["gene"])
    prof = Profile("c04", **case.get("params", {}))
    cvd = collections.defaultdict(dict)
    for pos, op, c in case["table"]:
        if c > 0:
            cvd[pos][op] = [(60, 60)] * c
    indels = None
    if case.get("indels"):
        indels = {(p, o): (n, y) for p, o, n, y in case["indels"]}
    cov = Coverage(g, prof, None, cvd, indels, {})
    if case.get("phases") is not None:
        cov.sam = Sample.__new__(Sample)
        cov.sam.phases = {name: {p: o for p, o in fr} for name, fr in case["phases"]}
    cn = CNSolution(g, 0, list(case["cn"]))
    majors = []
    for ms in case["majors"]:
        sol = collections.Counter()
        for mj, c in ms["alleles"]:
            sol[SolvedAllele(g, mj)] = c
        cn_ms = CNSolution(g, 0, list(ms["cn"])) if ms.get("cn") else cn     # a candidate under another gene structure
        majors.append(MajorSolution(ms.get("score", 0.0), sol, cn_ms, [Mutation(p, o) for p, o in ms.get("added", [])]))
    return g, cov, majors


def own_structure_evidence(c, raw_cov):
    """the evidence estimate_minor has to hand to solve_minor_model for candidate c.major_sol: the quality-filtered table filtered with
    the copy numbers of THAT candidate's gene structure (minor.py:57-74,99), recomputed here from the raw table"""
    from aldy.coverage import Coverage
    g, considered, cnsol = c.gene, set(c.mut_order), c.major_sol.cn_solution

    def fn(cov, mut):
        r = g.region_at(mut.pos)
        if mut.op != "_" and not (mut in considered or (r and r[1][0] == "e") or (r and r[1] in ["utr3", "utr5", "up"])):
            return False
        cond = cov.basic_filter(mut, cn=raw_cov.profile.cn_max)
        if mut.op != "_":
            cond = cond and cov.basic_filter(mut, cn=cnsol.position_cn(mut.pos) + 0.5)
        return cond
    exp = raw_cov.filtered(Coverage.quality_filter).filtered(fn)
    flat = lambda cv: {(p, o): len(v) for p, ops in cv._coverage.items() for o, v in ops.items() if len(v)}
    return flat(exp), flat(c.cov)


class Call:
    """one call of solve_minor_model, as observed from outside"""
    pass


RAW_COV = [None]


def run_impl(case):
    """run estimate_minor under the recorder; returns (calls, results, error)"""
    import aldy.minor as M
    from aldy import lpinterface
    g, cov, majors = build_inputs(case)
    RAW_COV[0] = cov
    calls = []
    orig_solve = M.solve_minor_model
    created = []

    def hooked(gene_, coverage, major_sol, alleles_list, mutations, solver, max_solutions=1):
        c = Call()
        c.gene, c.cov, c.major_sol, c.alleles_list = gene_, coverage, major_sol, list(alleles_list)
        c.raw_cov = RAW_COV[0]
        c.mut_order = list(mutations)            # the same set object the implementation iterates
        c.n_models_before = len(created)
        calls.append(c)
        c.result = orig_solve(gene_, coverage, major_sol, alleles_list, mutations, solver, max_solutions)
        c.scores_at_return = [s.score for s in c.result]
        c.lp = created[c.n_models_before] if len(created) > c.n_models_before else None
        if c.lp is not None and c.result:
            c.values = {v.name(): v.solution_value() for v in c.lp.model.variables()}
        else:
            c.values = None
        return c.result

    err = None
    res = None
    with lprec.Recorder() as rec:
        fac = lpinterface.model

        def fac2(name, solver):
            m = fac(name, solver)
            orig_add = m.addVar
            m._c04_names = []

            def addVar(*a, **k):
                v = orig_add(*a, **k)
                m._c04_names.append((k.get("name", ""), v.name()))
                return v
            m.addVar = addVar
            created.append(m)
            return m
        lpinterface.model = fac2
        M.solve_minor_model = hooked
        try:
            res = M.estimate_minor(g, cov, majors, "any", max_solutions=case.get("max_solutions", 1))
        except Exception as e:   # an exception of the implementation is an observation, not a harness crash
            err = f"{type(e).__name__}: {e}"
        finally:
            M.solve_minor_model = orig_solve
            lpinterface.model = fac
    min_score = min(m.score for m in majors)
    for c in calls:
        c.carry = c.major_sol.score - min_score
    return calls, res, err


# ------------------------------------------------------------------------------------------------
# instance extraction (aldy's own facts)
# ------------------------------------------------------------------------------------------------
def extract(c):
    """Call -> plain-data instance"""
    g, cov, ms = c.gene, c.cov, c.major_sol
    from aldy.gene import Mutation
    from aldy.solutions import SolvedAllele
    muts = c.mut_order
    mid = {m: k for k, m in enumerate(muts)}
    cn = ms.cn_solution
    ops = {"_": 0}
    phases = None
    if cov.profile.phase and cov.sam:
        phases = [[(p, o) for p, o in fr.items()] for fr in cov.sam.phases.values()]
    for o in sorted({m.op for m in muts} | ({o for fr in phases for _, o in fr} if phases else set())):
        ops.setdefault(o, len(ops))
    sites = list(dict.fromkeys(m.pos for m in muts))
    majors = list(dict.fromkeys([a.major for a in c.alleles_list] + [sa.major for sa in ms.solution]))
    mjid = {n: k for k, n in enumerate(majors)}
    cands, seen = [], set()
    for a in c.alleles_list:
        if (a.major, a.minor) in seen:
            continue
        seen.add((a.major, a.minor))
        al = g.alleles[a.major]
        d = set(al.func_muts) | set(al.minors[a.minor].neutral_muts)
        cands.append({"id": len(cands), "major": a.major, "minor": a.minor, "mj": mjid[a.major],
                      "def": sorted(mid[m] for m in d if m in mid), "def_outside": sorted(str(m) for m in d if m not in mid),
                      "core": sorted(mid[m] for m in al.func_muts if m in mid),
                      "covpos": [p for p in sites if g.has_coverage(a.major, p)]})
    inst = {
        "muts": [{"id": k, "pos": m.pos, "op": m.op, "opc": ops[m.op], "ins": m.op[:3] == "ins",
                  "func": bool(g.is_functional(m)), "cov": Fraction(cov[m]), "total": Fraction(cov.total(m)),
                  "pcn": Fraction(cn.position_cn(m.pos))} for k, m in enumerate(muts)],
        "sites": [{"pos": p, "pcn": Fraction(cn.position_cn(p)), "cov": Fraction(cov[Mutation(p, "_")]),
                   "total": Fraction(cov.total(Mutation(p, "_")))} for p in sites],
        "cands": cands,
        "majors": [(mjid[sa.major], int(n)) for sa, n in ms.solution.items()],
        "major_names": majors,
        "phases": [[(p, ops[o]) for p, o in fr] for fr in phases] if phases is not None else None,
        "miss": Fraction(repr(float(cov.profile.minor_miss))), "add": Fraction(repr(float(cov.profile.minor_add))),
        "phase": Fraction(repr(float(cov.profile.minor_phase))), "phase_vars": int(cov.profile.minor_phase_vars),
        "maxcn": Fraction(cn.max_cn()),
        "plain_keys": all((sa.minor or "") == "" and not sa.added and not sa.missing for sa in ms.solution),
    }
    return inst


def py_insts(inst):
    """allele copies in the implementation's order: (cand id, idx)"""
    cnt = dict(inst["majors"])
    out = [(c["id"], 0) for c in inst["cands"]]
    for c in inst["cands"]:
        for k in range(1, cnt.get(c["mj"], 0)):
            out.append((c["id"], k))
    return out


def coq_inst(inst):
    def mut(m):
        return ("{| m_id := %s; m_pos := %s; m_op := %s; m_ins := %s; m_func := %s; m_cov := %s; m_total := %s; m_pcn := %s |}"
                % (cz(m["id"]), cz(m["pos"]), cz(m["opc"]), cbool(m["ins"]), cbool(m["func"]), cq(m["cov"]), cq(m["total"]), cq(m["pcn"])))

    def site(s):
        return "{| s_pos := %s; s_pcn := %s; s_cov := %s; s_total := %s |}" % (cz(s["pos"]), cq(s["pcn"]), cq(s["cov"]), cq(s["total"]))

    def cand(c):
        return "{| c_id := %s; c_major := %s; c_def := %s; c_core := %s; c_covpos := %s |}" % (
            cz(c["id"]), cz(c["mj"]), clist(c["def"], cz), clist(c["core"], cz), clist(c["covpos"], cz))
    ph = "None" if inst["phases"] is None else "(Some %s)" % clist(inst["phases"], lambda fr: clist(fr, lambda kv: f"({cz(kv[0])}, {cz(kv[1])})"))
    return ("{| i_muts := %s; i_sites := %s; i_cands := %s; i_majors := %s; i_phases := %s; i_miss := %s; i_add := %s; "
            "i_phase := %s; i_phase_vars := %s; i_maxcn := %s |}" % (
                clist(inst["muts"], mut), clist(inst["sites"], site), clist(inst["cands"], cand),
                clist(inst["majors"], lambda mc: f"({cz(mc[0])}, {cz(mc[1])})"), ph, cq(inst["miss"]), cq(inst["add"]),
                cq(inst["phase"]), cz(inst["phase_vars"]), cq(inst["maxcn"])))


def coq_asg(asg):
    return clist(asg, lambda x: "(%s, %s, %s, %s)" % (cz(x[0]), cz(x[1]), clist(sorted(x[2]), cz), clist(sorted(x[3]), cz)))


# ------------------------------------------------------------------------------------------------
# role keys of the implementation's variable names
# ------------------------------------------------------------------------------------------------
def role_map(inst, names):
    """names: [(raw name given to addVar, name in the solver)] -> ({solver name: key tuple}, problems)"""
    cands = {c["id"]: c for c in inst["cands"]}
    ins = py_insts(inst)
    want = {}
    for (cid, idx) in ins:
        c = cands[cid]
        sfx = f"{c['major']}_{c['minor']}_{idx}"
        want[f"A_{sfx}"] = (1, cid, idx)
        for m in inst["muts"]:
            if m["id"] in c["def"]:
                want[f"K_{m['pos']}_{m['op']}_{sfx}"] = (2, cid, idx, m["id"])
                want[f"MUL_K_{m['pos']}_{m['op']}_{sfx}"] = (3, cid, idx, m["id"])
            elif m["pos"] in c["covpos"]:
                want[f"N_{m['pos']}_{m['op']}_{sfx}"] = (4, cid, idx, m["id"])
                want[f"MUL_N_{m['pos']}_{m['op']}_{sfx}"] = (5, cid, idx, m["id"])
    for m in inst["muts"]:
        want[f"E_{m['pos']}_{m['op']}"] = (6, m["id"])
        want[f"VNEWOR_{m['pos']}_{m['op']}"] = (11, m["id"])
    for s in inst["sites"]:
        want[f"E_{s['pos']}_REF"] = (7, s["pos"])
    out, problems, used = {}, [], collections.Counter()
    for raw, solver_name in names:
        used[raw] += 1
        key = None
        if raw in want:
            key = want[raw]
        elif raw.startswith("ABS_"):
            base = out.get(raw[4:])
            key = ((-1,) + base) if base else None
        elif raw.startswith("PH_") or raw.startswith("PHASE2_") or raw.startswith("PHASE3_"):
            parts = raw.split("_")
            try:
                nums = [int(x) for x in parts[1:]]
                cid, idx = ins[nums[0]]
                tag = {"PH": 8, "PHASE2": 9, "PHASE3": 10}[parts[0]]
                key = (tag, cid, idx) + tuple(nums[1:])
            except (ValueError, IndexError):
                key = None
        if key is None or used[raw] > 1:
            problems.append(f"unmapped or repeated variable name {raw!r}")
            key = (9999, raw, used[raw])      # sorts after every role key; never equal to a model key
        out[solver_name] = key
    return out, problems


# ------------------------------------------------------------------------------------------------
# canonical LP forms
# ------------------------------------------------------------------------------------------------
def merge_eq(rows):
    rows = set(rows)
    out = set()
    for (terms, rel, rhs) in rows:
        if rel == "le" and (terms, "ge", rhs) in rows:
            out.add((terms, "eq", rhs))
        elif rel == "ge" and (terms, "le", rhs) in rows:
            continue
        else:
            out.add((terms, rel, rhs))
    return out


def trivial(row):
    terms, rel, rhs = row
    if terms:
        return False
    return (rel == "le" and 0 <= rhs) or (rel == "ge" and 0 >= rhs) or (rel == "eq" and rhs == 0)


def canon_impl(snap, rename):
    vs, rows, obj, const = snap.canonical(lambda n: rename.get(n, (9999, n)))
    rows = {r for r in merge_eq(rows) if not trivial(r)}
    return vs, rows, dict(obj), const


def canon_model(v):
    """decoded o_lp -> same shape"""
    vars_, rows_, obj_, const_ = v
    vs = {}
    for key, kind in vars_:
        k = tuple(key)
        if kind[0] == 0:
            vs[k] = ("B", Fraction(0), Fraction(1))
        elif kind[0] == 1:
            vs[k] = ("I", common.dq(kind[1]), common.dq(kind[2]))
        else:
            vs[k] = ("C", common.dopt(kind[1], common.dq), common.dopt(kind[2], common.dq))
    rows = set()
    for lin, rel, rhs in rows_:
        coefs = collections.defaultdict(Fraction)
        for cqv, key in lin:
            coefs[tuple(key)] += common.dq(cqv)
        coefs = {k: c for k, c in coefs.items() if c != 0}
        r = common.dq(rhs)
        lb, ub = {0: (None, r), 1: (r, None), 2: (r, r)}[rel]
        rows |= lprec.canon_rows(coefs, lb, ub)
    rows = {r for r in merge_eq(rows) if not trivial(r)}
    obj = collections.defaultdict(Fraction)
    for cqv, key in obj_:
        obj[tuple(key)] += common.dq(cqv)
    return vs, rows, {k: c for k, c in obj.items() if c != 0}, common.dq(const_)


def num_close(a, b):
    if a is None or b is None:
        return a is b
    return abs(a - b) <= 1e-9 * max(1, abs(a), abs(b))


def compare_lp(ci, cm):
    """-> list of differences (empty = same LP)"""
    diffs = []
    vi, ri, oi, ki = ci
    vm, rm, om, km = cm
    for k in sorted(set(vi) | set(vm), key=repr):
        if k not in vi:
            diffs.append(f"variable {k} only in model")
        elif k not in vm:
            diffs.append(f"variable {k} only in implementation")
        else:
            a, b = vi[k], vm[k]
            if a[0] != b[0] or not num_close(a[1], b[1]) or not num_close(a[2], b[2]):
                diffs.append(f"variable {k}: implementation {a} model {b}")

    def bucket(rows):
        d = collections.defaultdict(list)
        for terms, rel, rhs in rows:
            d[(tuple(k for k, _ in terms), rel)].append(([c for _, c in terms], rhs))
        return d
    bi, bm = bucket(ri), bucket(rm)
    for key in sorted(set(bi) | set(bm), key=repr):
        left = list(bm.get(key, []))
        for coefs, rhs in bi.get(key, []):
            hit = None
            for j, (c2, r2) in enumerate(left):
                if all(num_close(x, y) for x, y in zip(coefs, c2)) and num_close(rhs, r2):
                    hit = j
                    break
            if hit is None:
                diffs.append(f"row only in implementation: {key} coefs={[str(c) for c in coefs]} rhs={rhs}")
            else:
                left.pop(hit)
        for c2, r2 in left:
            diffs.append(f"row only in model: {key} coefs={[str(c) for c in c2]} rhs={r2}")
    for k in sorted(set(oi) | set(om), key=repr):
        if not num_close(oi.get(k, Fraction(0)), om.get(k, Fraction(0))):
            diffs.append(f"objective coefficient of {k}: implementation {oi.get(k)} model {om.get(k)}")
    if not num_close(ki, km):
        diffs.append(f"objective constant: implementation {ki} model {km}")
    return diffs


# ------------------------------------------------------------------------------------------------
# assignments
# ------------------------------------------------------------------------------------------------
def raw_assignment(inst, values, rename):
    """solver values -> [(cid, idx, keep ids, add ids)] of the selected copies (before the read-out)"""
    byk = {rename[n]: x for n, x in values.items() if n in rename}
    out = []
    for (cid, idx) in py_insts(inst):
        if byk.get((1, cid, idx), 0) > 0.5:
            keep = [k[3] for k, x in byk.items() if k[0] == 2 and k[1:3] == (cid, idx) and x > 0.5]
            add = [k[3] for k, x in byk.items() if k[0] == 4 and k[1:3] == (cid, idx) and x > 0.5]
            out.append((cid, idx, sorted(keep), sorted(add)))
    return out


def reported_assignment(inst, sol, call):
    """MinorSolution -> [(cid, idx, keep ids, add ids)] + problems (anything that cannot be expressed)"""
    cand = {(c["major"], c["minor"]): c for c in inst["cands"]}
    mid = {(m["pos"], m["op"]): m["id"] for m in inst["muts"]}
    seen = collections.Counter()
    out, problems = [], []
    for sa in sol.solution:
        c = cand.get((sa.major, sa.minor))
        if c is None:
            problems.append(f"reported allele ({sa.major},{sa.minor}) is not a candidate minor allele")
            continue
        idx = seen[c["id"]]
        seen[c["id"]] += 1
        missing, added = [], []
        for m in sa.missing:
            if (m.pos, m.op) in mid:
                missing.append(mid[m.pos, m.op])
            else:
                problems.append(f"missing variant {m} is not a considered variant")
        for m in sa.added:
            if (m.pos, m.op) in mid:
                added.append(mid[m.pos, m.op])
            else:
                problems.append(f"added variant {m} is not a considered variant")
        if len(set(missing)) != len(missing) or len(set(added)) != len(added):
            problems.append("repeated variant in added/missing")
        for x in missing:
            if x not in c["def"]:
                problems.append(f"missing variant id {x} is not in the definition of {sa.minor}")
        out.append((c["id"], idx, sorted(set(c["def"]) - set(missing)), sorted(set(added))))
    return out, problems


def canon_asg(asg):
    """copies of one candidate are interchangeable"""
    return sorted((cid, tuple(k), tuple(n)) for cid, _, k, n in asg)


def py_clauses(inst, asg, problems):
    """the property's safety clauses on a reported assignment, from aldy's own facts; -> {clause: (bool, detail)}"""
    cands = {c["id"]: c for c in inst["cands"]}
    muts = {m["id"]: m for m in inst["muts"]}
    res = {}
    # one catalogued minor of the same major per called copy, nothing else
    want = collections.Counter({mj: n for mj, n in inst["majors"] if n})
    got = collections.Counter(cands[cid]["mj"] for cid, _, _, _ in asg)
    res["one-minor-per-copy"] = (want == got and not [p for p in problems if "not a candidate" in p],
                                 f"called {dict(want)} reported {dict(got)} {problems}")
    bad = [(cid, x) for cid, _, k, _ in asg for x in cands[cid]["core"] if x not in k]
    res["core-kept"] = (not bad, f"dropped core variants {bad}")
    bad = [(cid, x) for cid, _, _, n in asg for x in n if muts[x]["pos"] not in cands[cid]["covpos"]]
    res["add-needs-copies"] = (not bad and not [p for p in problems if "added variant" in p], f"added without copies {bad} {problems}")
    noreads = lambda m: m["pcn"] == 0 or m["cov"] == 0
    bad = [(cid, x) for cid, _, _, n in asg for x in n if noreads(muts[x])]
    res["add-needs-reads"] = (not bad, f"added without reads {bad}")
    bad = [(cid, x) for cid, _, k, n in asg for x in list(k) + list(n) if noreads(muts[x])]
    res["carried-has-reads"] = (not bad, f"carried without reads {bad}")
    bad = []
    for cid, idx, k, n in asg:
        per = collections.Counter(muts[x]["pos"] for x in list(k) + list(n))
        bad += [(cid, idx, p) for p, c in per.items() if c > 1]
    res["one-per-site"] = (not bad, f"two variants at one position {bad}")
    carried = collections.Counter(x for _, _, k, n in asg for x in list(k) + list(n))
    bad = [m["id"] for m in inst["muts"] if not noreads(m) and carried[m["id"]] < 1]
    res["supported-carried"] = (not bad, f"supported but not carried {bad}")
    return res


def py_n_candidates(inst):
    """number of assignments MinorSpec.candidates enumerates (same pruning), to keep Coq evaluation small"""
    muts = inst["muts"]
    per = {}
    for c in inst["cands"]:
        d = [m for m in muts if m["id"] in c["def"]]
        noreads = lambda m: m["pcn"] == 0 or m["cov"] == 0
        must = [m for m in d if m["func"]]
        if any(m["pos"] not in c["covpos"] or noreads(m) for m in must):
            per[c["id"]] = 0
            continue
        free = [m for m in d if not m["func"] and m["pos"] in c["covpos"] and not noreads(m)]
        addable = [m for m in muts if m["pos"] in c["covpos"] and m["id"] not in c["def"] and not noreads(m)]
        n = 0
        for r in range(len(free) + 1):
            for k in itertools.combinations(free, r):
                kp = collections.Counter(m["pos"] for m in must + list(k))
                if any(v > 1 for v in kp.values()):
                    continue
                # additions: at most one per position, none at a position that already carries a variant
                groups = collections.Counter(m["pos"] for m in addable if kp[m["pos"]] == 0)
                w = 1
                for v in groups.values():
                    w *= (1 + v)
                n += w
        per[c["id"]] = n
    total = 1
    for mj, cnt in inst["majors"]:
        cs = [c["id"] for c in inst["cands"] if c["mj"] == mj]
        s = 0
        for combo in itertools.combinations_with_replacement(cs, cnt):
            w = 1
            for cid in combo:
                w *= per[cid]
            s += w
        total *= s
    return total


# ------------------------------------------------------------------------------------------------
# generators
# ------------------------------------------------------------------------------------------------
TOY_MAJORS = [
    (["1", "1"], [("1", 2)]), (["1", "1"], [("1", 1), ("1C", 1)]), (["1", "1"], [("1", 1), ("3", 1)]),
    (["1", "1"], [("2", 1), ("3", 1)]), (["1", "6"], [("3", 1), ("6", 1)]), (["1", "1", "1"], [("1", 2), ("3", 1)]),
    (["1", "4", "4"], [("1", 1), ("4#1", 2)]), (["1", "4", "4"], [("1C", 1), ("4#1", 1), ("4#3", 1)]),
    (["1", "5"], [("1", 1), ("5", 1)]), (["1", "1"], [("3", 2)]), (["1", "6"], [("1", 1), ("6", 1)]),
    (["1", "1", "1"], [("1", 3)]), (["1", "1", "4"], [("1", 1), ("2", 1), ("4#3", 1)]), (["1", "5"], [("2", 1), ("5", 1)]),
    (["1", "1"], [("1C", 1), ("2", 1)]), (["1", "1"], [("1", 1), ("2", 1)]), (["1", "4"], [("3", 1), ("4#3", 1)]),
    (["1", "1", "1"], [("1", 1), ("1C", 1), ("3", 1)]), (["1"], [("1", 1)]), (["1"], [("3", 1)]),
]
# alternative major solutions over the same structure (pooled candidates / variants, minor.py:40-54)
TOY_ALT = {
    ("1", "1"): [[("1", 2)], [("1", 1), ("1C", 1)], [("1", 1), ("3", 1)], [("2", 1), ("3", 1)], [("3", 2)], [("1", 1), ("2", 1)]],
    ("1", "1", "1"): [[("1", 2), ("3", 1)], [("1", 3)], [("1", 1), ("1C", 1), ("3", 1)]],
}
NOVEL = [(100000133, "A>G"), (100000150, "C>G"), (100000114, "T>C"), (100000147, "A>C"), (100000110, "A>T"), (100000155, "insG"),
         (100000104, "T>G")]
# tri-allelic sites: a catalogued SNP of a called allele + another (novel) SNP at the same position + reference reads
TRI = {"3": (100000150, "C>T", "C>G"), "4#3": (100000150, "C>T", "C>G"), "1C": (100000104, "T>A", "T>G"), "1": (100000114, "T>A", "T>C")}


def toy_sites():
    g = gene("toy")
    return sorted((m[0], m[1]) for m in g.mutations)


def gen_toy(rng, k):
    g = gene("toy")
    sites = toy_sites()
    cn, majors = rng.choice(TOY_MAJORS)
    case = {"stream": "toy-noisy", "gene": "toy", "cn": cn, "majors": [{"alleles": majors, "added": [], "score": 0.0}]}
    r = rng.random()
    if r < 0.15 and tuple(cn) in TOY_ALT:
        alt = rng.choice([a for a in TOY_ALT[tuple(cn)] if a != majors] or [majors])
        if alt != majors:
            case["majors"].append({"alleles": alt, "added": [], "score": rng.choice([0.0, 0.5, 1.0])})
            case["stream"] = "toy-pooled"
    elif r < 0.35:
        case["majors"][0]["added"] = [list(x) for x in rng.sample(NOVEL, rng.choice([1, 1, 2]))]
        case["stream"] = "toy-novel"
    tri = None
    if rng.random() < 0.18:
        opts = [TRI[mj] for mj, _ in majors if mj in TRI]
        if opts:
            tri = rng.choice(opts)
            if [tri[0], tri[2]] not in case["majors"][0]["added"]:
                case["majors"][0]["added"].append([tri[0], tri[2]])
            case["stream"] = "toy-triallelic"
    d = rng.choice([10, 20])
    carried = set()
    for ms in case["majors"]:
        for mj, _ in ms["alleles"]:
            carried |= {(m.pos, m.op) for m in g.alleles[mj].func_muts}
        carried |= {tuple(x) for x in ms["added"]}
    table = {}
    ncopies = len(cn)
    allsites = sites + [tuple(x) for ms in case["majors"] for x in ms["added"]]
    for (pos, op) in allsites:
        p = 0.85 if (pos, op) in carried else 0.4
        if rng.random() < p:
            kk = rng.choice([1, 1, 2, 3])
            c = int(d * kk * rng.uniform(0.8, 1.2)) if rng.random() < 0.6 else d * kk
            if c > 0:
                table[(pos, op)] = c
    for pos in sorted({p for p, _ in allsites}):
        if rng.random() < 0.9:
            table[(pos, "_")] = int(d * rng.choice([0, 1, 2, 3]) * rng.uniform(0.8, 1.2)) if rng.random() < 0.7 else d * rng.choice([0, 1, 2])
        if rng.random() < 0.1:
            table[(pos, rng.choice(["A>N", "C>A", "delA"]))] = rng.choice([1, 2, 5])    # un-catalogued noise: only the totals move
    if rng.random() < 0.25:
        # a homozygous-looking variant: every read at the site supports it (the read-out's special case)
        cand = [(p, o) for (p, o) in allsites if (p, o) in table]
        if cand:
            p, o = rng.choice(cand)
            tot = d * ncopies
            if o.startswith("ins"):
                table[(p, "_")] = tot
                table[(p, o)] = tot
            else:
                table[(p, o)] = tot
                table[(p, "_")] = 0
                for (p2, o2) in list(table):
                    if p2 == p and o2 not in (o, "_") and not o2.startswith("ins"):
                        del table[(p2, o2)]
    if tri is not None:
        p, o1, o2 = tri
        table[(p, o1)] = d * rng.choice([1, 1, 2]) + rng.choice([0, 0, -2, 3])
        table[(p, o2)] = d * rng.choice([1, 1, 2]) + rng.choice([0, 0, -2, 3])
        table[(p, "_")] = rng.choice([0, d, d, 2 * d]) + rng.choice([0, 0, 1])
    case["table"] = sorted([p, o, c] for (p, o), c in table.items())
    if rng.random() < 0.2:
        ind = []
        for (p, o) in sites:
            if (o.startswith("ins") or o.startswith("del")) and rng.random() < 0.8:
                y = rng.choice([0, d, d, 2 * d, int(d * rng.uniform(0.5, 2.5))])
                n = rng.choice([0, d, 2 * d, int(d * rng.uniform(0, 2.5))])
                ind.append([p, o, n, y])
        if ind:
            case["indels"] = ind
            case["stream"] += "+indels"
    if rng.random() < 0.6:
        opsat = collections.defaultdict(list)
        for (p, o) in allsites:
            opsat[p].append(o)
        phases = []
        for fi in range(rng.randint(0, 25)):
            ps = rng.sample(sorted(opsat), min(len(opsat), rng.choice([1, 2, 2, 3])))
            phases.append([f"f{fi}", [[p, (rng.choice(opsat[p]) if rng.random() < 0.5 else "_")] for p in ps]])
        case["phases"] = phases
    else:
        case["phases"] = None
    params = {}
    if rng.random() < 0.2:
        params["minor_add"] = rng.choice([0.5, 2.0, 1.25])
    if rng.random() < 0.15:
        params["minor_miss"] = rng.choice([1.0, 0.5, 3.0])
    if rng.random() < 0.15:
        params["minor_phase"] = rng.choice([1.0, 0.1])
    if case["phases"] and rng.random() < 0.25:
        params["minor_phase_vars"] = rng.choice([5, 7, 10, 25])
    if case["phases"] and rng.random() < 0.1:
        params["phase"] = False
    case["params"] = params
    return case


def gen_toy_phased(rng, k):
    """two or three copies of ONE major allele, two variants at different sites that the copies can only take as additions (novel
    or silent variants of another sub-allele), each on exactly one copy's worth of reads, and read fragments that consistently put
    them in trans (or in cis): the optimum has to place DIFFERENT additions on identical copies (trans) or both on one (cis)"""
    g = gene("toy")
    cn, majors = rng.choice([(["1", "1"], [("1", 2)]), (["1", "1", "1"], [("1", 3)]), (["1", "1"], [("3", 2)])])
    mj = majors[0][0]
    have = {m.pos for m in g.alleles[mj].func_muts}
    pool = [v for v in NOVEL if v[0] not in have and not v[1].startswith("ins")]
    a, b = rng.sample(pool, 2)
    while a[0] == b[0]:
        a, b = rng.sample(pool, 2)
    d = rng.choice([10, 20])
    n = len(cn)
    table = {(a[0], a[1]): d, (a[0], "_"): d * (n - 1), (b[0], b[1]): d, (b[0], "_"): d * (n - 1)}
    for m in g.alleles[mj].func_muts:
        table[(m.pos, m.op)] = d * n
    mode = rng.choice(["trans", "trans", "cis"])
    k_fr = rng.choice([4, 8, 12])
    phases = []
    for i in range(k_fr):
        if mode == "trans":
            phases.append([f"t{i}a", [[a[0], a[1]], [b[0], "_"]]])
            phases.append([f"t{i}b", [[a[0], "_"], [b[0], b[1]]]])
        else:
            phases.append([f"c{i}a", [[a[0], a[1]], [b[0], b[1]]]])
            phases.append([f"c{i}b", [[a[0], "_"], [b[0], "_"]]])
    params = {}
    if rng.random() < 0.3:
        params["minor_phase"] = rng.choice([1.0, 2.0])
    return {"stream": "toy-phased-" + mode, "gene": "toy", "cn": cn,
            "majors": [{"alleles": majors, "added": [list(a), list(b)] if rng.random() < 0.5 else [], "score": 0.0}],
            "table": sorted([p, o, c] for (p, o), c in table.items()), "phases": phases, "params": params}


def planted_table(g, cn_list, alleles, d):
    """noise-free evidence of the given (major, minor) copies at depth d per copy"""
    from aldy.solutions import CNSolution
    cn = CNSolution(g, 0, cn_list)
    mult = collections.Counter()
    for mj, mi in alleles:
        for m in set(g.alleles[mj].func_muts) | set(g.alleles[mj].minors[mi].neutral_muts):
            if g.has_coverage(mj, m.pos):
                mult[m] += 1
    table = {}
    positions = {m.pos for mj in {a for a, _ in alleles} for mi in g.alleles[mj].minors.values()
                 for m in set(g.alleles[mj].func_muts) | set(mi.neutral_muts)}
    for p in positions:
        pcn = cn.position_cn(p)
        used = sum(c for m, c in mult.items() if m.pos == p and not m.op.startswith("ins"))
        if pcn - used > 0:
            table[(p, "_")] = d * (pcn - used)
    for m, c in mult.items():
        table[(m.pos, m.op)] = d * c
    return table, mult


def gen_planted(rng, gname, d=20):
    g = gene(gname)
    default = [a for a, al in g.alleles.items() if al.cn_config == "1"]
    pair = []
    for _ in range(2):
        mj = rng.choice(default)
        pair.append((mj, rng.choice(list(g.alleles[mj].minors))))
    table, mult = planted_table(g, ["1", "1"], pair, d)
    cnt = collections.Counter(mj for mj, _ in pair)
    return {"stream": "noise-free", "gene": gname, "cn": ["1", "1"],
            "majors": [{"alleles": sorted(cnt.items()), "added": [], "score": 0.0}],
            "table": sorted([p, o, c] for (p, o), c in table.items()), "phases": None, "params": {},
            "planted": [list(x) for x in pair]}


def gen_toy_two_structures(rng, k):
    """two candidates under DIFFERENT gene structures in one estimate_minor call, and sites whose read fraction passes the single-copy
    threshold 0.5 / (copies + 0.5) of one structure but not of the other (e.g. 7 of 40 reads: 0.175 is above 0.143 and below 0.2)"""
    g = gene("toy")
    sites = toy_sites()
    if rng.random() < 0.6:
        a2 = rng.choice(TOY_ALT[("1", "1")])
        a3 = rng.choice(TOY_ALT[("1", "1", "1")])
        majors = [{"alleles": a2, "added": [], "score": 0.0, "cn": ["1", "1"]}, {"alleles": a3, "added": [], "score": rng.choice([0.0, 0.5]), "cn": ["1", "1", "1"]}]
    else:
        # two structures with the SAME pattern of copy counts (one copy of *1 plus one fusion) but different copy numbers per region
        majors = [{"alleles": [(rng.choice(["1", "3"]), 1), ("4#" + rng.choice(["1", "3"]), 1)], "added": [], "score": 0.0, "cn": ["1", "4"]},
                  {"alleles": [(rng.choice(["1", "2"]), 1), ("5", 1)], "added": [], "score": rng.choice([0.0, 0.5]), "cn": ["1", "5"]}]
    if rng.random() < 0.5:
        majors.reverse()
    table = {}
    for pos in sorted({p for p, _ in sites}):
        table[(pos, "_")] = 40
    for (pos, op) in sites:
        r = rng.random()
        if r < 0.35:
            n = rng.choice([6, 7, 7, 7, 8, 11, 12])  # between the thresholds of two and of three copies (or of one and of two)
        elif r < 0.6:
            n = rng.choice([13, 20, 27])
        else:
            continue
        table[(pos, op)] = n
        if not op.startswith("ins"):
            table[(pos, "_")] = max(0, table[(pos, "_")] - n)
    return {"stream": "toy-two-structures", "gene": "toy", "cn": ["1", "1"], "majors": majors,
            "table": sorted([p, o, c] for (p, o), c in table.items() if c > 0), "phases": None, "params": {}}


def gen_planted_novel(rng, gname, d=20):
    """noise-free evidence of two catalogued default-structure copies ONE of which carries, in addition, a function-altering variant
    of the catalogue that neither allele defines - preferably outside the exons (the evidence filter of estimate_minor keeps a
    variant only if it is in the considered set or lies in an exon / UTR / upstream region: a major solution's novel addition has
    to be in the considered set).  The major solution names it as added; nothing may be lost."""
    from aldy.gene import Mutation
    g = gene(gname)
    default = [a for a, al in g.alleles.items() if al.cn_config == "1"]
    pair = []
    for _ in range(2):
        mj = rng.choice(default)
        pair.append((mj, rng.choice(list(g.alleles[mj].minors))))
    carried = {(m.pos, m.op) for mj, mi in pair for m in set(g.alleles[mj].func_muts) | set(g.alleles[mj].minors[mi].neutral_muts)}
    taken = {p for p, _ in carried}
    pool = [(p, o) for (p, o) in g.mutations if g.is_functional((p, o)) and p not in taken and g.region_at(p) and g.region_at(p)[0] == 0
            and not o.startswith("ins") and not o.startswith("del")]
    if not pool:
        return None
    outside = [w for w in pool if not (g.region_at(w[0])[1][0] == "e" or g.region_at(w[0])[1] in ("utr3", "utr5", "up"))]
    v = rng.choice(outside) if outside and rng.random() < 0.8 else rng.choice(pool)
    table, mult = planted_table(g, ["1", "1"], pair, d)
    if (v[0], "_") in table or any(p == v[0] for (p, o) in table):
        return None
    table[(v[0], v[1])] = d
    table[(v[0], "_")] = d
    cnt = collections.Counter(mj for mj, _ in pair)
    return {"stream": "noise-free-novel", "gene": gname, "cn": ["1", "1"],
            "majors": [{"alleles": sorted(cnt.items()), "added": [[v[0], v[1]]], "score": 0.0}],
            "table": sorted([p, o, c] for (p, o), c in table.items()), "phases": None, "params": {},
            "planted": [list(x) for x in pair], "planted_added": [[v[0], v[1]]],
            "novel_region": g.region_at(v[0])[1]}


def gen_planted_toy(rng):
    g = gene("toy")
    cn, majors = rng.choice([x for x in TOY_MAJORS])
    pair = []
    for mj, c in majors:
        for _ in range(c):
            pair.append((mj, rng.choice(list(g.alleles[mj].minors))))
    table, mult = planted_table(g, cn, pair, rng.choice([10, 20]))
    return {"stream": "noise-free", "gene": "toy", "cn": cn, "majors": [{"alleles": majors, "added": [], "score": 0.0}],
            "table": sorted([p, o, c] for (p, o), c in table.items()), "phases": None, "params": {},
            "planted": [list(x) for x in pair]}


# ------------------------------------------------------------------------------------------------
# evaluation
# ------------------------------------------------------------------------------------------------
def d_eval(v):
    if not v:
        return None
    return {"admissible": bool(v[0]), "score_tie": common.dopt(v[1], common.dq), "score": common.dopt(v[2], common.dq),
            "clauses": [bool(x) for x in v[3]], "readout": [(x[0], x[1], sorted(x[2]), sorted(x[3])) for x in v[4]]}


WITNESS_A = {"stream": "witness", "gene": "toy", "cn": ["1", "1"],
             "majors": [{"alleles": [["1", 1], ["3", 1]], "added": [[100000147, "A>C"]], "score": 0.0}],
             "table": [[100000114, "_", 40], [100000147, "A>C", 20], [100000147, "_", 20], [100000147, "insA", 40],
                       [100000150, "C>T", 20], [100000150, "_", 20]], "phases": None, "params": {}}
WITNESS_C = {"stream": "witness", "gene": "toy", "cn": ["1", "1"], "majors": [{"alleles": [["1", 1], ["2", 1]], "added": [], "score": 0.0}],
             "table": [[100000110, "delAC", 20], [100000110, "_", 20], [100000114, "_", 40], [100000118, "insTT", 40],
                       [100000118, "_", 40]], "phases": None, "params": {}}
WITNESS_P = {"stream": "witness", "gene": "toy", "cn": ["1", "1"], "majors": [{"alleles": [["1", 1], ["3", 1]], "added": [], "score": 0.0}],
             "table": [[100000114, "T>A", 20], [100000114, "_", 20], [100000147, "insA", 20], [100000147, "_", 40],
                       [100000150, "C>T", 20], [100000150, "_", 20]],
             "phases": [["f0", [[100000114, "T>A"], [100000150, "_"]]], ["f1", [[100000114, "_"], [100000150, "C>T"]]],
                        ["f2", [[100000147, "insA"], [100000150, "C>T"]]], ["f3", [[100000114, "T>A"], [100000150, "_"]]]], "params": {}}
WITNESSES = {"witness_a": WITNESS_A, "witness_c": WITNESS_C, "witness_p": WITNESS_P}
_VARIANT = {}


def canon_inst(inst):
    """instance with variants renumbered in (position, operation) order and every list sorted: independent of set order"""
    order = sorted(inst["muts"], key=lambda m: (m["pos"], m["op"]))
    ren = {m["id"]: k for k, m in enumerate(order)}
    out = dict(inst)
    out["muts"] = [dict(m, id=ren[m["id"]]) for m in order]
    out["sites"] = sorted(inst["sites"], key=lambda s: s["pos"])
    out["cands"] = [dict(c, **{"def": sorted(ren[x] for x in c["def"]), "core": sorted(ren[x] for x in c["core"]),
                               "covpos": sorted(c["covpos"])}) for c in inst["cands"]]
    return out, ren


def witness_terms():
    """Coq text of the witness instances and of the solver's assignment on them, from the implementation's own objects"""
    out = {}
    for name, w in WITNESSES.items():
        calls, res, err = run_impl(w)
        inst = extract(calls[0])
        ci, ren = canon_inst(inst)
        rename, _ = role_map(inst, calls[0].lp._c04_names)
        raw = raw_assignment(inst, calls[0].values, rename)
        raw = [(cid, idx, sorted(ren[x] for x in k), sorted(ren[x] for x in n)) for cid, idx, k, n in raw]
        out[name] = (coq_inst(ci), coq_asg(raw))
    return out


def witness_sync(chk):
    """the witness instances the theorems of props/C04.v speak about are the ones the implementation produces"""
    import re
    src = open(os.path.join(common.COQ, "theories", "MinorSpec.v")).read()
    norm = lambda t: re.sub(r"\s+", " ", t).strip()
    for name, (it, at) in witness_terms().items():
        m = re.search(r"\(\* BEGIN %s \*\)(.*?)\(\* END %s \*\)" % (name, name), src, re.S)
        want = norm(f"Definition {name} : inst := {it}. Definition {name}_solver : list (Z * Z * list Z * list Z) := {at}.")
        if not m or norm(m.group(1)) != want:
            chk.mismatch("witness-sync", name, norm(m.group(1)) if m else None, want)


def detect_variant():
    """which read-out does the tree implement? replay the two refutation witnesses of props/C04.v on the implementation"""
    if "v" not in _VARIANT:
        hits = 0
        for w in (WITNESS_A, WITNESS_C):
            calls, res, err = run_impl(w)
            if err is None and calls and calls[0].result and calls[0].values is not None:
                inst = extract(calls[0])
                rename, _ = role_map(inst, calls[0].lp._c04_names)
                raw = raw_assignment(inst, calls[0].values, rename)
                rep, _ = reported_assignment(inst, calls[0].result[0], calls[0])
                hits += canon_asg(raw) != canon_asg(rep)
        _VARIANT["v"] = "AsShipped" if hits else "Fixed"
    return _VARIANT["v"]


def evaluate(chk, cases):
    t0 = time.time()
    variant = detect_variant()
    work = []     # (case, call, inst, rename, problems, raw, reported list)
    for case in cases:
        calls, res, err = run_impl(case)
        if err is not None:
            chk.mismatch("implementation-exception", case, None, err)
            continue
        for ci, c in enumerate(calls):
            inst = extract(c)
            names = c.lp._c04_names if c.lp is not None else []
            rename, problems = role_map(inst, names)
            # iteration order cross-check: E_ variables are created in the order of `for m in mutations`
            e_order = [rename[sn] for raw, sn in names if raw.startswith("E_") and not raw.endswith("_REF")]
            if [k for k in e_order if k[0] == 6] != [(6, m["id"]) for m in inst["muts"]]:
                problems.append("creation order of the error variables differs from the iteration order of the pooled variant set")
            if inst["cands"] and any(c2["def_outside"] for c2 in inst["cands"]):
                problems.append("a definition variant is outside the pooled variant set")
            raw = raw_assignment(inst, c.values, rename) if c.values is not None else None
            rep = []
            for s, sc in zip(c.result, c.scores_at_return):
                a, pr = reported_assignment(inst, s, c)
                rep.append((a, pr, sc))
            work.append((case, ci, c, inst, rename, problems, raw, rep))
    t1 = time.time()
    terms = []
    for case, ci, c, inst, rename, problems, raw, rep in work:
        n = py_n_candidates(inst)
        do_enum = n <= ENUM_LIMIT
        inst["_n"] = n
        inst["_enum"] = do_enum
        parts = ["o_bool (inst_wf i && Qleb 0 (i_phase i))", "o_lp (gen here i)",
                 "o_optimum here i" if do_enum else "OL [OZ (-1)]",
                 f"o_eval {variant} here i {coq_asg(raw)}" if raw is not None else "OL []",
                 f"o_point here i {coq_asg(raw)}" if raw is not None else "OL []",
                 "OL [" + "; ".join(f"o_eval {variant} here i {coq_asg(a)}" for a, _, _ in rep) + "]"]
        # premise of C04_minor_noise_free (decidable, MinorNoiseFreeProofs.noise_free_b): the planted assignment is admissible and
        # scores 0 under the model's own objective - evaluated on the first minor call of every noise-free case
        pl = planted_tuples(case, inst) if ("planted" in case and ci == 0 and not case.get("planted_added")) else None
        parts.append(f"o_bool (noise_free_b here i {coq_asg(pl)})" if pl is not None else "OL []")
        terms.append(f"(let i := {coq_inst(inst)} in OL [{'; '.join(parts)}])")
    vals = common.coq_eval(IMPORTS, terms, shard=max(1, min(12, (len(terms) + 11) // 12)), jobs=12, timeout=900) if terms else []
    t2 = time.time()
    chk.count("timing", "impl_s", round(t1 - t0, 1))
    chk.count("timing", "coq_s", round(t2 - t1, 1))
    for (case, ci, c, inst, rename, problems, raw, rep), v in zip(work, vals):
        judge(chk, case, ci, c, inst, rename, problems, raw, rep, v)


def short_inst(inst):
    return {"majors": [(inst["major_names"][mj], n) for mj, n in inst["majors"]],
            "cands": [(c["id"], c["minor"]) for c in inst["cands"]],
            "muts": [(m["id"], m["pos"], m["op"], str(m["cov"]), str(m["total"]), str(m["pcn"]), m["func"]) for m in inst["muts"]],
            "sites": [(s["pos"], str(s["cov"]), str(s["total"]), str(s["pcn"])) for s in inst["sites"]]}


def describe_asg(inst, asg):
    cands = {c["id"]: c for c in inst["cands"]}
    muts = {m["id"]: m for m in inst["muts"]}
    out = []
    for cid, idx, k, n in asg:
        c = cands[cid]
        out.append({"minor": c["minor"], "missing": [f"{muts[x]['pos']}.{muts[x]['op']}" for x in c["def"] if x not in k],
                    "added": [f"{muts[x]['pos']}.{muts[x]['op']}" for x in n]})
    return out


def judge(chk, case, ci, c, inst, rename, problems, raw, rep, v):
    stream = case["stream"]
    wf, lpv, optv, rawv, rawpt, repv, nfb = v
    # ---- the evidence of THIS candidate: filtered with the copy numbers of its own gene structure
    if getattr(c, "raw_cov", None) is not None:
        try:
            want_ev, got_ev = own_structure_evidence(c, c.raw_cov)
        except Exception:
            want_ev = got_ev = None
        if want_ev is not None:
            chk.count(stream, "own-structure-evidence-compared")
            if want_ev != got_ev:
                dif = sorted(set(want_ev.items()) ^ set(got_ev.items()))[:8]
                chk.fail("carried-reads", {"stream": stream, "gene": case["gene"], "what": "evidence filtered for another structure"}, case,
                         {"evidence (filtered with the candidate's own structure)": [list(map(str, x)) for x in dif if x in set(want_ev.items())]},
                         {"evidence handed to the model": [list(map(str, x)) for x in dif if x in set(got_ev.items())],
                          "structure": sorted(c.major_sol.cn_solution.solution.items()), "call": ci})
    if nfb in (0, 1):
        chk.count(stream, "noise_free_b-" + ("holds" if nfb == 1 else "does-not-hold"))
    desc_base = {"stream": stream, "gene": case["gene"]}
    # ---- side conditions of the instance
    if not wf:
        chk.mismatch("instance-side-conditions", case, "inst_wf = false or minor_phase < 0 (hypotheses of C04_minor_optimal)", short_inst(inst))
    if not inst["plain_keys"]:
        problems.append("major solution keys carry minor/added/missing")
    # ---- (a) structural tie
    snap = c.lp._snap if c.lp is not None else None
    if snap is None or not snap.vars and not snap.rows:
        chk.mismatch("minor-lp-structure", case, "model built", "no LP recorded")
    else:
        diffs = problems + compare_lp(canon_impl(snap, rename), canon_model(lpv))
        chk.count(stream, "lp_compared")
        chk.count(stream, "lp_rows", len(snap.rows))
        if diffs:
            chk.mismatch("minor-lp-structure", case, diffs[:12], f"{len(diffs)} difference(s); solve_minor_model call {ci}")
    # ---- (b) behavioural tie
    opt = None
    if inst["_enum"]:
        opt = None if not optv else (common.dq(optv[0]), optv[1], [(x[0], x[1], sorted(x[2]), sorted(x[3])) for x in optv[2]],
                                     common.dq(optv[5]))
        chk.count(stream, "enumerated")
        chk.count(stream, "assignments_enumerated", inst["_n"])
        if opt is not None:
            # the optimal assignment extends to a feasible point of MinorModel.gen whose objective is its score
            # (kernel computation per instance; the general direction "admissible => feasible" is not a theorem yet)
            if not optv[3] or common.dq(optv[4]) != opt[0]:
                chk.mismatch("minor-point-of-assignment", case, {"feasible": True, "objective": str(opt[0])},
                             {"feasible": bool(optv[3]), "objective": str(common.dq(optv[4])), "assignment": describe_asg(inst, opt[2])})
        if opt is None and rep:
            chk.mismatch("minor-optimum", case, "no admissible assignment", [describe_asg(inst, a) for a, _, _ in rep])
        if opt is not None and not rep:
            chk.mismatch("minor-optimum", case, {"score": float(opt[0]), "assignment": describe_asg(inst, opt[2])}, "no solution reported")
    else:
        chk.count(stream, "too_large_for_enumeration")
    rawe = d_eval(rawv)
    if rep:
        a0, pr0, sc0 = rep[0]
        own = sc0 - 0.0           # score as returned by solve_minor_model (before the carry-over of estimate_minor)
        if rawe is None or not rawe["admissible"] or rawe["score_tie"] is None:
            chk.mismatch("minor-solver-assignment", case, "admissible", {"raw": describe_asg(inst, raw or []), "eval": str(rawe)})
        else:
            if not close(float(rawe["score_tie"]), own):
                chk.mismatch("minor-score", case, float(rawe["score_tie"]), own)
            if not rawpt or not rawpt[0] or common.dq(rawpt[1]) != rawe["score_tie"]:
                chk.mismatch("minor-point-of-assignment", case, {"feasible": True, "objective": str(rawe["score_tie"])},
                             {"point": str(rawpt), "assignment": describe_asg(inst, raw)})
            # The solver's point must be optimal for the objective the property speaks about (tie-breaker excluded) to 1e-6.
            # The cnt/tie_den tie-breaker itself lies below CBC's stopping tolerance (OR-Tools' default relative MIP gap
            # 1e-4): a point that is optimal up to tie-breaker terms only is counted, not reported as a mismatch.
            if opt is not None and rawe["score"] is not None and float(rawe["score"]) > float(opt[3]) + TOL_ABS + TOL_REL * abs(own):
                chk.mismatch("minor-optimum", case, {"score": float(opt[3]), "assignment": describe_asg(inst, opt[2])},
                             {"score without tie-breaker": float(rawe["score"]), "score": own, "assignment": describe_asg(inst, raw)})
            elif opt is not None and not close(float(opt[0]), own):
                if own < float(opt[0]) - TOL_ABS:
                    chk.mismatch("minor-optimum", case, {"score": float(opt[0])}, {"score": own, "note": "below the exhaustive optimum"})
                chk.count(stream, "solver_point_not_tie_breaker_optimal")
            if canon_asg(rawe["readout"]) != canon_asg(a0):
                chk.mismatch("minor-readout", case, describe_asg(inst, rawe["readout"]), describe_asg(inst, a0))
            if canon_asg(rawe["readout"]) != canon_asg(raw):
                chk.count(stream, "homozygous_additions")
    # ---- (c) the property on what is reported
    nontrivial = bool(rep) and (rep[0][2] > 1e-9 or any(n or len(k) != len(next(cc for cc in inst["cands"] if cc["id"] == cid)["def"])
                                                        for cid, _, k, n in rep[0][0]))
    chk.case(stream, {"case": case, "call": ci}, nontrivial=nontrivial,
             sample={"case": case, "reported": [{"score": sc, "alleles": describe_asg(inst, a)} for a, _, sc in rep]})
    if not rep:
        chk.count(stream, "infeasible")
    final_scores = [s.score for s in c.result]
    for k, ((a, pr, sc), ev_raw, fs) in enumerate(zip(rep, repv, final_scores)):
        ev = d_eval(ev_raw)
        cl = py_clauses(inst, a, pr)
        # what the post-solve read-out changed (implementation data only: solver values vs reported alleles)
        ro_added = set()
        if k == 0 and raw is not None and [x[0] for x in raw] == [x[0] for x in a]:
            # both lists follow the order of the allele-copy variables, so they correspond position by position
            for (cid, _, _, n0), (_, idx, _, n) in zip(raw, a):
                ro_added |= {(cid, idx, x) for x in set(n) - set(n0)}
        d = dict(desc_base, readout_added=bool(ro_added))
        if ev is not None:
            for name, b in zip(CLAUSES, ev["clauses"]):
                if cl[name][0] != b:
                    chk.mismatch("predicate-python-vs-gallina", case, {name: b}, {name: cl[name]})
        for name in CLAUSES:
            ok, detail = cl[name]
            if not ok:
                dd = dict(d)
                if name == "one-per-site":
                    mpos = {m["id"]: m["pos"] for m in inst["muts"]}
                    offending = [(cid, idx, p) for cid, idx, kk, n in a
                                 for p, cnt in collections.Counter(mpos[x] for x in list(kk) + list(n)).items() if cnt > 1]
                    dd["readout_added_involved"] = bool(offending) and all(
                        any((cid, idx, x) in ro_added and mpos[x] == p for x in mpos) for cid, idx, p in offending)
                chk.fail(name, dd, case, "clause holds", {"detail": detail, "reported": describe_asg(inst, a), "score": sc,
                                                         "instance": short_inst(inst)})
        if abs((fs - sc) - c.carry) > 1e-9:
            chk.fail("score", dict(d, what="carry-over"), case, sc + c.carry, fs)
        if ev is not None and k == 0:
            # score of the REPORTED assignment (tie-breaker excluded; it is below aldy's resolution and bounded here)
            n_added = sum(len(n) for _, _, _, n in a)
            n_sel = sum(1 for _ in rename.values() if _[0] == 4)
            bound = float(inst["add"]) * n_added * max(0, n_sel - 1) / 1e6
            if ev["score"] is None or not (float(ev["score"]) - TOL_ABS <= sc <= float(ev["score"]) + bound + TOL_ABS + TOL_REL * abs(sc)):
                chk.fail("score", dict(d, what="reported-assignment"), case,
                         {"objective of the reported assignment": None if ev["score"] is None else float(ev["score"])},
                         {"reported score": sc, "reported": describe_asg(inst, a), "solver assignment": describe_asg(inst, raw or []),
                          "instance": short_inst(inst)})
            # "no admissible assignment scores lower": at the objective of the property (no tie-breaker); the reported score
            # carries at most `bound0` of tie-breaker terms (additions of the solver's assignment)
            n_added0 = sum(len(n) for _, _, _, n in (raw or []))
            bound0 = float(inst["add"]) * n_added0 * max(0, n_sel - 1) / 1e6
            if opt is not None and sc - bound0 > float(opt[3]) + TOL_ABS + TOL_REL * abs(sc):
                chk.fail("optimal", d, case, {"optimum": float(opt[3]), "assignment": describe_asg(inst, opt[2])},
                         {"reported score": sc, "reported": describe_asg(inst, a)})
        if "planted" in case and k == 0:
            judge_planted(chk, case, inst, a, sc, d)


def planted_tuples(case, inst):
    """the planted (major, minor) copies as an assignment of the instance: every covered definition variant kept, nothing added"""
    by = {(c["major"], c["minor"]): c for c in inst["cands"]}
    seen, out = collections.Counter(), []
    for mj, mi in case["planted"]:
        c = by.get((mj, mi))
        if c is None:
            return None
        out.append((c["id"], seen[c["id"]], [x for x in c["def"] if {m["id"]: m for m in inst["muts"]}[x]["pos"] in c["covpos"]], []))
        seen[c["id"]] += 1
    return out


def judge_planted(chk, case, inst, a, sc, d):
    g = gene(case["gene"])
    want = collections.Counter()
    for mj, mi in case["planted"]:
        for m in set(g.alleles[mj].func_muts) | set(g.alleles[mj].minors[mi].neutral_muts):
            if g.has_coverage(mj, m.pos):
                want[(m.pos, m.op)] += 1
    allowed = collections.Counter((p, o) for p, o in case.get("planted_added", []))
    for w, c in allowed.items():
        want[w] += c
    muts = {m["id"]: m for m in inst["muts"]}
    cands = {c["id"]: c for c in inst["cands"]}
    got = collections.Counter()
    extra = []
    for cid, idx, k, n in a:
        for x in list(k) + list(n):
            got[(muts[x]["pos"], muts[x]["op"])] += 1
        missing = [x for x in cands[cid]["def"] if x not in k and muts[x]["pos"] in cands[cid]["covpos"]]
        unplanned = [x for x in n if (muts[x]["pos"], muts[x]["op"]) not in allowed]
        if unplanned or missing:
            extra.append((cands[cid]["minor"], [muts[x]["op"] for x in unplanned], [muts[x]["op"] for x in missing]))
    if +want != +got or extra or (sc > 1e-6 and not allowed):      # a planted novel addition costs its penalty: the score is then not 0
        chk.fail("noise-free", d, case, {"planted": dict((f"{p}.{o}", c) for (p, o), c in want.items()), "score": 0},
                 {"carried": dict((f"{p}.{o}", c) for (p, o), c in got.items()), "additions/losses": extra, "score": sc})


# ------------------------------------------------------------------------------------------------
def load_corpus():
    p = os.path.join(common.VERIF, "corpus", "C04.json")
    return json.load(open(p)) if os.path.exists(p) else []


def run(chk):
    chk.rule = ("cases = (major solution(s) of 1-3 copies over TOY incl. fused alleles, deletion, novel variants from the major "
                "stage, pooled alternative solutions; noisy integer read-count table incl. un-catalogued noise, homozygous "
                "sites and separate indel tables; optional phase records and parameter changes); every solve_minor_model "
                "call is one evaluation; non-trivial = a solution is reported and it has non-zero score or a dropped/added "
                "variant; distinct = distinct (case, call)")
    chk.assumptions = ["solver contract (CBC returns an optimal feasible point) is validated, not proved: the exhaustive optimum of "
                       "MinorSpec is compared with the solver's objective on every instance small enough to enumerate"]
    chk.extra_trusted = ["instance serialiser harness/c04.py:extract (reads aldy's Gene/Coverage/CNSolution objects)"]
    chk.build()
    if not chk.model_available():
        chk.notes.append("[C04] model did not build; no evaluation possible")
        return
    quick = chk.tier == "quick"
    rng = chk.rng
    chk.notes.append(f"[C04] read-out implemented by the tree: {detect_variant()}")
    witness_sync(chk)
    cases = load_corpus() + [dict(w, stream="witness") for w in WITNESSES.values()]
    cases += [gen_toy(rng, k) for k in range(200 if quick else 2500)]
    cases += [gen_toy_phased(rng, k) for k in range(12 if quick else 150)]
    cases += [gen_toy_two_structures(rng, k) for k in range(12 if quick else 150)]
    cases += [gen_planted_toy(rng) for _ in range(30 if quick else 300)]
    for gname, n in ([("toy", 10), ("cyp2c19", 6)] if quick else [("toy", 80), ("cyp2c19", 40), ("cyp2c9", 30), ("cyp3a5", 20), ("tpmt", 20), ("cyp2d6", 10)]):
        cases += [c for c in (gen_planted_novel(rng, gname) for _ in range(n)) if c is not None]
    if not quick:
        for gname, n in [("cyp2c19", 30), ("cyp2c9", 30), ("nudt15", 30), ("tpmt", 30), ("cyp3a5", 30), ("slco1b1", 25), ("cyp2d6", 12)]:
            cases += [gen_planted(rng, gname) for _ in range(n)]
    B = 400
    for k in range(0, len(cases), B):
        evaluate(chk, cases[k:k + B])
    n_tie = sum(v.get("solver_point_not_tie_breaker_optimal", 0) for v in chk.streams.values())
    n_hom = sum(v.get("homozygous_additions", 0) for v in chk.streams.values())
    n_enum = sum(v.get("enumerated", 0) for v in chk.streams.values())
    chk.notes.append(f"[C04] {n_enum} instances enumerated exhaustively; read-out changed the solver's assignment in {n_hom} call(s); "
                     f"CBC's point was optimal only up to the cnt/tie_den tie-breaker in {n_tie} call(s)")


def replay(chk, path):
    r = json.load(open(path))
    chk.build()
    evaluate(chk, [r["case"]])
    clause = r.get("clause")
    bad = [f for f in chk.failures if clause is None or f["clause"] == clause]
    for f in bad:
        print("still failing:", f["clause"], json.dumps(f["observed"], default=str)[:600])
    for k, n, dd in chk.broken:
        print("BROKEN", k, n, json.dumps(dd, default=str)[:600])
    print("REPLAY", "FAILS" if bad else "passes")
    return 1 if bad else 0
