"""C18 — model parameters take the values the user gave, through every route.

Correspondence: Profile(...) / Profile.load / get_sam_profile_data / __main__ parameter split  vs  coq/theories/Params.v
Predicate     : implementation result == the value the spelling DENOTES (Params.denotes = the Fixed reading), per case."""
import io, json, os, random, re, sys, tempfile, contextlib
from fractions import Fraction
import common
from common import cz, cq, cstr, clist, cpair, cbool

IMPORTS = ["Base", "Consts", "Params", "Consts_here"]
SPECIAL = {"name", "cn_region", "data", "cn_solution"}


def documented():
    """(name, type) of the documented parameters = attributes of a fresh Profile with literal defaults"""
    from aldy.profile import Profile
    p = Profile("x")
    out = []
    for n, v in p.__dict__.items():
        if n in SPECIAL:
            continue
        t = {bool: "bool", int: "int", float: "float", str: "str"}.get(type(v))
        if t:
            out.append((n, t))
    return out


# ------------------------------------------------------------------ value generation
def rcase(rng, w):
    return "".join(ch.upper() if rng.random() < 0.5 else ch.lower() for ch in w)


def pad(rng, t):
    return rng.choice(["", "", "", " ", "  "]) + t + rng.choice(["", "", "", " "])


def gen_value(rng, ty, malformed=False, strings_only=False):
    """returns (python value, kind label)"""
    if malformed:
        if ty == "bool":
            v = rng.choice(["abc", "yes", "no", "2", "", "tru", "falsee", "10", "t", "-1", "on"])
            return (v, "bool:malformed-str") if (strings_only or rng.random() < 0.8) else (rng.choice([2, -1, 7]), "bool:malformed-int")
        if ty == "int":
            return rng.choice(["abc", "1.5", "", "1e3", "--1", "1 2", "+", "0x10", "1,0", "12a"]), "int:malformed-str"
        if ty == "float":
            return rng.choice(["abc", "", "1.2.3", "e5", ".", "1e", "1e+", "--2", "1 2", "0,5", "1.5x"]), "float:malformed-str"
        return None, None
    if ty == "bool":
        k = rng.choice(["word", "word", "digit", "native", "int"]) if not strings_only else rng.choice(["word", "digit"])
        b = rng.random() < 0.5
        if k == "word":
            return pad(rng, rcase(rng, "true" if b else "false")), "bool:word"
        if k == "digit":
            return pad(rng, "1" if b else "0"), "bool:digit-str"
        if k == "native":
            return b, "bool:native"
        return (1 if b else 0), "bool:int01"
    if ty == "int":
        z = rng.choice([0, 1, 2, 3, 5, 10, 20, 40, 1000, 3000, rng.randint(0, 10 ** 6), -rng.randint(1, 50)])
        k = rng.choice(["str", "str", "native", "float", "bool"]) if not strings_only else "str"
        if k == "str":
            sg = "+" if (z >= 0 and rng.random() < 0.2) else ""
            lead = "0" * rng.choice([0, 0, 0, 2]) if z >= 0 else ""
            t = (sg + lead + str(z)) if z >= 0 else ("-" + str(-z))
            return pad(rng, t), "int:str"
        if k == "native":
            return z, "int:native"
        if k == "float":
            return float(z), "int:float-native"
        return rng.random() < 0.5, "int:bool-native"
    if ty == "float":
        k = rng.choice(["dec", "dec", "exp", "intstr", "native", "nativeint"]) if not strings_only else rng.choice(["dec", "exp", "intstr"])
        sign = "-" if rng.random() < 0.15 else ("+" if rng.random() < 0.1 else "")
        if k == "dec":
            ip = str(rng.randint(0, 300)) if rng.random() < 0.85 else ""
            fp = "".join(rng.choice("0123456789") for _ in range(rng.randint(0 if ip else 1, 4)))
            t = sign + ip + ("." + fp if (fp or rng.random() < 0.3) else "")
            if t in ("", "+", "-"):
                t = sign + "0.5"
            return pad(rng, t), "float:decimal"
        if k == "exp":
            t = sign + str(rng.randint(0, 99)) + rng.choice(["", ".5", ".25", ".125"]) + rng.choice("eE") + rng.choice(["", "+", "-"]) + str(rng.randint(0, 6))
            return pad(rng, t), "float:exponent"
        if k == "intstr":
            return pad(rng, sign + str(rng.randint(0, 500))), "float:int-str"
        if k == "native":
            return float(Fraction(rng.randint(-2000, 40000), rng.choice([1, 2, 4, 8, 10, 100, 1000]))), "float:native"
        return rng.randint(-3, 50), "float:int-native"
    # str
    if strings_only or rng.random() < 0.8:
        return rng.choice(["map-hifi", "map-ont", "sr", "", "x=y", "a-b_c", "Probe 1"]), "str:str"
    return rng.randint(0, 99), "str:int-native"


def civ(v):
    """Python value -> Params.ival"""
    if v is None:
        return "INone"
    if isinstance(v, bool):
        return f"(IBool {cbool(v)})"
    if isinstance(v, int):
        return f"(IInt {cz(v)})"
    if isinstance(v, float):
        return f"(IFloat {cq(Fraction(repr(v)))})"
    return f"(IStr {cstr(v)})"


def ckw(kw):
    return clist(kw, lambda kv: cpair(cstr(kv[0]), civ(kv[1])))


# ------------------------------------------------------------------ decoding model output
def d_pval(v):
    tag = v[0]
    if tag == 0:
        return bool(v[1])
    if tag == 1:
        return int(v[1])
    if tag == 2:
        return float(common.dq(v[1]))
    if tag == 3:
        return common.dstr(v[1])
    return None


def d_upd(v, doc):
    """-> ('ok', {name: value}) | ('err', name) | ('unsupported',)"""
    if v[0] == 0:
        d = {common.dstr(k): d_pval(pv) for k, pv in v[1][0]}
        return ("ok", {n: d[n] for n, _ in doc})
    if v[0] == 1:
        return ("err", common.dstr(v[1]))
    return ("unsupported",)


def d_opts(v):
    if v[0] == 0:
        return ("ok", {common.dstr(k): d_pval(pv) for k, pv in v[1]})
    if v[0] == 1:
        return ("err", common.dstr(v[1]))
    return ("unsupported",)


def canon_val(x):
    return [type(x).__name__, x]


def canon(res):
    if res[0] == "ok":
        return ["ok", {k: canon_val(v) for k, v in sorted(res[1].items())}]
    return list(res)


# ------------------------------------------------------------------ implementation adapters
def impl_dict(p, doc):
    return {n: p.__dict__[n] for n, _ in doc}


def parse_err(e):
    m = re.match(r"Invalid parameter ([^:]*)(: .*)?$", str(e), re.S)
    return ("err", m.group(1) if m else "?" + str(e))


def impl_api(kw, doc):
    from aldy.profile import Profile
    from aldy.common import AldyException
    try:
        p = Profile("user", **dict(kw))
    except AldyException as e:
        return parse_err(e)
    return ("ok", impl_dict(p, doc))


def impl_cli_split(args, sub, flags=None):
    """run the real command-line front end with the back end stubbed out; returns the parameters it hands over.
    flags: sizes of the groups the k=v arguments are spread over, one --param flag per group (None = one flag)"""
    argv, i = [], 0
    for n in (flags or [len(args)]):
        argv += ["--param"] + args[i:i + n]
        i += n
    assert i == len(args)
    import aldy.__main__ as M
    from aldy.profile import Profile
    from aldy.common import AldyException
    captured = {}

    def fake_genotype(**kw):
        captured.update(kw)
        captured["__called__"] = True
        return {}

    def fake_profile(*a, **kw):
        captured.update(kw.get("params", {}))
        captured["__called__"] = True
        raise AldyException("stub")

    class _NoHandler:
        def __init__(self, *a, **k):
            pass

        def push_application(self):
            pass

    old_g, old_p, old_h = M.genotype, Profile.get_sam_profile_data, M.logbook.more.ColorizedStderrHandler
    M.genotype = fake_genotype
    Profile.get_sam_profile_data = staticmethod(fake_profile)
    M.logbook.more.ColorizedStderrHandler = _NoHandler
    import logbook
    th = logbook.TestHandler(bubble=False)
    th.push_application()
    called = []
    try:
        with contextlib.redirect_stderr(io.StringIO()), contextlib.redirect_stdout(io.StringIO()):
            try:
                if sub == "genotype":
                    M._genotype("toy", None, M._get_args(["genotype", "-p", "illumina", "-g", "toy", "nofile.bam"] + argv)[1])
                else:
                    # the profile branch (its own copy of the k=v split) lives inside main()
                    M.main(["profile", "nofile.bam"] + argv)
            except AldyException as e:
                return parse_err(e)
            except SystemExit:
                pass
    finally:
        th.pop_application()
        M.genotype, Profile.get_sam_profile_data, M.logbook.more.ColorizedStderrHandler = old_g, old_p, old_h
    if not captured.get("__called__"):
        for r in th.records:
            m = re.search(r"Invalid parameter ([^'\"\n:]*)", str(r.message))
            if m:
                return ("err", m.group(1))
        return ("err", "?no back-end call and no error message")
    captured.pop("__called__")
    known = {"gene_db", "sam_path", "profile_name", "output_file", "cn_region", "cn_solution", "report", "is_simple", "debug",
             "solver", "reference", "multiple_warn_level", "genome"}
    return ("params", {k: v for k, v in captured.items() if k not in known})


def impl_cli(args, doc, sub, flags=None):
    r = impl_cli_split(args, sub, flags)
    if r[0] != "params":
        return r
    return impl_api(list(r[1].items()), doc)


_TOY = {}


def toy():
    if not _TOY:
        from aldy.gene import Gene
        from aldy.common import script_path
        _TOY["gene"] = Gene(script_path("aldy.tests.resources/toy.yml"))
    return _TOY["gene"]


def base_profile_yaml(options):
    g = toy()
    prof = {"neutral": {"value": 1000, g.genome: ["1", 1000, 2000]}, g.name: {}}
    for gi, gr in enumerate(g.regions):
        for r in gr:
            prof[g.name].setdefault(r, []).append(10)
    if options is not None:
        prof["options"] = options
    return prof


_SHARED = {}


@contextlib.contextmanager
def profile_dir():
    """ONE directory for the whole run: every case rewrites the same profile files (p.yml, w.yml) with new contents, as a user who
    edits a profile and runs again does; a load must give what the file says now, whatever was loaded from that path before"""
    if "d" not in _SHARED:
        import atexit
        import shutil
        _SHARED["d"] = tempfile.mkdtemp(prefix="c18_")
        atexit.register(shutil.rmtree, _SHARED["d"], ignore_errors=True)
    yield _SHARED["d"]


def impl_profile(options, kw, doc):
    import yaml
    from aldy.profile import Profile
    from aldy.common import AldyException
    with profile_dir() as d:
        path = os.path.join(d, "p.yml")
        with open(path, "w") as f:
            f.write(yaml.dump(base_profile_yaml(dict(options)), default_flow_style=None))
        try:
            p = Profile.load(toy(), path, None, **dict(kw))
        except AldyException as e:
            return parse_err(e)
    return ("ok", impl_dict(p, doc))


_BAM = {}


def tiny_bam(dirpath):
    import pysam
    g = toy()
    path = os.path.join(dirpath, "t.bam")
    chrom = g.chr
    hdr = {"HD": {"VN": "1.0", "SO": "coordinate"}, "SQ": [{"SN": chrom, "LN": 200000000}]}
    with pysam.AlignmentFile(path, "wb", header=hdr) as f:
        for i, st in enumerate([100000010, 100000020]):
            a = pysam.AlignedSegment()
            a.query_name = f"r{i}"
            a.query_sequence = "A" * 50
            a.flag = 0
            a.reference_id = 0
            a.reference_start = st
            a.mapping_quality = 60
            a.cigar = ((0, 50),)
            a.query_qualities = pysam.qualitystring_to_array("I" * 50)
            f.write(a)
    pysam.index(path)
    return path


def impl_write_load(kw, doc):
    """real profile writer (options section) -> YAML text -> real loader"""
    import yaml
    from aldy.profile import Profile
    from aldy.common import AldyException, GRange
    g = toy()
    with profile_dir() as d:
        bam = _BAM.get("t") or _BAM.setdefault("t", tiny_bam(d))
        regions = {(g.name, r, gi): rng for gi, gr in enumerate(g.regions) for r, rng in gr.items()}
        try:
            data = Profile.get_sam_profile_data(bam, regions=regions, cn_region=GRange(g.chr, 100000000, 100000100),
                                                genome=g.genome, params=dict(kw))
        except AldyException as e:
            return parse_err(e), None, 0
        text = yaml.dump(data, default_flow_style=None)
        nv = yaml.safe_load(text)["neutral"]["value"]
        written = yaml.safe_load(text).get("options", {})
        path = os.path.join(d, "w.yml")
        open(path, "w").write(text)
        try:
            p = Profile.load(g, path, None)
        except AldyException as e:
            return ("ok", written), parse_err(e), nv
    return ("ok", written), ("ok", impl_dict(p, doc)), nv


# ------------------------------------------------------------------ cases
def gen_cases(chk, doc, n_api, n_cli, n_prof, n_wl):
    rng = chk.rng
    cases = []
    unknown = ["zzz", "gapp", "min_cov", "solver_x", "Phase", "minor", "cn"]

    def draw_kw(k, strings_only=False, p_mal=0.12, p_unknown=0.12, p_none=0.05, doc=doc):
        kw, kinds = [], []
        for _ in range(k):
            r = rng.random()
            if r < p_unknown:
                kw.append((rng.choice(unknown), rng.choice(["1", "x", 3] if not strings_only else ["1", "x"])))
                kinds.append("unknown-name")
                continue
            n, ty = rng.choice(doc)
            if not strings_only and rng.random() < p_none:
                kw.append((n, None))
                kinds.append("none")
                continue
            mal = rng.random() < p_mal and ty != "str"
            v, kind = gen_value(rng, ty, malformed=mal, strings_only=strings_only)
            kw.append((n, v))
            kinds.append(kind)
        # keyword dictionaries have unique keys; keep the last
        d = {}
        for (n, v), kd in zip(kw, kinds):
            d[n] = (v, kd)
        return [(n, v) for n, (v, _) in d.items()], [kd for _, (_, kd) in d.items()]

    # exhaustive single-parameter stream first: every documented parameter x a spelling of each kind
    for n, ty in doc:
        for mal in (False, True):
            for _ in range(3 if not mal else 2):
                v, kind = gen_value(rng, ty, malformed=mal)
                if v is None and kind is None:
                    continue
                cases.append({"route": "api", "kw": [(n, v)], "kinds": [kind]})
    for _ in range(n_api):
        kw, kinds = draw_kw(rng.randint(1, 5))
        cases.append({"route": "api", "kw": kw, "kinds": kinds})
    for _ in range(n_cli):
        kw, kinds = draw_kw(rng.randint(1, 4), strings_only=True)
        args = []
        for n, v in kw:
            key = n.replace("_", "-") if rng.random() < 0.4 else n
            args.append(f"{key}={v}")
        if rng.random() < 0.08:
            args.insert(rng.randint(0, len(args)), rng.choice(["novalue", "gap", "phase"]))
            kinds = kinds + ["cli:no-equals"]
        case = {"route": "cli-" + rng.choice(["genotype", "profile"]), "args": args, "kinds": kinds}
        if len(args) >= 2 and rng.random() < 0.5:
            # the same parameters spread over several --param flags (`--param gap=0.1 --param phase=false`): they accumulate
            cuts = sorted(rng.sample(range(1, len(args)), rng.randint(1, len(args) - 1)))
            case["flags"] = [b - a for a, b in zip([0] + cuts, cuts + [len(args)])]
            case["kinds"] = kinds + ["cli:several-flags"]
        cases.append(case)
    doc_nn = [x for x in doc if x[0] != "neutral_value"]   # the loader passes neutral_value itself (duplicate keyword otherwise)
    for _ in range(n_prof):
        okw, okinds = draw_kw(rng.randint(0, 4), p_mal=0.05, p_unknown=0.1, p_none=0.0, doc=doc_nn)
        # YAML options hold natives: use the typed natives or strings as a user would write them
        kw, kinds = draw_kw(rng.randint(0, 3), doc=doc_nn)
        cases.append({"route": "profile", "options": okw, "kw": kw, "kinds": ["opt:" + k for k in okinds] + kinds})
    for _ in range(n_wl):
        kw, kinds = draw_kw(rng.randint(1, 4), strings_only=rng.random() < 0.7, p_mal=0.05, p_unknown=0.1, p_none=0.0, doc=doc_nn)
        cases.append({"route": "write-load", "kw": kw, "kinds": kinds})
    return cases


def model_terms(case, bv):
    r = case["route"]
    if r == "api":
        return [f"o_upd (route_api {bv} here {ckw(case['kw'])})"]
    if r.startswith("cli"):
        return [f"o_upd (route_cli {bv} here {clist(case['args'], cstr)})"]
    if r == "profile":
        # the options section reaches the loader through YAML, whose writer sorts keys
        return [f"o_upd (route_profile {bv} here (IInt 1000) {ckw(sorted(case['options'], key=lambda kv: kv[0]))} {ckw(case['kw'])})"]
    if r == "write-load":
        return [f"o_opts (write_options {bv} here {ckw(case['kw'])})",
                f"o_upd (match write_options {bv} here {ckw(case['kw'])} with Ok o => route_profile {bv} here {civ(case.get('nv', 0))} o [] | Err n => Err n | Unsupported => Unsupported end)"]
    raise ValueError(r)


def run_impl(case, doc):
    r = case["route"]
    if r == "api":
        return [impl_api(case["kw"], doc)]
    if r.startswith("cli"):
        return [impl_cli(case["args"], doc, r[4:], case.get("flags"))]
    if r == "profile":
        return [impl_profile(case["options"], case["kw"], doc)]
    if r == "write-load":
        w, l, nv = impl_write_load(case["kw"], doc)
        return [w, l, nv]


def decode(case, vals, doc):
    r = case["route"]
    if r == "write-load":
        w = d_opts(vals[0])
        l = d_upd(vals[1], doc)
        if w[0] == "err":
            l = None
        return [w, l]
    return [d_upd(vals[0], doc)]


def detect_variant():
    from aldy.profile import Profile
    try:
        a = Profile("x", phase="false").phase
        b = Profile("x", phase=False).phase
    except Exception:
        return "Fixed"
    return "AsShipped" if (a is True and b is True) else "Fixed"


def desc_of(case, k):
    """what identifies a failing case for known_findings matching"""
    kinds = case["kinds"]
    boolish = sorted({kd for kd in kinds if kd.replace("opt:", "").startswith("bool")})
    return {"route": case["route"], "bool_kinds": ",".join(boolish), "only_bool_involved": bool(boolish)}


def evaluate(chk, cases, doc):
    variant = detect_variant()
    chk.notes.append(f"[C18] boolean reading implemented by the tree: {variant}")
    terms_v, terms_f, idx = [], [], []
    impl_res = []
    for c in cases:
        im = run_impl(c, doc)
        if c["route"] == "write-load":
            c["nv"] = im[2]
            im = im[:2]
        impl_res.append(im)
    for i, c in enumerate(cases):
        tv, tf = model_terms(c, variant), model_terms(c, "Fixed")
        idx.append((len(terms_v), len(tv)))
        terms_v += tv
        terms_f += tf
    vals_v = common.coq_eval(IMPORTS, terms_v)
    vals_f = vals_v if variant == "Fixed" else common.coq_eval(IMPORTS, terms_f)
    for i, c in enumerate(cases):
        o, n = idx[i]
        mv = decode(c, vals_v[o:o + n], doc)
        mf = decode(c, vals_f[o:o + n], doc)
        if any(m is not None and m[0] == "unsupported" for m in mv + mf):
            chk.count(c["route"], "skipped-unsupported")
            continue
        im = impl_res[i]
        if c["route"] == "write-load" and im[0][0] == "err":
            im[1] = None
        ci, cv, cf = [canon(x) if x else None for x in im], [canon(x) if x else None for x in mv], [canon(x) if x else None for x in mf]
        for kd in c["kinds"]:
            chk.count(c["route"], "kind:" + kd)
        nontrivial = any(not kd.startswith("unknown") and kd != "none" for kd in c["kinds"])
        chk.case(c["route"], {k: v for k, v in c.items()}, nontrivial=nontrivial, sample={**c, "implementation": ci})
        if ci != cv:
            chk.mismatch(f"params-{c['route']}", c, cv, ci)
        if ci != cf:
            # which clause? classify by what differs
            clause = "bool-reading" if (all_diffs_bool(ci, cf, doc) or (variant != "Fixed" and ci == cv)) else "param-exact"
            chk.fail(clause, desc_of(c, i), c, cf, ci)


def all_diffs_bool(ci, cf, doc):
    types = dict(doc)
    for a, b in zip(ci, cf):
        if a == b:
            continue
        if a is None or b is None:
            return False
        if a[0] in ("ok", "ok-written") and b[0] in ("ok", "ok-written") and isinstance(a[1], dict) and isinstance(b[1], dict):
            for k in set(a[1]) | set(b[1]):
                if a[1].get(k) != b[1].get(k) and types.get(k) != "bool":
                    return False
        elif a[0] == "err" or b[0] == "err":
            nm = a[1] if a[0] == "err" else b[1]
            if types.get(nm) != "bool":
                return False
        else:
            return False
    return True


def run(chk):
    chk.rule = ("cases = parameter assignments through 4 routes (API kwargs, real command-line front end with stubbed back end, "
                "profile-file options + kwargs, profile writer then loader); every documented parameter x {well-formed, malformed} "
                "spellings first, then random multi-parameter cases; non-trivial = names at least one documented parameter with a "
                "non-None value; distinct = distinct (route, assignment list)")
    chk.extra_trusted = ["Python int()/float()/str.lower() outside the decimal grammar the generator emits; PyYAML dump/safe_load"]
    chk.assumptions = ["spellings are drawn from the decimal grammar of Params.parse_int/parse_float (no underscores, nan/inf, |exponent|<=6)"]
    chk.build()
    doc = documented()
    q = chk.tier == "quick"
    cases = gen_cases(chk, doc, *( (150, 40, 60, 25) if q else (2500, 300, 600, 150) ))
    # corpus first
    corpus = os.path.join(common.VERIF, "corpus", "C18.json")
    if os.path.exists(corpus):
        pre = json.load(open(corpus))
        for c in pre:
            for key in ("kw", "options"):
                if key in c:
                    c[key] = [tuple(x) for x in c[key]]
        cases = pre + cases
    if chk.model_available():
        evaluate(chk, cases, doc)
    else:
        chk.notes.append("[C18] model did not build; no evaluation possible")


def replay(chk, path):
    r = json.load(open(path))
    c = r["case"]
    for key in ("kw", "options"):
        if key in c:
            c[key] = [tuple(x) for x in c[key]]
    chk.build()
    evaluate(chk, [c], documented())
    bad = [f for f in chk.failures]
    for f in bad:
        print("still failing:", json.dumps(f["observed"], default=str)[:400], "expected", json.dumps(f["expected"], default=str)[:400])
    print("REPLAY", "FAILS" if bad else "passes")
    return 1 if bad else 0
