"""C08 — a catalogued variant denotes the same haplotype in every coordinate system.

Correspondence: aldy.gene.Gene (.chr_to_ref/.ref_to_chr, gene[i], gene[i:j], .mutations, get_refseq, _reverse_op, get_functional)
                and the indel anchoring of aldy.sam.Sample (_realign_indels, _parse_read)      vs   coq/theories/Coord.v
Predicate     : evaluated on the loaded Gene only (no model output): the sequence-level comparison (apply as loaded to the
                genome-oriented reference, orient, compare with applying as written to RefSeq), maps inverse, notation round
                trip, reference-allele match, insertion gap.  The same comparison is re-evaluated by the Gallina function
                Coord.holds_variant on the implementation's output (the function the theorems speak about)."""
import glob, json, os, sys, tempfile, types
import common
from common import cz, cstr, clist, cpair, cbool, copt

IMPORTS = ["Base", "Consts", "Coord", "RefPatchProofs"]
W = 20            # flank kept on each side of a variant inside its aligned block
W_SNP = 7         # ... of a single-nucleotide substitution
OWN_COMP = {"A": "T", "T": "A", "C": "G", "G": "C"}     # the harness' own complement (predicate side)


def own_rc(x):
    return "".join(OWN_COMP.get(ch, ch) for ch in reversed(x))


# ------------------------------------------------------------------------------------------------ input side (YAML)
def shipped_paths():
    return sorted(glob.glob(os.path.join(common.REPO, "aldy", "resources", "genes", "*.yml")))


_GENES = {}


def load_gene(path, build):
    from aldy.gene import Gene
    key = (path, build)
    if key not in _GENES:
        _GENES[key] = Gene(path, genome=build)
    return _GENES[key]


def yaml_seq(yml):
    seq = list(yml["reference"]["seq"].replace("\n", ""))
    for pos, nuc in yml["reference"].get("patches", []) or []:
        seq[pos - 1] = nuc
    return "".join(seq)


def parse_cigar(text):
    out = []
    for tok in text.split():
        out.append((tok[0], int(tok[1:])))
    return out


def written_variants(yml):
    """(allele, pos, op, info) for every entry that aldy routes to the variant conversion, in processing order
    (random, groups, alleles in file order; ignored alleles, deletion alleles, structural and group entries left out)"""
    name = yml["name"]
    pseudo = list(yml["structure"]["genes"][1:])
    al = yml["alleles"]
    out = []

    def route(who, pos, op, info):
        if pos == name and isinstance(op, str) and op.startswith("deletion:"):
            return
        if pos in pseudo:
            return
        out.append((who, pos, op, info))

    for pos, op, *info in al.get("random", []) or []:
        if isinstance(pos, str) and pos == "ignored":
            continue
        route("random", pos, op, info)
    groups = al.get("groups", {}) or {}
    for gname, muts in groups.items():
        for pos, op, *info in muts:
            route(gname, pos, op, info)
    for aname, a in al.items():
        if aname in ("random", "groups") or a.get("ignored", False):
            continue
        if [name, "deletion"] in a["mutations"]:
            continue
        for pos, op, *info in a["mutations"]:
            if isinstance(pos, str) and pos == "ignored":
                continue
            if pos == name and op in groups:
                continue
            route(aname, pos, op, info)
    return out


# ------------------------------------------------------------------------------------------------ harness' own reading of a variant
def parse_op_py(op):
    if ">" in op:
        l, r = op.split(">")
        return ("sub", l, r)
    if op.startswith("ins"):
        return ("ins", op[3:])
    if op.startswith("del"):
        if "ins" in op[3:]:
            d, i = op[3:].split("ins")
            return ("delins", d, i)
        return ("del", op[3:])
    return ("other", op)


def span_py(p, v):
    """first and last 0-based RefSeq index touched by the variant written at 1-based p (insertion: its two flanks)"""
    k = v[0]
    if k == "sub":
        return p - 1, p - 1 + len(v[1]) - 1
    if k == "ins":
        return p - 1, p
    if k in ("del", "delins"):
        return p - 1, p - 1 + len(v[1]) - 1
    return p - 1, p - 1


def shape_ok_py(v):
    k = v[0]
    if k == "sub":
        return len(v[1]) > 0 and len(v[1]) == len(v[2]) and all((a == ".") == (b == ".") for a, b in zip(v[1], v[2]))
    if k in ("del", "delins"):
        return len(v[1]) > 0
    return k == "ins"


def apply_py(v, i, off, data):
    """apply variant v whose 0-based coordinate is i to the sequence `data` that starts at coordinate off;
    an insertion goes AFTER its base"""
    j = i - off
    k = v[0]
    if k == "sub":
        n = len(v[1])
        seg = data[j:j + n]
        rep = "".join(seg[x] if (c == "." and x < len(seg)) else c for x, c in enumerate(v[2]))
        return data[:j] + rep + data[j + n:]
    if k == "ins":
        return data[:j + 1] + v[1] + data[j + 1:]
    if k == "del":
        return data[:j] + data[j + len(v[1]):]
    if k == "delins":
        return data[:j] + v[2] + data[j + len(v[1]):]
    return data


def ref_match_py(v, i, off, data):
    j = i - off
    k = v[0]
    if j < 0:
        return False
    if k == "sub":
        seg = data[j:j + len(v[1])]
        return len(seg) == len(v[1]) and all(a == "." or a == b for a, b in zip(v[1], seg))
    if k in ("del", "delins"):
        return data[j:j + len(v[1])] == v[1]
    return True


def runs(d, strand):
    """compress a position map into maximal runs (key start, value start, size) of step `strand`"""
    out = []
    for k, v in d.items():
        if out and out[-1][0] + out[-1][2] == k and out[-1][1] + out[-1][2] * strand == v:
            out[-1][2] += 1
        else:
            out.append([k, v, 1])
    return [tuple(x) for x in out]


def canon_blocks(blks, strand):
    out = []
    for c, r, n in blks:
        if n <= 0:
            continue
        if out and out[-1][0] + out[-1][2] == c and out[-1][1] + out[-1][2] * strand == r:
            out[-1][2] += n
        else:
            out.append([c, r, n])
    return [tuple(x) for x in out]


# ------------------------------------------------------------------------------------------------ Coq terms
def c_tab(tab):
    return clist(sorted(tab.items()), lambda kv: cpair(str(ord(kv[0])), str(ord(kv[1]))))


def c_al(plus, n, start, end, cigar):
    cg = clist(cigar, lambda x: cpair({"M": "CM", "I": "CI", "D": "CD"}[x[0]], cz(x[1])))
    return f"{{| a_plus := {cbool(plus)}; a_len := {cz(n)}; a_start := {cz(start)}; a_end := {cz(end)}; a_cigar := {cg} |}}"


def c_iseq(off, data):
    return cpair(cz(off), cstr(data))


def d_vop(v):
    tag = v[0]
    names = {0: "sub", 1: "ins", 2: "del", 3: "delins", 4: "other"}
    return (names[tag],) + tuple(common.dstr(x) for x in v[1:])


def d_cres(v):
    if v[0] == 0:
        return ("loaded", v[1], common.dstr(v[2]))
    return ("ignored",) if v[0] == 1 else ("error",)


# ------------------------------------------------------------------------------------------------ stub Sample for the indel anchoring
class _Prof:
    indelpost = False
    min_mapq = 10
    min_quality = 10
    sam_long_reads = True


class _Rec:
    """records the arguments of aldy.indelpost.Variant as aldy builds it; equivalents = the variant itself"""
    log = []

    def __init__(self, chrom, pos, ref, alt, reference):
        self.chrom, self.pos, self.ref, self.alt = chrom, pos, ref, alt
        _Rec.log.append((pos, ref, alt))

    def generate_equivalents(self):
        return [self]


def indel_anchoring(gene, keys, tmpdir, real=False):
    """run the REAL Sample._realign_indels (equivalent-indel branch) for the given catalogued indel keys.
    Returns {key: (variant args, [eq keys])}.  `real`: use the real indelpost.Variant on a FASTA of the lookup sequence
    (only possible when genome coordinates are small); otherwise a recording stand-in whose only equivalent is itself."""
    import aldy.sam as S
    import aldy.indelpost as IP
    smp = S.Sample.__new__(S.Sample)
    smp.gene, smp.profile, smp._prefix = gene, _Prof(), ""
    smp._indel_sites = {k: [0, 0] for k in keys}
    smp._indel_sites_eqs = {}
    smp._multi_sites, smp.phaseable, smp.phases = {}, {}, {}
    fa = os.path.join(tmpdir, "ref.fa")
    args = {}
    if real:
        import pysam
        s, e = gene._lookup_range
        with open(fa, "w") as f:
            f.write(f">{gene.chr}\n" + "N" * s + gene._lookup_seq + "N" * 50 + "\n")
        pysam.faidx(fa)
        orig = IP.Variant

        class Spy(orig):       # real variant, arguments recorded
            def __init__(self, chrom, pos, ref, alt, reference):
                _Rec.log.append((pos, ref, alt))
                super().__init__(chrom, pos, ref, alt, reference)
        repl = Spy
    else:
        with open(fa, "w") as f:
            f.write(">x\nACGT\n")
        with open(fa + ".fai", "w") as f:
            f.write("x\t4\t3\t4\t5\n")
        repl = _Rec
    old = IP.Variant
    IP.Variant = repl
    try:
        order = sorted(smp._indel_sites, key=lambda x: (x[0], -len(x[1])))     # the order aldy walks them in
        _Rec.log = []
        smp._realign_indels(tmpdir, None, fa, long_reads=True)
        log = list(_Rec.log)
    finally:
        IP.Variant = old
    for k, a in zip(order, log):
        args[k] = a
    eqs = {}
    for ek, tgt in smp._indel_sites_eqs.items():
        eqs.setdefault(tgt, []).append(ek)
    return smp, {k: (args.get(k), sorted(eqs.get(k, []))) for k in keys}


def cigar_read_hits(smp, gene, key, c, G):
    """feed the REAL _parse_read a read that is the haplotype of `key` on the window G (starting at c) with the
    indel placed where the database reading puts it; returns the on-target count aldy records for the key"""
    g, gop = key
    v = parse_op_py(gop)
    c, G = c - 4, gene[c - 4:c + len(G) + 4]      # a read that starts before and ends after the window
    hap = apply_py(v, g, c, G)
    if v[0] == "ins":
        left = g + 1 - c
        cigar = [(0, left), (1, len(v[1])), (0, len(G) - left)]
    elif v[0] == "del":
        left = g - c
        cigar = [(0, left), (2, len(v[1])), (0, len(G) - left - len(v[1]))]
    else:
        return None
    if any(n <= 0 for _, n in cigar):
        return None
    for k in smp._indel_sites:
        smp._indel_sites[k] = [0, 0]
    from collections import defaultdict
    smp._parse_read("r", c, cigar, hap, defaultdict(list), defaultdict(list), 60, None)
    return smp._indel_sites[key][1]


# ------------------------------------------------------------------------------------------------ one database (one build)
class Db:
    """everything the check needs about one loaded database"""

    def __init__(self, label, stream, gene, shipped):
        self.label, self.stream, self.gene, self.shipped = label, stream, gene, shipped
        yml = gene._yml
        self.yml = yml
        self.build = gene.genome
        chrom, start, end, strand, cigar = yml["reference"]["mappings"][self.build]
        self.plus = strand == "+"
        self.start, self.end = start, end
        self.cigar = parse_cigar(cigar)
        self.seq = yaml_seq(yml)
        self.sgn = 1 if self.plus else -1
        self.cruns = runs(gene.chr_to_ref, self.sgn)          # implementation's map, compressed
        self.written = written_variants(yml)
        seen, uniq = set(), []
        for who, p, op, info in self.written:
            if (p, op) not in seen:
                seen.add((p, op))
                uniq.append((p, op))
        self.uniq = uniq
        self.by_value = {}
        for k, val in gene.mutations.items():
            self.by_value.setdefault((val[3] + 1, val[4]), []).append(k)

    def al_term(self):
        return c_al(self.plus, len(self.seq), self.start, self.end, self.cigar)

    def ref_block(self, q):
        """(lowest RefSeq index, size) of the implementation's aligned run containing RefSeq index q"""
        for c, r, n in self.cruns:
            lo = r if self.plus else r - n + 1
            if lo <= q < lo + n:
                return lo, n
        return None

    def window(self, p, op):
        v = parse_op_py(op)
        lo, hi = span_py(p, v)
        blk = self.ref_block(lo)
        if blk is None:
            return None
        blo, bn = blk
        w = W if (hi > lo or v[0] != "sub") else W_SNP
        a = max(blo, lo - w)
        b = min(blo + bn, hi + 1 + w)
        return a, b - a, (blo <= lo and hi < blo + bn)


def check_db(chk, db, tab, terms, jobs):
    """implementation side + predicate for one database; appends Coq terms to `terms` and decoding jobs to `jobs`"""
    g = db.gene
    st = db.stream
    al = f"al{db.idx}"
    desc0 = {"db": db.label, "build": db.build, "shipped": db.shipped}
    # ---- maps: predicate on the implementation
    inv_ok = len(g.chr_to_ref) == len(g.ref_to_chr) and all(g.ref_to_chr.get(v) == k for k, v in g.chr_to_ref.items()) \
        and all(g.chr_to_ref.get(v) == k for k, v in g.ref_to_chr.items())
    chk.case(st + ":maps", [db.label, db.build, "maps"], nontrivial=len(db.cruns) >= 1,
             sample={"db": db.label, "build": db.build, "strand": "+" if db.plus else "-", "blocks": db.cruns[:6]})
    chk.count(st + ":maps", "blocks", len(db.cruns))
    if len(db.cruns) > 1:
        chk.count(st + ":maps", "gapped-alignments")
    if not inv_ok:
        chk.fail("maps-inverse", dict(desc0), {"db": db.label, "build": db.build, "yaml": db.yml_text()}, "mutually inverse", "not inverse")
    if g.seq != db.seq:
        chk.mismatch("refseq-sequence-with-patches", {"db": db.label}, "yaml seq + patches", "differs")
    # ---- maps: model
    rng = chk.rng
    s, e = db.start - 1, db.end - 1
    probe_chr = {s - 1, s, s + 1, e - 2, e - 1, e}
    probe_ref = {-1, 0, 1, len(db.seq) - 1, len(db.seq)}
    for c, r, n in db.cruns:
        probe_chr |= {c - 1, c, c + n - 1, c + n}
        probe_ref |= {r - 1, r, r + 1, r + db.sgn * (n - 1), r + db.sgn * n}
    for _ in range(6):
        probe_chr.add(rng.randint(s - 3, e + 3))
        probe_ref.add(rng.randint(-2, len(db.seq) + 1))
    probe_chr, probe_ref = sorted(probe_chr), sorted(probe_ref)
    terms.append(f"OL [o_list o_block (blocks {al}); o_bool (align_ok {al}); "
                 f"o_list (o_opt OZ) (map (chr_to_ref {al}) {clist(probe_chr, cz)}); "
                 f"o_list (o_opt OZ) (map (ref_to_chr {al}) {clist(probe_ref, cz)})]")
    jobs.append(("maps", db, (probe_chr, probe_ref)))
    # ---- reference patches: the model's apply_patches / patched_base on the WRITTEN sequence against Gene.seq
    patches = [(int(p), str(n)) for p, n in (db.yml["reference"].get("patches") or [])]
    if patches:
        raw = db.yml["reference"]["seq"].replace("\n", "")
        cps = clist(patches, lambda pn: cpair(cz(pn[0]), cz(ord(pn[1]))))
        if len(raw) <= 4000:
            terms.append(f"OL [OZ 0; o_opt o_str (apply_patches {cstr(raw)} {cps})]")
            jobs.append(("patches", db, ("whole", None)))
        else:
            sites = sorted({q for p, _ in patches for q in (p - 2, p - 1, p) if 0 <= q < len(raw)} | {rng.randrange(len(raw)) for _ in range(20)})
            terms.append(f"OL [OZ 1; o_str (map (fun ir => patched_base (snd ir) (fst ir) {cps}) "
                         f"{clist(sites, lambda q: cpair(cz(q), cz(ord(raw[q]))))})]")
            jobs.append(("patches", db, ("sites", sites)))
    # ---- lookup: gene[i], gene[i:j] around every edge
    edges = sorted({s, e} | {c for c, _, _ in db.cruns} | {c + n for c, _, n in db.cruns})
    for x in edges[:12]:
        i, j = x - rng.randint(1, 9), x + rng.randint(1, 9)
        refs = [g.chr_to_ref[k] for k in range(i, j) if k in g.chr_to_ref]
        if refs:
            lo, hi = max(0, min(refs) - 1), min(len(db.seq), max(refs) + 2)
        else:
            lo, hi = 0, 1
        pts = [i, x - 1, x, j - 1]
        terms.append(f"OL [o_str (lookup_slice tab {al} {c_iseq(lo, db.seq[lo:hi])} {cz(i)} {cz(j)}); "
                     f"o_str (map (lookup_at tab {al} {c_iseq(lo, db.seq[lo:hi])}) {clist(pts, cz)})]")
        jobs.append(("lookup", db, (i, j, pts)))
    # ---- whole table: load_muts / get_refseq
    terms.append(f"o_list (fun kv => OL [OZ (fst (fst kv)); o_str (snd (fst kv)); OZ (fst (fst (snd kv))); OZ (snd (fst (snd kv))); "
                 f"o_str (snd (snd kv))]) (load_muts tab {al} {clist(db.uniq, lambda w: cpair(cz(w[0]), cstr(w[1])))})")
    jobs.append(("table", db, None))
    # ---- per written variant
    indel_keys = []
    delins_keys = []
    for (p, op) in db.uniq:
        v = parse_op_py(op)
        kind = v[0] if not (v[0] == "sub" and len(v[1]) > 1) else "mnp"
        keys = db.by_value.get((p, op), [])
        win = db.window(p, op)
        d = dict(desc0, variant=f"{p}{op}", kind=kind)
        case_data = {"db": db.label, "build": db.build, "variant": [p, op], "yaml": db.yml_text()}
        mapped0 = (p - 1) in g.ref_to_chr
        if win is None:
            # first base of the variant is not aligned to this genome build: aldy ignores it (or it straddles an alignment gap)
            chk.case(st + ":variants", [db.label, db.build, p, op], nontrivial=False)
            chk.count(st + ":variants", "unmapped-first-base")
            terms.append(f"c08_case tab {al} {c_iseq(0, '')} {cz(p)} {cstr(op)} 0 0")
            jobs.append(("variant", db, (p, op, None, keys, None)))
            continue
        a, m, inside = win
        rw_lo, rw_hi = max(0, a - 2), min(len(db.seq), a + m + 2)
        if not inside or not shape_ok_py(v):
            chk.case(st + ":variants", [db.label, db.build, p, op], nontrivial=False)
            chk.count(st + ":variants", "outside-variant_ok:" + ("shape" if inside else "span-crosses-alignment-gap"))
            if db.shipped:
                # the statement quantifies over every shipped variant: a variant without a well-defined genome haplotype is reported
                chk.fail("variant-equiv", dict(d, reason="span not inside one aligned block" if inside is False else "malformed operation"),
                         case_data, "variant_ok", "span crosses an alignment gap / malformed")
            terms.append(f"c08_case tab {al} {c_iseq(rw_lo, db.seq[rw_lo:rw_hi])} {cz(p)} {cstr(op)} {cz(a)} {cz(m)}")
            jobs.append(("variant", db, (p, op, (a, m), keys, None)))
            continue
        chk.case(st + ":variants", [db.label, db.build, p, op], nontrivial=True,
                 sample={"db": db.label, "build": db.build, "strand": "+" if db.plus else "-", "written": f"{p}{op}", "loaded": keys[:1]})
        chk.count(st + ":variants", "kind:" + kind)
        chk.count(st + ":variants", "strand:" + ("+" if db.plus else "-"))
        if not db.plus and kind != "sub":
            chk.count(st + ":variants", "reverse-strand " + kind + (" with '.'" if "." in op else ""))
        # clause notation: exactly one loaded key carries this notation, and get_refseq returns it
        if len(keys) != 1:
            chk.fail("notation", dict(d, reason="written variant not loaded under its own key"), case_data, "one key", keys)
            terms.append(f"c08_case tab {al} {c_iseq(rw_lo, db.seq[rw_lo:rw_hi])} {cz(p)} {cstr(op)} {cz(a)} {cz(m)}")
            jobs.append(("variant", db, (p, op, (a, m), keys, None)))
            continue
        key = keys[0]
        if g.get_refseq(key[0], key[1]) != f"{p}{op}" or g.get_refseq(key) != f"{p}{op}":
            chk.fail("notation", d, case_data, f"{p}{op}", g.get_refseq(key))
        if not db.plus and v[0] != "delins":
            try:
                back = g._reverse_op(key[1])
            except Exception as ex:
                back = "raised " + type(ex).__name__
            if back != op:
                chk.fail("notation", dict(d, reason="_reverse_op of the loaded operation is not the written one"), case_data, op, back)
        # clause ref-allele (RefSeq side) and variant-equiv (sequence level)
        R = g.seq[a:a + m]
        cwin = g.ref_to_chr[a] if db.plus else g.ref_to_chr[a + m - 1]
        G = g[cwin:cwin + m]
        lv = parse_op_py(key[1])
        if not ref_match_py(v, p - 1, a, R):
            chk.fail("ref-allele", d, case_data, "reference allele equals RefSeq", R)
        elif not ref_match_py(lv, key[0], cwin, G):
            chk.fail("ref-allele", dict(d, reason="loaded allele does not match the genome-oriented reference"), case_data, key[1], G)
        hap_r = apply_py(v, p - 1, a, R)
        hap_g = apply_py(lv, key[0], cwin, G)
        if not db.plus:
            hap_g = own_rc(hap_g)
        py_ok = hap_r == hap_g
        if not py_ok:
            chk.fail("variant-equiv", d, case_data, hap_r, hap_g)
        terms.append(f"c08_case tab {al} {c_iseq(rw_lo, db.seq[rw_lo:rw_hi])} {cz(p)} {cstr(op)} {cz(a)} {cz(m)}")
        jobs.append(("variant", db, (p, op, (a, m), keys, (R, cwin, G, hap_r))))
        # the Gallina predicate re-evaluates the harness comparison: every non-SNP and every failing case, SNPs sampled in the quick tier
        if kind != "sub" or not py_ok or chk.tier != "quick" or not db.shipped or rng.random() < 0.25:
            terms.append(f"o_bool (holds_variant tab {cbool(db.plus)} {cz(key[0])} {cstr(key[1])} {c_iseq(cwin, G)} {cz(p)} {cstr(op)} {c_iseq(a, R)})")
            jobs.append(("holds", db, (p, op, py_ok and ref_match_py(v, p - 1, a, R) and ref_match_py(lv, key[0], cwin, G))))
            chk.count(st + ":variants", "gallina-predicate-evaluated")
        if lv[0] in ("ins", "del"):
            indel_keys.append((key, p, op, cwin, G, d, case_data))
        elif lv[0] == "delins":
            delins_keys.append((key, p, op, cwin, G, d, case_data))
    # ---- deletion-insertions: the variant the realigner is given (anchor base + alleles, sam.py:455-470) must denote the catalogued haplotype
    if delins_keys:
        with tempfile.TemporaryDirectory(dir=common.SCRATCH) as td:
            try:
                _, anch = indel_anchoring(g, [k for k, *_ in delins_keys], td, real=False)
            except Exception:     # noqa  (the stand-in does not support the call: nothing observed)
                anch = {}
            for key, p, op, cwin, G, d, case_data in delins_keys:
                va = anch.get(key, (None, []))[0]
                if va is None:
                    continue
                chk.count(st + ":indel-anchoring", "delins-realign-variant-compared")
                lv = parse_op_py(key[1])
                c2, G2 = cwin - 4, g[cwin - 4:cwin + len(G) + 4]
                want = apply_py(lv, key[0], c2, G2)
                p1, r, a_ = va
                j = p1 - 1 - c2
                if not (j >= 0 and G2[j:j + len(r)] == r and G2[:j] + a_ + G2[j + len(r):] == want):
                    chk.fail("insertion-gap", dict(d, loaded=list(key), what="variant handed to the realigner"), case_data,
                             "anchor base + alleles that denote the catalogued deletion-insertion", {"variant": list(va)})
    # ---- insertion / deletion anchoring on the real Sample code
    if indel_keys:
        with tempfile.TemporaryDirectory(dir=common.SCRATCH) as td:
            real = (not db.shipped) and g._lookup_range[1] < 200000
            smp, anch = indel_anchoring(g, [k for k, *_ in indel_keys], td, real=real)
            for key, p, op, cwin, G, d, case_data in indel_keys:
                va, eqk = anch[key]
                chk.case(st + ":indel-anchoring", [db.label, db.build, p, op, "anchor"], nontrivial=True)
                chk.count(st + ":indel-anchoring", "real-indelpost-equivalents" if real else "recorded-variant")
                lv = parse_op_py(key[1])
                c2, G2 = cwin - 4, g[cwin - 4:cwin + len(G) + 4]     # the anchor base of a deletion may precede the aligned block
                want = apply_py(lv, key[0], c2, G2)
                ok = va is not None
                if ok:
                    p1, r, a_ = va
                    j = p1 - 1 - c2
                    ok = j >= 0 and G2[j:j + len(r)] == r and G2[:j] + a_ + G2[j + len(r):] == want
                    if lv[0] == "ins":
                        ok = ok and (p1 - 1 + len(r) - 1, p1 - 1 + len(r)) == (key[0], key[0] + 1)
                exp_key = (key[0] + 1, key[1]) if lv[0] == "ins" else key
                ok_key = exp_key in eqk
                if real:
                    # every spelling the table of equivalent indels maps to this variant (sam.py:480-491; used for long reads and with
                    # indelpost off) has to denote the catalogued haplotype: an insertion shifted along a repeat is a ROTATED string
                    for ek in eqk:
                        k2 = (ek[0] - 1, ek[1]) if ek[1].startswith("ins") else ek
                        lo_, hi_ = min(key[0], k2[0]) - 12, max(key[0], k2[0]) + 40
                        win = g[lo_:hi_]
                        if "N" in win:
                            continue
                        chk.count(st + ":indel-anchoring", "equivalent-spellings-compared")
                        if apply_py(parse_op_py(k2[1]), k2[0], lo_, win) != apply_py(parse_op_py(key[1]), key[0], lo_, win):
                            chk.fail("insertion-gap", dict(d, loaded=list(key), what="equivalent spelling"), case_data,
                                     "every registered equivalent spelling denotes the catalogued haplotype",
                                     {"catalogued": list(key), "registered equivalent": list(ek)})
                hits = cigar_read_hits(smp, g, key, cwin, G)
                if (not ok_key or hits != 1) and ok:
                    # the database lists the SAME haplotype twice: another catalogued indel is a shifted spelling of this one (e.g. delC at
                    # two positions of one C-run).  aldy's table of equivalent spellings then maps every spelling to ONE of the two entries;
                    # which entry gets the reads is a property of the (inconsistent) database, not of the anchoring
                    def same_hap(k2):
                        lo_, hi_ = min(key[0], k2[0]) - 12, max(key[0], k2[0]) + 40
                        win = g[lo_:hi_]
                        return "N" not in win and apply_py(parse_op_py(k2[1]), k2[0], lo_, win) == apply_py(parse_op_py(key[1]), key[0], lo_, win)
                    twins = [k2 for k2, *_ in indel_keys if k2 != key and abs(k2[0] - key[0]) < 200 and same_hap(k2)]
                    if twins:
                        chk.count(st + ":indel-anchoring", "skipped:database-lists-an-equivalent-indel-twice")
                        jobs.append(("anchor-note", db, (p, op, key, va, None)))      # None: the table of equivalent spellings belongs to the twin
                        terms.append("OZ 0")
                        continue
                if not ok or not ok_key or hits != 1:
                    chk.fail("insertion-gap", dict(d, loaded=list(key)), case_data,
                             {"variant": [key[0] + 1 if lv[0] == "ins" else key[0], "anchor base + allele"], "eq_key": list(exp_key), "read_hits": 1},
                             {"variant": va, "eq_keys": eqk, "read_hits": hits})
                if va is not None and eqk:
                    kk = exp_key if ok_key else eqk[0]
                    terms.append(f"o_bool (holds_gap {cz(key[0])} {cstr(key[1])} {c_iseq(c2, G2)} ({cz(va[0])}, {cstr(va[1])}, {cstr(va[2])}) "
                                 f"({cz(kk[0])}, {cstr(kk[1])}))")
                    jobs.append(("holds_gap", db, (p, op, ok and ok_key)))
                jobs.append(("anchor-note", db, (p, op, key, va, eqk)))
                terms.append("OZ 0")


def decode_jobs(chk, jobs, vals):
    """compare model output with the implementation for every job"""
    anchors = {}
    for (kind, db, x), val in zip(jobs, vals):
        g = db.gene
        if kind == "anchor-note":
            p, op, key, va, eqk = x
            anchors[(db.idx, p, op)] = (key, va, eqk)
    for (kind, db, x), val in zip(jobs, vals):
        g = db.gene
        ident = {"db": db.label, "build": db.build}
        if kind == "maps":
            probe_chr, probe_ref = x
            blks = canon_blocks([tuple(b) for b in val[0]], db.sgn)
            if blks != db.cruns:
                chk.mismatch("maps-blocks", ident, blks[:8], db.cruns[:8])
            if not val[1]:
                chk.mismatch("align_ok-on-loaded-database", ident, "align_ok = false", "database loads")
            mc = [common.dopt(v) for v in val[2]]
            ic = [g.chr_to_ref.get(k) for k in probe_chr]
            if mc != ic:
                chk.mismatch("chr_to_ref", dict(ident, at=probe_chr), mc, ic)
            mr = [common.dopt(v) for v in val[3]]
            ir = [g.ref_to_chr.get(k) for k in probe_ref]
            if mr != ir:
                chk.mismatch("ref_to_chr", dict(ident, at=probe_ref), mr, ir)
        elif kind == "patches":
            how, sites = x
            chk.case(db.stream + ":patches", [db.label, db.build, "patches"], nontrivial=len(db.yml["reference"]["patches"]) >= 2,
                     sample={"db": db.label, "patches": db.yml["reference"]["patches"]})
            chk.count(db.stream + ":patches", f"patches={min(len(db.yml['reference']['patches']), 4)}")
            if how == "whole":
                mv = common.dopt(val[1], common.dstr)
                iv = g.seq
            else:
                mv = common.dstr(val[1])
                iv = "".join(g.seq[q] for q in sites)
            if mv != iv:
                k = next((k for k in range(min(len(mv or ""), len(iv))) if mv[k] != iv[k]), None)
                chk.mismatch("reference-patches", dict(ident, patches=db.yml["reference"]["patches"]),
                             {"first_difference_at": k if how == "whole" else sites[k] if k is not None else None, "model": (mv or "")[max(0, (k or 0) - 3):(k or 0) + 4]},
                             {"implementation": iv[max(0, (k or 0) - 3):(k or 0) + 4]})
        elif kind == "lookup":
            i, j, pts = x
            ms, mp = common.dstr(val[0]), common.dstr(val[1])
            chk.case(db.stream + ":lookup", [db.label, db.build, i, j], nontrivial=True)
            if ms != g[i:j]:
                chk.mismatch("gene[i:j]", dict(ident, i=i, j=j), ms, g[i:j])
            ip = "".join(g[k] for k in pts)
            if mp != ip:
                chk.mismatch("gene[i]", dict(ident, at=pts), mp, ip)
        elif kind == "table":
            mt = [(r[0], common.dstr(r[1]), r[2], r[3], common.dstr(r[4])) for r in val]
            it = [(k[0], k[1], v[2], v[3], v[4]) for k, v in g.mutations.items()]
            if mt != it:
                bad = next((a, b) for a, b in zip(mt + [None], it + [None]) if a != b)
                chk.mismatch("mutations-table", ident, bad[0], bad[1])
        elif kind == "variant":
            p, op, win, keys, seqs = x
            if val[0] == 0:
                chk.mismatch("parse_op", dict(ident, variant=[p, op]), "unpacking error", keys)
                continue
            cres = d_cres(val[1])
            impl = ("loaded",) + tuple(keys[0]) if keys else ("ignored",)
            # a written variant that maps onto an existing key is shadowed in the implementation; the table tie covers it
            if keys and cres != impl:
                chk.mismatch("convert", dict(ident, variant=[p, op]), cres, impl)
            if not keys and cres[0] == "loaded" and (cres[1], cres[2]) not in g.mutations:
                chk.mismatch("convert", dict(ident, variant=[p, op]), cres, "not loaded")
            if common.dstr(val[9]) != op:
                chk.mismatch("print_op-of-parse_op", dict(ident, variant=[p, op]), common.dstr(val[9]), op)
            if not val[10]:
                # hypothesis of convert_injective / notation_roundtrip on the reverse strand (alleles over A-Z and '.')
                chk.count(db.stream + ":variants", "side condition op_ok false")
                if db.shipped:
                    chk.notes.append(f"[C08] side condition op_ok is false on {db.label}/{db.build}: {p}{op}")
            if seqs is None:
                continue
            R, cwin, G, hap_r = seqs
            vok = bool(val[2])
            if not vok:
                chk.mismatch("variant_ok-vs-harness", dict(ident, variant=[p, op]), False, True)
            if common.dstr(val[3]) != hap_r:
                chk.mismatch("apply_refseq", dict(ident, variant=[p, op]), common.dstr(val[3]), hap_r)
            hg = common.dopt(val[4], common.dstr)
            if hg != hap_r:
                # the theorem says the model's two haplotypes agree under variant_ok; the model's genome side is tied here
                chk.mismatch("hap_genome", dict(ident, variant=[p, op]), hg, hap_r)
            if common.dopt(val[5]) != cwin:
                chk.mismatch("window-genome-start", dict(ident, variant=[p, op]), common.dopt(val[5]), cwin)
            if not db.plus:
                key = keys[0]
                mv = common.dopt(val[6], common.dstr)
                try:
                    iv = g._reverse_op(key[1])
                except AssertionError:
                    iv = None
                if mv != iv:
                    chk.mismatch("_reverse_op", dict(ident, op=key[1]), mv, iv)
            an = anchors.get((db.idx, p, op))
            if an is not None:
                key, va, eqk = an
                mva = common.dopt(val[7], lambda t: (t[0], common.dstr(t[1]), common.dstr(t[2])))
                if mva is not None and 0 in [ord(ch) for ch in mva[1] + mva[2]]:
                    chk.count(db.stream + ":indel-anchoring", "anchor-base-outside-window-given")
                else:
                    if mva != (tuple(va) if va else None):
                        chk.mismatch("realign-variant", dict(ident, variant=[p, op]), mva, va)
                    mk = common.dopt(val[8], lambda t: (t[0], d_vop(t[1])))
                    if mk is not None:
                        mk = (mk[0], {"ins": "ins", "del": "del"}[mk[1][0]] + mk[1][1])
                    if eqk is None:
                        chk.count(db.stream + ":indel-anchoring", "equivalent-key-comparison-skipped:twin-entries")
                    elif (mk is None and eqk) or (mk is not None and mk not in eqk):
                        chk.mismatch("equivalent-indel-key", dict(ident, variant=[p, op]), mk, eqk)
        elif kind == "holds":
            p, op, py = x
            if bool(val) != bool(py):
                chk.mismatch("predicate: Gallina holds_variant vs harness comparison", dict(ident, variant=[p, op]), bool(val), py)
        elif kind == "holds_gap":
            p, op, py = x
            if bool(val) != bool(py):
                chk.mismatch("predicate: Gallina holds_gap vs harness comparison", dict(ident, variant=[p, op]), bool(val), py)


def eval_grouped(imports, common_pre, groups, max_chars=400000, workers=10):
    """groups: list of (definitions text, [terms]); packs whole groups into shards (one coqc each, run concurrently) so that a
    shard's preamble only holds the definitions its own terms use.  Returns the values in order."""
    import concurrent.futures as cf
    shards, cur, size = [], [], 0
    for defs, tms in groups:
        sz = len(defs) + sum(len(x) for x in tms)
        if cur and size + sz > max_chars:
            shards.append(cur)
            cur, size = [], 0
        cur.append((defs, tms))
        size += sz
    if cur:
        shards.append(cur)

    def run(sh):
        tms = [x for _, ts in sh for x in ts]
        if not tms:
            return []
        return common.coq_eval(imports, tms, shard=len(tms), jobs=1, preamble=common_pre + "\n" + "\n".join(d for d, _ in sh), timeout=900)
    out = []
    with cf.ThreadPoolExecutor(max_workers=workers) as ex:
        for r in ex.map(run, shards):
            out.extend(r)
    return out


# ------------------------------------------------------------------------------------------------ get_functional
def functional_cases(chk, dbs, tab, per_db):
    from aldy.common import PROTEINS
    pre = ("Definition tab : ctab := " + c_tab(tab) + ".\n" +
           "Definition ct : codons := " + clist(sorted(PROTEINS.items()), lambda kv: cpair(cstr(kv[0]), str(ord(kv[1])))) + ".")
    groups, jobs = [], []
    rng = chk.rng
    for db in dbs:
        g = db.gene
        ex = sorted((s - 1, e - 1) for s, e in db.yml["reference"]["exons"])
        cds_len = sum(e - s for s, e in ex)
        if cds_len > 20000:
            continue
        defs = (f"Definition al{db.idx} : align := {db.al_term()}.\n" +
                f"Definition cds{db.idx} : list (Z * Z * str) := " +
                clist(ex, lambda se: f"({cz(se[0])}, {cz(se[1])}, {cstr(db.seq[se[0]:se[1]])})") + ".")
        picks = []
        exon_pos = [q for s, e in ex for q in range(s, e) if q in g.ref_to_chr]
        for _ in range(per_db):
            if exon_pos and rng.random() < 0.8:
                q = rng.choice(exon_pos)
            else:
                q = rng.randrange(len(db.seq))
                if q not in g.ref_to_chr:
                    continue
            pos = g.ref_to_chr[q]
            base = g[pos]
            alt = rng.choice([b for b in "ACGTN" if b != base])
            op = rng.choice([f"{base}>{alt}"] * 6 + ["insA", "del" + base])
            if (pos, op) in g.mutations:
                continue
            picks.append((pos, op))
        tms = []
        for pos, op in picks:
            try:
                r = g.get_functional((pos, op))
                impl = ("none",) if r is None else ("indel",) if r == "indel" else ("change", r)
            except Exception as ex_:
                impl = ("error", type(ex_).__name__)
            tms.append(f"o_fres (infer_functional tab ct al{db.idx} cds{db.idx} {cz(pos)} {cstr(op)})")
            jobs.append((db, pos, op, impl))
        if tms:
            groups.append((defs, tms))
    if not jobs:
        return
    vals = eval_grouped(IMPORTS, pre, groups, max_chars=250000)
    for (db, pos, op, impl), v in zip(jobs, vals):
        if v[0] == 0:
            m = ("none",)
        elif v[0] == 1:
            m = ("indel",)
        elif v[0] == 2:
            m = ("change", f"{chr(v[1])}{v[2]}{chr(v[3])}")
        else:
            m = ("error",)
        chk.case(db.stream + ":get_functional", [db.label, db.build, pos, op], nontrivial=impl[0] in ("change", "indel"),
                 sample={"db": db.label, "build": db.build, "novel": [pos, op], "effect": impl})
        chk.count(db.stream + ":get_functional", "result:" + impl[0])
        if m[0] != impl[0] or (m[0] == "change" and m[1] != impl[1]):
            chk.mismatch("get_functional-inference", {"db": db.label, "build": db.build, "pos": pos, "op": op}, m, impl)
    # annotated variants: get_functional returns the annotation written in the database (first writer wins)
    for db in dbs:
        g = db.gene
        first = {}
        for who, p, op, info in db.written:
            fn = info[1] if len(info) > 1 else None
            first.setdefault((p, op), fn)
        for (p, op), keys in db.by_value.items():
            for k in keys:
                if g.get_functional(k) != first.get((p, op)) and g.get_functional(k, infer=False) != first.get((p, op)):
                    chk.mismatch("get_functional-annotation", {"db": db.label, "variant": [p, op]}, first.get((p, op)), g.get_functional(k))


# ------------------------------------------------------------------------------------------------ generated databases
def rand_seq(rng, n):
    return "".join(rng.choice("ACGT") for _ in range(n))


def gen_alignment(rng, L, cuts, strand, base, ngaps):
    """alignment of a RefSeq of length L; gaps keep >= 5 away from region cut points and >= 12 from each other.
    Returns (cigar text in genome order, ref->chr dict, chr span, gaps as (kind, ref position, size))"""
    gaps, tries = [], 0
    while len(gaps) < ngaps and tries < 60:
        tries += 1
        x = rng.randint(14, L - 20)
        k = rng.randint(1, 6)
        kind = rng.choice("ID")
        span = (x, x + (k if kind == "I" else 0))
        if any(abs(c - y) < 6 for c in cuts for y in span):
            continue
        if any(abs(x - gx) < 14 + gk + k for _, gx, gk in gaps):
            continue
        gaps.append((kind, x, k))
    gaps.sort(key=lambda t: t[1])
    ops, cur = [], 0
    for kind, x, k in gaps:
        ops.append(("M", x - cur))
        ops.append((kind, k))
        cur = x + (k if kind == "I" else 0)
    ops.append(("M", L - cur))
    if strand == "-":
        ops = ops[::-1]
    # ref -> chr
    r2c = {}
    pc = base
    pr = 0 if strand == "+" else L - 1
    sg = 1 if strand == "+" else -1
    for o, n in ops:
        if o == "M":
            for i in range(n):
                r2c[pr + i * sg] = pc + i
            pc += n
            pr += n * sg
        elif o == "I":
            pr += n * sg
        else:
            pc += n
    return " ".join(f"{o}{n}" for o, n in ops), r2c, pc - base, gaps


def gen_variant(rng, pseq, p0, kind):
    """a variant whose first affected 0-based RefSeq index is p0, consistent with the (patched) sequence"""
    L = len(pseq)
    if kind == "snp":
        return p0 + 1, f"{pseq[p0]}>{rng.choice([b for b in 'ACGT' if b != pseq[p0]])}"
    if kind == "mnp":
        n = rng.randint(2, 4)
        l = list(pseq[p0:p0 + n])
        r = [rng.choice([b for b in "ACGT" if b != x]) for x in l]
        if n >= 3 and rng.random() < 0.5:
            j = rng.randint(1, n - 2)
            l[j] = r[j] = "."
        return p0 + 1, "".join(l) + ">" + "".join(r)
    if kind == "ins":
        return p0 + 1, "ins" + rand_seq(rng, rng.randint(1, 4))
    if kind == "del":
        n = rng.randint(1, 5)
        return p0 + 1, "del" + pseq[p0:p0 + n]
    n = rng.randint(1, 4)
    d = pseq[p0:p0 + n]
    i = rand_seq(rng, rng.randint(1, 3))
    while i == d:
        i = rand_seq(rng, rng.randint(1, 3))
    return p0 + 1, f"del{d}ins{i}"


def gen_db(rng, idx, strands=None, with_pseudo=None, structural=False, n_var=None):
    """a generated two-build database (dict ready for yaml.safe_dump) modelled on toy.yml"""
    name = "GEN"
    L = rng.randint(220, 520)
    seq = rand_seq(rng, L)
    patches = [[rng.randint(1, L), rng.choice("ACGT")] for _ in range(rng.choice([0, 0, 1, 3]))]
    pseq = list(seq)
    for p, n in patches:
        pseq[p - 1] = n
    pseq = "".join(pseq)
    K = rng.randint(2, 4)
    zero_up = rng.random() < 0.2
    while True:
        cuts = sorted(rng.sample(range(12, L - 12), 2 * K))
        if all(b - a >= 10 for a, b in zip(cuts, cuts[1:])):
            break
    if zero_up:
        cuts[0] = 0
    names = ["up"]
    for e in range(1, K + 1):
        names.append(f"e{e}")
        if e < K:
            names.append(f"i{e}")
    names.append("down")
    bounds = [0] + cuts + [L]                       # region k = [bounds[k], bounds[k+1]) in RefSeq terms
    ref_regions = {nm: (bounds[k], bounds[k + 1]) for k, nm in enumerate(names)}
    has_pseudo = rng.random() < 0.5 if with_pseudo is None else with_pseudo
    strands = strands or rng.choice(["++", "+-", "-+", "--"])
    yml_regions, mappings, meta = {}, {}, {}
    for b, st in zip(("hg19", "hg38"), strands):
        base = rng.randint(1500, 4000)
        cigar, r2c, span, gaps = gen_alignment(rng, L, cuts, st, base, rng.choice([0, 1, 2, 3]))
        regs = {}
        pseudo_len = {nm: (0 if (rng.random() < 0.12 and nm in ("up", "down")) else rng.randint(4, 18)) for nm in names}
        if sum(1 for v in pseudo_len.values() if v == 0) > 1:
            pseudo_len["down"] = 7
        order = names if st == "+" else names[::-1]
        pstart = base - 30 - sum(pseudo_len.values()) if rng.random() < 0.5 else base + span + 30
        pc = pstart
        pcoord = {}
        for nm in order:
            pcoord[nm] = (pc, pc + pseudo_len[nm])
            pc += pseudo_len[nm]
        for nm in names:
            if nm.startswith("i"):
                continue
            a, z = ref_regions[nm]
            if a == z:
                x = r2c[a] if st == "+" else r2c[a] + 1
                lo, hi = x, x
            elif st == "+":
                lo, hi = r2c[a], r2c[z - 1] + 1
            else:
                lo, hi = r2c[z - 1], r2c[a] + 1
            coord = [lo + 1, hi + 1]
            if has_pseudo:
                coord += [pcoord[nm][0] + 1, pcoord[nm][1] + 1]
            regs[nm] = coord
        if has_pseudo:
            # introns of the pseudogene are filled by aldy from its exons; lengths were drawn for them only as spacing
            pass
        yml_regions[b] = regs
        mappings[b] = ["7", base + 1, base + 1 + span, st, cigar]
        meta[b] = {"strand": st, "gaps": gaps, "base": base}
    exons = [[ref_regions[f"e{e}"][0] + 1, ref_regions[f"e{e}"][1] + 1] for e in range(1, K + 1)]
    # variants
    kinds = ["snp", "snp", "mnp", "ins", "del", "delins"]
    n_var = n_var or rng.randint(6, 16)
    variants = []
    allgaps = [g_ for b in meta for g_ in meta[b]["gaps"]]
    for _ in range(n_var):
        kind = rng.choice(kinds)
        if allgaps and rng.random() < 0.45:
            gk, gx, gsz = rng.choice(allgaps)          # hug an alignment gap
            edge = rng.choice([gx - 1, gx - 2, gx - 3, gx + (gsz if gk == "I" else 0), gx + (gsz if gk == "I" else 0) + 1, gx - 5, gx])
            p0 = min(max(2, edge), L - 8)
        else:
            p0 = rng.randint(2, L - 8)
        variants.append(gen_variant(rng, pseq, p0, kind))
    for _ in range(2):          # every generated database carries multi-nucleotide substitutions (reverse strand: pos + len - 1)
        variants.append(gen_variant(rng, pseq, rng.randint(2, L - 8), "mnp"))
    variants = list(dict.fromkeys(variants))
    # alleles
    alleles = {f"{name}*1.001": {"label": f"{name}*1", "mutations": []}}
    fn_words = ["frameshift", "S12P", "splicing defect", "R100C"]
    num, pool = 2, list(variants)
    rng.shuffle(pool)
    annotated = {}
    while pool:
        k = rng.randint(1, 3)
        take, pool = pool[:k], pool[k:]
        muts = []
        for p, op in take:
            if (p, op) not in annotated:
                annotated[(p, op)] = rng.choice(fn_words) if rng.random() < 0.5 else None
            fn = annotated[(p, op)]
            info = ["rs%d" % rng.randint(100, 999) if rng.random() < 0.5 else "-"]
            if fn:
                info.append(fn)
            elif rng.random() < 0.3:
                info = []
            muts.append([p, op] + info)
        if rng.random() < 0.3 and variants:
            p, op = rng.choice(variants)
            if [p, op] not in [m[:2] for m in muts]:
                fn = annotated.setdefault((p, op), None)
                muts.append([p, op, "-"] + ([fn] if fn else []))
        alleles[f"{name}*{num}.001"] = {"mutations": muts}
        num += 1
    if rng.random() < 0.4 and variants:
        alleles["random"] = [[p, op, "-"] for p, op in rng.sample(variants, min(2, len(variants)))] + [["ignored", "x"]]
        alleles = dict([("random", alleles.pop("random"))] + list(alleles.items())) if rng.random() < 0.5 else alleles
    yml = {
        "name": name, "version": "gen-1", "generated": "2026-01-01",
        "alleles": alleles,
        "structure": {"genes": [name] + (["GENP"] if has_pseudo else []), "regions": yml_regions,
                      "cn_regions": [n_ for n_ in names if n_[0] in "ei"]},
        "reference": {"name": "NG_GEN", "mappings": mappings, "exons": exons, "seq": seq},
    }
    if patches:
        yml["reference"]["patches"] = patches
    return yml, meta


def load_generated(yml, build, tmpdir, tag):
    import yaml
    from aldy.gene import Gene
    path = os.path.join(tmpdir, f"gen{tag}.yml")
    with open(path, "w") as f:
        yaml.safe_dump(yml, f, default_flow_style=None, sort_keys=False)
    return Gene(path, genome=build)


def _yml_text(self):
    if self.shipped:
        return f"(shipped database {self.label})"
    import yaml
    return yaml.safe_dump(self.yml, default_flow_style=None, sort_keys=False)


Db.yml_text = _yml_text


# ------------------------------------------------------------------------------------------------ driver
def evaluate(chk, dbs, per_db_fn):
    from aldy.common import REV_COMPLEMENT
    tab = dict(REV_COMPLEMENT)
    pre = ["Definition tab : ctab := " + c_tab(tab) + "."]
    for i, db in enumerate(dbs):
        db.idx = i
        pre.append(f"Definition al{i} : align := {db.al_term()}.")
    terms, jobs = [f"OL [o_bool (tab_wf tab); o_str (rev_comp tab {cstr('ACGTNacgt.>-')})]"], []
    import time
    t0 = time.time()
    for db in dbs:
        check_db(chk, db, tab, terms, jobs)
    t1 = time.time()
    # jobs and terms are aligned except for the leading table term
    assert len(terms) == len(jobs) + 1, (len(terms), len(jobs))
    vals = common.coq_eval(IMPORTS, terms, shard=400, preamble="\n".join(pre))
    from aldy.common import rev_comp
    if not vals[0][0]:
        chk.mismatch("REV_COMPLEMENT is an involution on letters (tab_wf)", tab, False, True)
    if common.dstr(vals[0][1]) != rev_comp("ACGTNacgt.>-"):
        chk.mismatch("rev_comp", "ACGTNacgt.>-", common.dstr(vals[0][1]), rev_comp("ACGTNacgt.>-"))
    t2 = time.time()
    decode_jobs(chk, jobs, vals[1:])
    functional_cases(chk, dbs, tab, per_db_fn)
    chk.notes.append(f"[C08] phases: implementation+predicate {t1 - t0:.0f}s, model evaluation in Coq ({len(terms)} terms) {t2 - t1:.0f}s, "
                     f"comparison+effect inference {time.time() - t2:.0f}s")


def run(chk):
    chk.rule = ("cases = (database, build, written variant) for every variant aldy routes to the conversion: all 38 shipped databases x "
                "{hg19, hg38} exhaustively, then generated two-build databases (random sequence with patches, 2-4 exons, either strand per "
                "build, 0-3 alignment gaps I/D per build, variants of every kind, ~45% of them hugging an alignment gap); plus per "
                "database the two position maps (all block edges), gene[i]/gene[i:j] at every edge, the whole mutation table, novel "
                "SNPs for effect inference and every catalogued indel through the real Sample anchoring code. non-trivial = variant "
                "inside variant_ok (span inside one aligned block, well-formed) and loaded; distinct = distinct (database, build, position, op)")
    chk.extra_trusted = ["PyYAML decoding of the database files (the model receives the decoded values)",
                         "harness/c08.py: routing of YAML entries to the conversion, window selection, run compression of the position dictionaries",
                         "aldy.indelpost.Variant.generate_equivalents (foreign; used unmodified on generated databases, replaced by a recorder on shipped ones)"]
    chk.assumptions = ["an insertion is read as placed AFTER its base (the only reading under which the two strands agree; it is the reading of the "
                       "Variant handed to realignment)",
                       "variants whose span crosses an alignment gap have no genome haplotype: reported on shipped data, counted and skipped on generated data"]
    import time
    tb = time.time()
    chk.build()
    chk.notes.append(f"[C08] build+audit {time.time() - tb:.0f}s")
    if not chk.model_available():
        chk.notes.append("[C08] model did not build; evaluating the implementation-side predicate only is not possible without Coq terms")
        return
    q = chk.tier == "quick"
    dbs = []
    for path in shipped_paths():
        label = os.path.basename(path)[:-4]
        for b in ("hg19", "hg38"):
            dbs.append(Db(label, "shipped", load_gene(path, b), True))
    chk.exhaustive = {"shipped_databases": len(dbs), "shipped_variants": sum(len(d.uniq) for d in dbs)}
    corpus = os.path.join(common.VERIF, "corpus", "C08.json")
    gens = []
    if os.path.exists(corpus):
        gens += [(c["yml"], "corpus") for c in json.load(open(corpus))]
    n_gen = 24 if q else 400
    for i in range(n_gen):
        gens.append((gen_db(chk.rng, i)[0], "generated"))
    with tempfile.TemporaryDirectory(dir=_scratch()) as td:
        for i, (yml, stream) in enumerate(gens):
            for b in ("hg19", "hg38"):
                try:
                    g = load_generated(yml, b, td, f"{i}{b}")
                except Exception as ex:
                    chk.mismatch("generated database rejected by Gene()", {"yml": yml, "build": b}, "loads", repr(ex)[:300])
                    continue
                dbs.append(Db(f"gen{i}", stream, g, False))
        evaluate(chk, dbs, 3 if q else 12)


def _scratch():
    os.makedirs(common.SCRATCH, exist_ok=True)
    return common.SCRATCH


def replay(chk, path):
    r = json.load(open(path))
    c = r["case"]
    chk.build()
    dbs = []
    with tempfile.TemporaryDirectory(dir=_scratch()) as td:
        if c.get("yaml", "").startswith("(shipped database"):
            p = os.path.join(common.REPO, "aldy", "resources", "genes", c["db"] + ".yml")
            dbs.append(Db(c["db"], "shipped", load_gene(p, c["build"]), True))
        else:
            import yaml
            yml = yaml.safe_load(c["yaml"])
            dbs.append(Db(c["db"], "generated", load_generated(yml, c["build"], td, "r"), False))
        evaluate(chk, dbs, 0)
    want = c.get("variant")
    bad = [f for f in chk.failures if f["clause"] == r["clause"] and (want is None or f["case"].get("variant") == want)]
    for f in bad:
        print("still failing:", json.dumps(f["desc"], default=str)[:400])
    print("REPLAY", "FAILS" if bad else "passes")
    return 1 if bad else 0
