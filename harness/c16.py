"""C16 — VCF genotypes are turned into matching evidence for every variant kind.

Correspondence: generated bgzipped+tabixed VCFs (pysam) -> real Sample(gene, profile, vcf).coverage (table, coverage(), total())
                vs VcfIn.shipped_table / shipped_coverage / shipped_total (the code step by step; the switch `skipnone` follows
                whether the tree already ignores get_mut's (pos, None) answers — detected by replaying the witness).
Predicate     : VcfIn.fixed_coverage / fixed_total (what the property states, the object of the C16 theorems) evaluated in Coq
                for every catalogued key and every key a record speaks of, compared with the implementation's accessors;
                a run that dies is a failure of "ignored-shapes"; genotype() on a heterozygous catalogued allele must report
                reference/that allele ("het-called")."""
import json, os, random, sys, tempfile, time, traceback
from collections import defaultdict
import common
from common import cz, cstr, clist, cpair, cbool, copt
import c06

IMPORTS = ["Base", "Consts", "Pileup", "VcfIn", "Consts_here"]
CHROM, CHRLEN = c06.CHROM, c06.CHRLEN


# ============================================================================================ VCF writing
def write_vcf(path, chrom, chrlen, samples, records):
    """records: dict(pos (1-based), ref, alts, gts = per sample (tuple of allele indexes / None, phased))"""
    import pysam
    h = pysam.VariantHeader()
    h.add_line(f"##contig=<ID={chrom},length={chrlen}>")
    h.add_line('##FORMAT=<ID=GT,Number=1,Type=String,Description="Genotype">')
    for s in samples:
        h.add_sample(s)
    raw = path[:-3]
    with pysam.VariantFile(raw, "w", header=h) as f:
        for r in sorted(records, key=lambda r: r["pos"]):          # stable: equal positions keep their order
            rec = f.new_record(contig=chrom, start=r["pos"] - 1, stop=r["pos"] - 1 + len(r["ref"]), alleles=[r["ref"]] + list(r["alts"]))
            for s, (gt, ph) in zip(samples, r["gts"]):
                rec.samples[s]["GT"] = tuple(gt)
                rec.samples[s].phased = bool(ph)
            f.write(rec)
    pysam.tabix_compress(raw, path, force=True)
    pysam.tabix_index(path, preset="vcf", force=True)
    os.remove(raw)


def decode_vcf(path, gene, prefix, sample_idx):
    """what pysam decodes for the region aldy fetches (trusted): the model's input"""
    import pysam
    out = []
    with pysam.VariantFile(path) as f:
        sample = list(f.header.samples)[sample_idx]
        for r in f.fetch(region=gene.get_wide_region().samtools(prefix=prefix)):
            out.append({"pos": r.pos, "ref": r.ref, "alts": list(r.alleles[1:]), "gt": list(r.samples[sample]["GT"])})
    return out


def coq_rec(r):
    return (f"(mk_vrec {cz(r['pos'])} {cstr(r['ref'])} {clist(r['alts'], cstr)} "
            f"{clist(r['gt'], lambda x: copt(x, cz))})")


# ============================================================================================ records for catalogued variants
def fill(ctx, p, l, r):
    """REF/ALT strings of a (possibly gapped) multi-substitution l>r at genome position p"""
    ref = "".join(ctx.base(p + j) if c == "." else c for j, c in enumerate(l))
    alt = "".join(ctx.base(p + j) if c == "." else c for j, c in enumerate(r))
    return ref, alt


def records_for(ctx, key, style="std"):
    """standard left-anchored VCF records (without genotype) for a catalogued variant; returns (kind, [record...])"""
    p, op = key
    if op.startswith("ins"):
        a = ctx.base(p)
        return "ins", [{"pos": p + 1, "ref": a, "alts": [a + op[3:]]}]
    if op.startswith("del"):
        a = ctx.base(p - 1)
        return "del", [{"pos": p, "ref": a + op[3:], "alts": [a]}]
    l, r = op.split(">")
    if len(l) == 1:
        return "sub", [{"pos": p + 1, "ref": l, "alts": [r]}]
    if style == "adjacent":
        return "mnp-adjacent", [{"pos": p + 1 + j, "ref": l[j], "alts": [r[j]]} for j in range(len(l)) if l[j] != "."]
    ref, alt = fill(ctx, p, l, r)
    return "mnp-one-record", [{"pos": p + 1, "ref": ref, "alts": [alt]}]


GTS = [((0, 0), 0), ((0, 1), 1), ((1, 0), 1), ((1, 1), 2), ((1, 2), 1)]


def other_base(rng, *not_these):
    return rng.choice([c for c in "ACGT" if c not in not_these])


def with_gt(rng, rec, gt, n_samples, idx):
    """attach genotypes: sample idx gets gt, the other samples something else"""
    r = dict(rec)
    r["alts"] = list(r["alts"])
    if 2 in gt and len(r["alts"]) < 2:
        # a second alternate allele of the same shape (substitution of the last base / one more inserted base / ...)
        a = r["alts"][0]
        if len(a) == len(r["ref"]):
            b = a[:-1] + other_base(rng, a[-1], r["ref"][-1])
        elif len(a) > len(r["ref"]):
            b = a + other_base(rng)
        else:
            b = r["ref"][:-1] if len(r["ref"]) > 2 else r["ref"][0] + other_base(rng, r["ref"][1]) if len(r["ref"]) == 2 else a
        if b == a or b == r["ref"]:
            b = r["ref"][0] + "T" + r["ref"]
        r["alts"].append(b)
    gts = []
    for s in range(n_samples):
        if s == idx:
            gts.append((tuple(gt), rng.random() < 0.5))
        else:
            gts.append((rng.choice([(0, 0), (0, 1), (1, 1), (None, None), (1,)]), rng.random() < 0.5))
    r["gts"] = gts
    return r


def gen_case(rng, ctx, force=None):
    """one VCF: some catalogued variants with genotypes, unrelated records, odd shapes"""
    g = ctx.gene
    n_samples = rng.choice([1, 1, 2, 3])
    idx = rng.randrange(n_samples)
    keys = list(g.mutations)
    planted, records, notes = [], [], []
    del_mismatch = force == "del-mismatch"
    if del_mismatch:
        force = "del"
    want = force or rng.choice(["sub", "sub", "del", "del", "ins", "mnp-one-record", "mnp-adjacent", "mixed", "mixed", "odd", "refmismatch", "none", "split", "split"])
    pool = {"sub": [k for k in keys if ">" in k[1] and len(k[1]) == 3], "del": [k for k in keys if k[1].startswith("del")],
            "ins": [k for k in keys if k[1].startswith("ins")], "mnp": [k for k in keys if ">" in k[1] and len(k[1]) > 3]}
    chosen = []
    if want in ("sub", "del", "ins") and pool[want]:
        chosen = [(k, "std") for k in rng.sample(pool[want], rng.randint(1, min(2, len(pool[want]))))]
    elif want in ("mnp-one-record", "mnp-adjacent") and pool["mnp"]:
        chosen = [(rng.choice(pool["mnp"]), "adjacent" if want == "mnp-adjacent" else "std")]
        if rng.random() < 0.5 and pool["sub"]:
            chosen.append((rng.choice(pool["sub"]), "std"))
    elif want == "mixed":
        ks = rng.sample(keys, rng.randint(1, min(4, len(keys))))
        chosen = [(k, rng.choice(["std", "adjacent"])) for k in ks]
    elif want == "refmismatch" and pool["sub"]:
        chosen = []
    used_pos = set()
    for key, style in chosen:
        kind, recs = records_for(ctx, key, style)
        if any(abs(r["pos"] - u) < 6 for r in recs for u in used_pos):
            continue
        gt, copies = rng.choice(GTS[1:] if del_mismatch else GTS)
        if kind == "del" and len(recs[0]["ref"]) > 1 and (del_mismatch or rng.random() < 0.25):
            # the deleted bases as the file spells them differ from the gene: the variant is still the catalogued deletion
            rr = recs[0]["ref"]
            recs[0]["ref"] = rr[:-1] + other_base(rng, rr[-1])
            notes.append("del-ref-mismatch")
        for r in recs:
            records.append(with_gt(rng, r, gt, n_samples, idx))
            used_pos.add(r["pos"])
        planted.append({"key": [key[0], key[1]], "kind": kind, "gt": list(gt), "copies": copies})
    if want == "split" and pool["sub"]:
        # a multi-allelic site written as SEPARATE bi-allelic records at one position (the layout `bcftools norm -m-` / `vt decompose`
        # produce): same POS and REF, one alternate each, every record a diploid genotype call of its own.  Preferably two catalogued
        # substitutions of one base (compound heterozygous site)
        bypos = {}
        for k in pool["sub"]:
            bypos.setdefault(k[0], []).append(k)
        multi = [ks for ks in bypos.values() if len(ks) >= 2]
        ks = sorted(rng.choice(multi))[:2] if multi and rng.random() < 0.7 else [rng.choice(pool["sub"])]
        pos0, ref = ks[0][0], ks[0][1][0]
        if not any(abs(pos0 + 1 - u) < 6 for u in used_pos):
            alts = [k[1][2] for k in ks]
            if len(alts) == 1:
                alts.append(other_base(rng, ref, alts[0]))
            gts = rng.choice([((0, 1), (0, 1)), ((1, 0), (0, 1)), ((0, 1), (1, 0)), ((1, 1), (0, 0)), ((0, 0), (0, 1)), ((0, 1), (0, 0)), ((0, 0), (1, 1))])
            if rng.random() < 0.5:
                alts, ks2 = alts[::-1], ks[::-1]
            else:
                ks2 = ks
            for j, (a, gt) in enumerate(zip(alts, gts)):
                records.append(with_gt(rng, {"pos": pos0 + 1, "ref": ref, "alts": [a]}, gt, n_samples, idx))
                k = next((k for k in ks if k[1][2] == a), None)
                if k is not None:
                    planted.append({"key": [k[0], k[1]], "kind": "sub", "gt": list(gt), "copies": sum(1 for x in gt if x == 1)})
            used_pos.add(pos0 + 1)
            notes.append("split-records")
    lo, hi = ctx.bounds
    # a REF that differs from the gene's base (single-base REF): re-expressed against the gene
    if want == "refmismatch" or rng.random() < 0.15:
        for _ in range(rng.randint(1, 2)):
            p = rng.randint(lo + 3, hi - 3)
            if ctx.base(p) == "N" or any(abs(p + 1 - u) < 6 for u in used_pos):
                continue
            ref = other_base(rng, ctx.base(p))
            alt = other_base(rng, ref) if rng.random() < 0.5 else other_base(rng, ref, ctx.base(p))
            gt = rng.choice([(0, 0), (0, 1), (1, 1)])
            records.append(with_gt(rng, {"pos": p + 1, "ref": ref, "alts": [alt]}, gt, n_samples, idx))
            used_pos.add(p + 1)
            notes.append("ref-mismatch")
    # unrelated substitutions (not catalogued), anywhere in the wide region, also on unmapped (N) positions
    for _ in range(rng.randint(0, 3)):
        p = rng.randint(ctx.wide[0] - 20, ctx.wide[1] + 3)
        if any(abs(p + 1 - u) < 6 for u in used_pos):
            continue
        b = ctx.base(p)
        ref = b if b != "N" else rng.choice("ACGT")
        gt = rng.choice([(0, 0), (0, 1), (1, 1), (1, 2)])
        records.append(with_gt(rng, {"pos": p + 1, "ref": ref, "alts": [other_base(rng, ref)]}, gt, n_samples, idx))
        used_pos.add(p + 1)
        notes.append("unrelated-sub" + ("-N" if b == "N" else ""))
    # shapes the property wants ignored: non-diploid / missing genotypes on a catalogued substitution, complex and MNP records
    if want == "odd" or rng.random() < 0.25:
        for _ in range(rng.randint(1, 2)):
            shape = rng.choice(["haploid", "missing", "half-missing", "triploid", "complex", "mnp-unrelated", "complex-homref"])
            if shape in ("haploid", "missing", "half-missing", "triploid") and pool["sub"]:
                key = rng.choice(pool["sub"])
                _, recs = records_for(ctx, key)
                if any(abs(recs[0]["pos"] - u) < 6 for u in used_pos):
                    continue
                gt = {"haploid": (1,), "missing": (None, None), "half-missing": (None, 1), "triploid": (0, 1, 1)}[shape]
                records.append(with_gt(rng, recs[0], gt, n_samples, idx))
                used_pos.add(recs[0]["pos"])
                notes.append(shape)
            elif shape in ("complex", "mnp-unrelated", "complex-homref"):
                p = rng.randint(lo + 3, hi - 8)
                if any(abs(p + 1 - u) < 8 for u in used_pos) or "N" in g[p:p + 4]:
                    continue
                if any(p - 4 <= mp <= p + 4 for mp in ctx.multi):
                    continue
                ref = g[p:p + (2 if shape == "mnp-unrelated" else 3)]
                alt = "".join(other_base(rng, c) for c in ref) if shape == "mnp-unrelated" else other_base(rng, ref[0]) + other_base(rng, ref[-1])
                gt = (0, 0) if shape == "complex-homref" else rng.choice([(0, 1), (1, 1)])
                records.append(with_gt(rng, {"pos": p + 1, "ref": ref, "alts": [alt]}, gt, n_samples, idx))
                used_pos.add(p + 1)
                notes.append(shape)
    return {"gene": ctx.yaml, "gene_name": ctx.name, "gene_id": ctx.ident, "n_samples": n_samples, "sample_idx": idx, "records": records,
            "planted": planted, "notes": sorted(notes), "want": want}


# ============================================================================================ implementation
def impl_sample(ctx, case, d, tag="c"):
    from aldy.sam import Sample
    from aldy.profile import Profile
    # a handful of file names reused with other content (a path-keyed cache inside the loader would show)
    import zlib
    path = os.path.join(d, f"v{zlib.crc32(tag.encode()) % 4}.vcf.gz")
    write_vcf(path, ctx.gene.chr, CHRLEN if ctx.yaml else 300000000, [f"S{i}" for i in range(case["n_samples"])], case["records"])
    try:
        s = Sample(ctx.gene, Profile("verif", cn_solution=["1", "1"], vcf_sample_idx=case["sample_idx"]), path)
    except Exception as e:  # noqa
        return path, None, f"{type(e).__name__}: {e}"
    return path, s, None


def default_cell(c):
    return [(c["vcf_q"][0], c["vcf_q"][1])] * max(c["vcf_reads"])


def impl_view(ctx, s, keys, positions):
    """touched part of the table (as lengths), accessor values; ('crash', msg) when an accessor dies"""
    from aldy.gene import Mutation
    cst = c06.consts()
    q = tuple(cst["vcf_q"])
    tab = s.coverage._coverage
    lo, hi = ctx.wide[0] - 500, ctx.wide[1]
    problems = []
    if set(tab) != set(range(lo, hi + 1)) and not (set(range(lo, hi + 1)) <= set(tab)):
        problems.append("range")
    touched = {}
    dflt = {"_": default_cell(cst)}
    for p, ops in tab.items():
        if ops != dflt or not lo <= p <= hi:
            for op, l in ops.items():
                if op is None:
                    return ("crash", "None operation in the table")
                if any(tuple(x) != q for x in l):
                    problems.append(f"quality at {p}")
            touched[p] = {op: len(l) for op, l in ops.items()}
    try:
        acc = [[int(s.coverage.coverage(Mutation(*k))), int(s.coverage.total(Mutation(*k)))] for k in keys]
        tot = [int(s.coverage.total(p)) for p in positions]
    except Exception as e:  # noqa
        return ("crash", f"{type(e).__name__}: {e}")
    return ("ok", touched, acc, tot, problems)


# ============================================================================================ evaluation
def query_keys(ctx, recs):
    """every catalogued key, the reference key at every catalogued / recorded position, and what the records speak of"""
    keys = set((p, op) for p, op in ctx.gene.mutations)
    for p, op in list(keys):
        keys.add((p, "_"))
        if ">" in op and len(op) > 3:
            l, r = op.split(">")
            for j in range(len(l)):
                if l[j] != ".":
                    keys.add((p + j, f"{l[j]}>{r[j]}"))
                    keys.add((p + j, "_"))
    for r in recs:
        p = r["pos"] - 1
        for j in range(max(len(r["ref"]), 1)):
            keys.add((p + j, "_"))
        for a in r["alts"]:
            if len(a) == len(r["ref"]):
                for j in range(len(a)):
                    b = ctx.base(p + j)
                    if b != a[j]:
                        keys.add((p + j, f"{b}>{a[j]}"))
        if len(r["ref"]) == 1 and r["ref"] != ctx.base(p):
            keys.add((p, f"{ctx.base(p)}>{r['ref']}"))
    return sorted(keys)


def kind_of_key(ctx, case, key):
    """which clause a wrong value at this key belongs to"""
    p, op = key
    comp = {}
    for mp, mop in ctx.all_multi.items():
        l, r = mop.split(">")
        for j in range(len(l)):
            if l[j] != ".":
                comp[mp + j] = (mp, mop)
    planted = {tuple(x["key"]): x for x in case["planted"]}
    if op.startswith("ins"):
        return "support-ins", "ins"
    if p in comp or key in [(mp, mop) for mp, mop in ctx.all_multi.items()]:
        m = comp.get(p, key)
        pl = planted.get(tuple(m))
        if pl:
            return "support-" + pl["kind"], pl["kind"]
        # an unrelated one-record MNP / adjacent records happen to complete a catalogued one
        return "support-mnp-adjacent", "mnp-adjacent"
    # an insertion record changes the reference cell next to the catalogued position
    for x in case["planted"]:
        if x["kind"] == "ins" and x["key"][0] + 1 == p:
            return "support-ins", "ins"
    if any(n == "ref-mismatch" for n in case["notes"]) and not any(tuple(x["key"])[0] == p for x in case["planted"]):
        recs_here = [r for r in case["records"] if r["pos"] - 1 == p and len(r["ref"]) == 1 and r["ref"] != ctx.base(p)]
        if recs_here:
            return "ref-mismatch", "ref-mismatch"
    if op.startswith("del"):
        return "support-del", "del"
    if key in planted or (p, "_") == key and any(tuple(x["key"])[0] == p for x in case["planted"]):
        pl = next(x for x in case["planted"] if tuple(x["key"])[0] == p)
        return "support-" + pl["kind"], pl["kind"]
    if not any(r["pos"] - 1 <= p < r["pos"] - 1 + max(1, len(r["ref"])) for r in case["records"]):
        return "absent-is-ref", "absent"
    return "support-sub", "sub"


def detect_skipnone(chk, ctx):
    """replay the witness of C16_one_record_mnp_refuted on the implementation: does a one-record MNP kill the run?"""
    mp, mop = next(((p, o) for p, o in ctx.multi.items()), (None, None))
    if mp is None:
        return False
    kind, recs = records_for(ctx, (mp, mop))
    case = {"n_samples": 1, "sample_idx": 0, "records": [with_gt(random.Random(0), recs[0], (0, 1), 1, 0)]}
    with tempfile.TemporaryDirectory() as d:
        _, s, err = impl_sample(ctx, case, d, "w")
        if s is None:
            return False
        v = impl_view(ctx, s, [(mp, "_")], [mp])
        return v[0] == "ok"


def evaluate(chk, ctxs, cases, skipnone, with_genotype=0):
    by_id = {c.ident: c for c in ctxs}
    pre = "".join(c.coq_def() for c in ctxs)
    terms_s, terms_f, meta = [], [], []
    with tempfile.TemporaryDirectory() as d:
        for i, case in enumerate(cases):
            ctx = by_id[case["gene_id"]]
            path, s, err = impl_sample(ctx, case, d, f"c{i}")
            recs = decode_vcf(path, ctx.gene, "", case["sample_idx"])
            keys = query_keys(ctx, recs)
            positions = sorted({k[0] for k in keys})
            if s is None:
                view = ("crash", err)
            else:
                view = impl_view(ctx, s, keys, positions)
            crecs = clist(recs, coq_rec)
            ckeys = clist(keys, lambda k: cpair(cz(k[0]), cstr(k[1])))
            terms_s.append(f"o_shipped {cbool(skipnone)} {ctx.ident} here {crecs} {ckeys} {clist(positions, cz)}")
            terms_f.append(f"o_fixed {ctx.ident} here {crecs} {ckeys}")
            meta.append((ctx, case, view, keys, positions, recs))
            for n in case["notes"]:
                chk.count("vcf", "note:" + n)
            for x in case["planted"]:
                chk.count("vcf", f"planted:{x['kind']}:{'/'.join(map(str, x['gt']))}")
            chk.count("vcf", f"samples:{case['n_samples']}")
            chk.case("vcf", {k: case[k] for k in ("gene_name", "records", "sample_idx")} | {"g": case["gene"][:80] if case["gene"] else ctx.name},
                     nontrivial=bool(recs), sample={"records": case["records"][:3], "planted": case["planted"], "notes": case["notes"],
                                                    "implementation": view[:2] if view[0] == "crash" else {"touched": sorted(view[1].items())[:4]}})
    vs = common.coq_eval(IMPORTS, terms_s, preamble=pre, shard=40) if chk.model_available() else [None] * len(cases)
    vf = common.coq_eval(IMPORTS, terms_f, preamble=pre, shard=40) if chk.model_available() else [None] * len(cases)
    for (ctx, case, view, keys, positions, recs), ms, mf in zip(meta, vs, vf):
        kinds = sorted({x["kind"] for x in case["planted"]} | set(case["notes"]))
        # ---- correspondence with the step-by-step model
        if ms is not None:
            if ms[0] == 1:
                mm = ("crash",)
            else:
                mm = ("ok", {p: {common.dstr(op): n for op, n in cells} for p, cells in ms[1]}, ms[2], ms[3])
            if (view[0] == "crash") != (mm[0] == "crash"):
                chk.mismatch("vcf-load", case, mm[0], view[:2])
            elif view[0] == "ok":
                im_t = {p: c for p, c in view[1].items()}
                mo_t = {p: c for p, c in mm[1].items()}
                # untouched positions of the model must be default in the implementation and vice versa
                cst = c06.consts()
                dflt = {"_": max(cst["vcf_reads"])}
                allp = set(im_t) | set(mo_t)
                dif = [(p, mo_t.get(p, dflt), im_t.get(p, dflt)) for p in sorted(allp) if mo_t.get(p, dflt) != im_t.get(p, dflt)]
                if dif or view[4]:
                    chk.mismatch("vcf-table", case, dif[:5], view[4] or "table cells differ (pos, model, implementation)")
                if [a[0] for a in view[2]] != ms[2] or view[3] != ms[3]:
                    bad = [(k, m, a[0]) for k, m, a in zip(keys, ms[2], view[2]) if m != a[0]]
                    chk.mismatch("vcf-accessors", case, bad[:5], "coverage()/total() differ (key, model, implementation)")
        # ---- the property predicate: the implementation's accessors against the Fixed specification
        if view[0] == "crash":
            # which records can kill the run: a catalogued MNP written as one record (the property wants it SUPPORTED), and
            # complex / uncatalogued MNP records with a non-reference genotype (the property wants them IGNORED)
            err = view[1].split(":")[0]
            hit = False
            if any(x["kind"] == "mnp-one-record" and x["copies"] > 0 for x in case["planted"]):
                chk.fail("support-mnp-one-record", {"kind": "mnp-one-record", "outcome": "crash", "error": err, "gene": ctx.name}, case,
                         "support for the catalogued multi-substitution", view[1])
                hit = True
            if any(n in ("complex", "mnp-unrelated") for n in case["notes"]):
                chk.fail("ignored-shapes", {"kind": "crash", "shapes": ",".join(kinds), "error": err}, case,
                         "records of other shapes are ignored without failing the run", view[1])
                hit = True
            if not hit:
                chk.fail("ignored-shapes", {"kind": "unexplained-crash", "shapes": ",".join(kinds), "error": err}, case,
                         "the run does not fail", view[1])
            continue
        if mf is None:
            continue
        seen = set()
        for k, (wc, wt), (gc, gt_) in zip(keys, mf, view[2]):
            if (wc, wt) != (gc, gt_):
                clause, kind = kind_of_key(ctx, case, k)
                if (clause, kind) in seen:
                    continue
                seen.add((clause, kind))
                chk.fail(clause, {"kind": kind, "gene": ctx.name}, case, {"key": [k[0], k[1]], "coverage": wc, "total": wt},
                         {"key": [k[0], k[1]], "coverage": gc, "total": gt_})


def run_genotype(chk, ctxs, n):
    """het-called: a VCF carrying one catalogued allele heterozygously is genotyped as reference/that allele"""
    import aldy.genotype
    rng = chk.rng
    done = 0
    with tempfile.TemporaryDirectory() as d:
        for ctx in ctxs:
            ypath = os.path.join(d, f"{ctx.ident}.yml")
            open(ypath, "w").write(ctx.yaml)
            alleles = [(an, a) for an, a in ctx.gene.alleles.items() if a.func_muts and an != "1"]
            rng.shuffle(alleles)
            for an, a in alleles:
                if done >= n:
                    return
                minor = sorted(a.minors)[0]
                muts = sorted(set(a.func_muts) | set(a.minors[minor].neutral_muts))
                style = rng.choice(["std", "adjacent"])
                recs, kinds = [], []
                for m in muts:
                    kind, rr = records_for(ctx, (m.pos, m.op), style)
                    kinds.append(kind)
                    recs += [with_gt(rng, r, (0, 1), 1, 0) for r in rr]
                case = {"gene": ctx.yaml, "gene_name": ctx.name, "gene_id": ctx.ident, "n_samples": 1, "sample_idx": 0, "records": recs,
                        "planted": [{"key": [m.pos, m.op], "kind": k, "gt": [0, 1], "copies": 1} for m, k in zip(muts, kinds)], "notes": [],
                        "allele": an}
                path = os.path.join(d, f"g{done}.vcf.gz")
                write_vcf(path, ctx.gene.chr, CHRLEN, ["S0"], recs)
                t0 = time.time()
                try:
                    res = aldy.genotype.genotype(ypath, path, None, None, solver="any", genome=None)
                    sols = next(iter(res.values()))
                    outcome = sorted({tuple(sorted(x.strip() for x in sol.get_major_diplotype().split("/"))) for sol in sols})
                    outcome = [list(x) for x in outcome]
                except Exception as e:  # noqa
                    outcome = f"{type(e).__name__}: {str(e)[:200]}"
                done += 1
                chk.case("genotype", {"gene": ctx.yaml[:60], "allele": an, "style": style}, nontrivial=True,
                         sample={"allele": an, "kinds": kinds, "outcome": outcome, "seconds": round(time.time() - t0, 1)})
                chk.count("genotype", "kinds:" + ",".join(sorted(set(kinds))))
                want = sorted(["*1", "*" + an])
                if outcome != [want]:
                    kind = next((k for k in ("ins", "mnp-one-record", "mnp-adjacent", "del", "sub") if k in kinds), "sub")
                    chk.fail("het-called", {"kind": kind, "gene": ctx.name}, case, [want], outcome)


def make_contexts(rng, n):
    ctxs = []
    for i in range(n):
        # the last gene has no catalogued indel: the indel table is empty, insertion cells are kept, a None operation dies later
        txt, meta = c06.gen_gene(rng, strand="+-"[i % 2], with_indels=(i < n - 1), gapped=(i // 2) % 2 == 1)
        ctxs.append(c06.Ctx(yaml_text=txt, ident=f"v{i}"))
    return ctxs


def shipped_contexts(names):
    from aldy.common import script_path
    out = []
    for nm, genome in names:
        out.append(c06.Ctx(path=script_path(f"aldy.resources.genes/{nm}.yml"), genome=genome, ident=f"s_{nm}_{genome}", name=nm.upper()))
    return out


def run(chk):
    chk.rule = ("one case = one bgzipped+tabixed VCF written with pysam for a gene database: catalogued variants (substitution, deletion, "
                "insertion, multi-substitution as one record or as adjacent records) as standard left-anchored records with genotype "
                "0/0, 0/1, 1/0, 1/1 or 1/2, phased or not, 1-3 samples with any sample index, plus unrelated substitutions (also on "
                "unmapped positions), REF-mismatch records, haploid / missing / half-missing / triploid genotypes, complex and "
                "uncatalogued MNP records; generated genes of either strand with indels and multi-substitutions, and small shipped "
                "genes; non-trivial = the fetched region holds at least one record; distinct = distinct (gene, records, sample index); "
                "stream genotype = a whole catalogued allele written heterozygously through aldy.genotype.genotype()")
    chk.extra_trusted = ["pysam/htslib VCF writing, bgzip, tabix and record decoding (GT, alleles, pos)", "PyYAML (generated gene databases)"]
    chk.assumptions = ["'reference support' of an insertion is read as Coverage.total(m) - Coverage.coverage(m) (aldy does not count insertions "
                       "in the depth of a position); of any other variant as the '_' cell of its position",
                       "copies of a multi-substitution written as adjacent records = the fewest copies any component has (no phase is used)"]
    chk.build()
    q = chk.tier == "quick"
    ctxs = make_contexts(chk.rng, 5 if q else 10)
    ship = shipped_contexts([("cyp1a1", "hg19")] if q else [("cyp1a1", "hg19"), ("cyp1a1", "hg38"), ("nudt15", "hg19"), ("cyp2a13", "hg38"), ("nat1", "hg19")])
    skipnone = detect_skipnone(chk, ctxs[0])
    if chk.model_available():
        # premises of C16_vcf_support_mnp_one_record / _adjacent (decidable, VcfMnpProofs.mnp_record_ok / adj_ok) on every
        # catalogued multi-substitution of every gene used: theorem premises, counted so that the evidence says where they hold
        allc = ctxs + ship
        oks = common.coq_eval(IMPORTS + ["PileupProofs", "VcfInProofs", "VcfMnpProofs"],
                              [f"o_list (fun m => OL [o_bool (mnp_record_ok {c.ident} m); o_bool (adj_ok {c.ident} m)]) (g_all_multi {c.ident})" for c in allc],
                              preamble="".join(c.coq_def() for c in allc))
        for c, v in zip(allc, oks):
            for one, adj in v:
                chk.count("side-conditions", "mnp_record_ok-" + ("holds" if one == 1 else "does-not-hold"))
                chk.count("side-conditions", "adj_ok-" + ("holds" if adj == 1 else "does-not-hold"))
    chk.notes.append(f"[C16] the tree {'ignores' if skipnone else 'dies on'} records get_mut cannot express (witness: one-record MNP, heterozygous)")
    cases = []
    corpus = os.path.join(common.VERIF, "corpus", "C16.json")
    if os.path.exists(corpus):
        cases += json.load(open(corpus))
    rng = chk.rng
    for ctx in ctxs:      # every kind at least once per gene
        for force in ("sub", "del", "del-mismatch", "ins", "mnp-one-record", "mnp-adjacent", "refmismatch", "odd", "none"):
            cases.append(gen_case(rng, ctx, force))
    for i in range(60 if q else 1500):
        cases.append(gen_case(rng, ctxs[i % len(ctxs)]))
    for i in range(6 if q else 120):
        cases.append(gen_case(rng, ship[i % len(ship)]))
    known = {c.ident for c in ctxs + ship}
    cases = [c for c in cases if c.get("gene_id") in known]
    evaluate(chk, ctxs + ship, cases, skipnone)
    run_genotype(chk, ctxs, 3 if q else 30)


def replay(chk, path):
    r = json.load(open(path))
    case = r["case"]
    common.quiet_aldy()
    chk.build()
    if case.get("gene"):
        ctx = c06.Ctx(yaml_text=case["gene"], ident=case.get("gene_id", "v0"))
    else:
        nm, genome = case["gene_id"].split("_")[1:3]
        ctx = shipped_contexts([(nm, genome)])[0]
    for rec in case["records"]:
        rec["gts"] = [(tuple(g), ph) for g, ph in rec["gts"]]
    if r.get("clause") == "het-called":
        chk.rng = random.Random(0)
        print("het-called replays through run_genotype; run the quick tier")
        return 0
    evaluate(chk, [ctx], [case], detect_skipnone(chk, ctx))
    for f in chk.failures:
        print("still failing:", f["clause"], json.dumps(f["expected"], default=str)[:300], "observed", json.dumps(f["observed"], default=str)[:300])
    print("REPLAY", "FAILS" if chk.failures else "passes")
    return 1 if chk.failures else 0
