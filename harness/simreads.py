"""simreads.py - read simulator for databases made by gendb.py (or any `desc` of the same shape).  Needs pysam; aldy is
imported only by make_profile / region_depths.

API
---
simulate(desc, build, alleles, structure, L, step, out_bam, rng, noise=None, sq_detect=True, background=None) -> info dict
    alleles   : list of allele specs, ONE PER GENE COPY, e.g. ["1.001", "2.001", "2.001"].  A spec is a minor-allele name of
                desc["alleles"]; "F#B" = fusion allele F whose gene part carries base allele B's variants (plus F's own);
                a deletion allele's name = a chromosome without the gene.
    structure : list of the same length of "hap" | "extra", or None (= first two "hap", the rest "extra").
                "hap"   = one of the (normally two) chromosome haplotypes: the whole window incl. flanks, pseudogene and the
                          copy-number-neutral region; its shape follows the allele kind (normal / deletion / left fusion =
                          pseudogene 5' part + gene 3' part / right fusion = whole pseudogene + gene 5' part + pseudogene 3' part)
                "extra" = an additional tandem copy of the GENE span only (never the pseudogene, never the neutral region),
                          normal alleles only.  Depth over the copy is uniform up to its very ends (junction reads are cut at
                          the junction), i.e. the copy is simulated "with its flanks" but the flank part of a junction read is
                          not reported on a second locus.
    L, step   : read length and tiling step.  Every haplotype base is covered by exactly L/step reads when step | L.
                Reads are error-free, forward, MAPQ 60, base quality 40, single-end, unique names.
    Variants are applied in DATABASE convention: (p, insX) puts X AFTER genome base p; (p, delS) removes [p, p+len S);
                (p, delSinsZ) replaces it by Z; "A.C>T.G" substitutes the non-dot columns.
    CIGARs come from the edit script (M/I/D; an insertion cut by a read end becomes a soft clip; a deletion at a read end is
                dropped).  Reads are cut (not clipped) at structural junctions and window ends.
    noise     : None or dict with any of
                sub_rate (per-base substitution probability), lowq_frac (bases given quality 2..9), lowmapq_frac (reads given
                MAPQ 0..9), softclip_frac (reads whose first or last 3..15 aligned bases become a soft clip),
                drop_frac (reads removed), skew=[(start, end, keep_prob), ...] (reads starting in [start,end) kept with prob),
                alt_reads=[(chr_pos, op, n_reads)] is NOT supported (plant a copy instead).
    background: extra genome-orientation variants [(chr_pos0, op)] applied to EVERY copy (or {copy_index: [...]} for chosen copies)
                wherever they fall (pseudogene, flanks,
                neutral region, ...), e.g. a deletion outside the RefSeq window; they are not part of any allele.
    noise["holes"]=[(start, end)]: every read overlapping [start,end) is removed (a coverage gap).
    sq_detect : also write an @SQ line for chromosome "1" with the build's length so that aldy's genome detection answers
                `build` (aldy decides hg19/hg38 from the lengths of 1, 10, 22).
    Output    : coordinate-sorted, indexed BAM `out_bam` (sample name for aldy = basename up to the first '.').
    info      : {"reads": n, "depth": L/step, "copies": [...pieces per copy...], "expected_region_cn": {region: [gene, pseudo]}}

haplotype(desc, build, spec_variants, a, b) -> flat list of (base, ref_pos, 'M'|'I') for reference interval [a,b)
make_profile(desc, yaml_path, build, L, step, out_dir, rng, kind="yaml"|"bam") -> dict
    simulates a two-copy reference sample (2 x "1.001") of the same technology and
      kind="yaml": runs aldy's Profile.get_sam_profile_data(regions=<regions of the generated gene>, cn_region=neutral) and writes
                   <out_dir>/<name>.profile.yml            -> genotype(..., profile_name=that, cn_region=None)
      kind="bam" : returns the BAM itself                  -> genotype(..., profile_name=bam, cn_region=GRange(*neutral))
    returns {"profile": path, "cn_region": GRange|None, "bam": path}
genotype_kwargs(desc, build, prof) -> kwargs for aldy.genotype.genotype (profile_name, cn_region, genome)
"""
import os, random

COMP = {"A": "T", "C": "G", "G": "C", "T": "A", ".": ".", "N": "N"}
HG_LEN = {"hg19": 249250621, "hg38": 248956422}


# ----------------------------------------------------------------------------------------------------------------------
# haplotypes
# ----------------------------------------------------------------------------------------------------------------------
def _edit_tables(desc, build, variants):
    """per-reference-position edits in window coordinates: alt[i] = None | '' (deleted) | base ; ins[i] = str inserted after i"""
    b = desc["builds"][build]
    ws, seq = b["win_start"], b["win_seq"]
    alt, ins = {}, {}
    for pos, op in variants:
        if ">" in op:
            l, r = op.split(">")
            assert len(l) == len(r)
            for k in range(len(l)):
                if l[k] == ".":
                    continue
                assert seq[pos + k - ws] == l[k], f"reference allele mismatch at {pos + k}: {seq[pos + k - ws]} vs {op}"
                assert alt.get(pos + k) is None, f"two edits at {pos + k}"
                alt[pos + k] = r[k]
        elif op.startswith("ins"):
            ins[pos] = ins.get(pos, "") + op[3:]
        elif op.startswith("del"):
            body = op[3:]
            z = ""
            if "ins" in body:
                body, z = body.split("ins")
            assert seq[pos - ws:pos - ws + len(body)] == body, f"reference allele mismatch at {pos}: {op}"
            for k in range(len(body)):
                assert alt.get(pos + k) is None, f"two edits at {pos + k}"
                alt[pos + k] = ""
            if z:
                ins[pos - 1] = ins.get(pos - 1, "") + z
        else:
            raise ValueError(op)
    return alt, ins


def haplotype(desc, build, variants, a, b):
    """flat haplotype of reference interval [a,b) with `variants` (genome orientation, database convention) applied;
    variants whose anchor lies outside [a,b) are ignored"""
    bd = desc["builds"][build]
    ws, seq = bd["win_start"], bd["win_seq"]
    inside = []
    for pos, op in variants:
        lo, hi = pos, pos + 1
        if op.startswith("del"):
            hi = pos + len(op[3:].split("ins")[0])
        elif ">" in op:
            hi = pos + len(op.split(">")[0])
        if a <= lo and hi <= b:
            inside.append((pos, op))
    alt, ins = _edit_tables(desc, build, inside)
    flat = []
    for i in range(a, b):
        x = alt.get(i)
        if x is None:
            flat.append((seq[i - ws], i, "M"))
        elif x != "":
            flat.append((x, i, "M"))
        for c in ins.get(i, ""):
            flat.append((c, i, "I"))
    return flat


def _pieces(desc, build, spec, kind):
    """reference intervals making up one copy; each piece is (a, b, carries_gene_variants)"""
    bd = desc["builds"][build]
    ws, we = bd["win_start"], bd["win_start"] + len(bd["win_seq"])
    gs, ge = bd["gene_span"]
    first = spec.split("#")[0]
    al = desc["alleles"][first]
    akind = al["kind"]
    if kind == "extra":
        assert akind == "normal" and "#" not in spec, "extra copies carry normal alleles"
        return [(gs, ge)]
    if akind == "normal":
        return [(ws, we)]
    if akind == "deletion":
        return [(ws, gs), (ge, we)]
    ps, pe = bd["pseudo_span"]
    g, p = bd["regions"][al["brk"]]
    plus = bd["strand"] == "+"
    if akind == "left_fusion":      # pseudogene regions before brk + gene regions from brk on (transcription order)
        if plus:                    # pseudogene lies at lower coordinates
            return [(ws, p[0]), (g[0], we)]
        return [(ws, g[1]), (p[1], we)]
    if akind == "right_fusion":     # whole pseudogene + gene regions before brk + one more copy of the pseudogene regions from brk on
        if plus:                    # [flank P spacer G<brk] + [P>=brk] + [right flank]
            return [(ws, g[0]), (p[0], pe), (ge, we)]
        return [(ws, gs), (ps, p[1]), (g[1], we)]
    raise ValueError(akind)


def _cigar(entries):
    """entries: list of (base, ref, kind) of one read inside one piece -> (ref_start, cigartuples, seq) or None"""
    first = next((k for k, e in enumerate(entries) if e[2] == "M"), None)
    if first is None:
        return None
    last = max(k for k, e in enumerate(entries) if e[2] == "M")
    ops = []

    def push(op, n):
        if n <= 0:
            return
        if ops and ops[-1][0] == op:
            ops[-1][1] += n
        else:
            ops.append([op, n])

    push(4, first)
    prev = None
    for k in range(first, last + 1):
        base, ref, kind = entries[k]
        if kind == "M":
            if prev is not None and ref - prev - 1 > 0:
                push(2, ref - prev - 1)
            push(0, 1)
            prev = ref
        else:
            push(1, 1)
    push(4, len(entries) - 1 - last)
    return entries[first][1], [tuple(o) for o in ops], "".join(e[0] for e in entries)


def _expected_region_cn(desc, build, copies):
    bd = desc["builds"][build]
    out = {}
    for r, (g, p) in bd["regions"].items():
        res = []
        for iv in (g, p):
            if iv is None:
                res.append(None)
                continue
            ln = iv[1] - iv[0]
            cov = sum(max(0, min(b, iv[1]) - max(a, iv[0])) for pcs in copies for a, b in pcs)
            res.append(cov / ln if ln else 0.0)
        out[r] = res
    return out


# ----------------------------------------------------------------------------------------------------------------------
def simulate(desc, build, alleles, structure, L, step, out_bam, rng, noise=None, sq_detect=True, background=None, paired=False):
    import pysam
    from gendb import allele_genome_variants
    bd = desc["builds"][build]
    if structure is None:
        structure = ["hap" if i < 2 else "extra" for i in range(len(alleles))]
    assert len(structure) == len(alleles)
    gs, ge = bd["gene_span"]
    recs, copies = [], []
    for ci, (spec, kind) in enumerate(zip(alleles, structure)):
        pcs = _pieces(desc, build, spec, kind)
        bg = (background.get(ci, []) if isinstance(background, dict) else background) or []
        variants = allele_genome_variants(desc, build, spec) + [tuple(v) for v in bg]
        copies.append([(a, b) for a, b in pcs])
        flat, cuts = [], []
        for a, b in pcs:
            # gene variants apply wherever the piece overlaps the gene span (they are anchored inside it)
            flat += haplotype(desc, build, variants, a, b)
            cuts.append(len(flat))
        n = len(flat)
        s0 = rng.randrange(step)
        first = s0
        while first - step > -L:
            first -= step
        starts = range(first, n, step)
        bounds = [0] + cuts
        k = 0
        for s in starts:
            if s + L <= 0:
                continue
            lo, hi = max(0, s), min(n, s + L)
            for pi in range(len(cuts)):
                a, b = max(lo, bounds[pi]), min(hi, bounds[pi + 1])
                if a >= b:
                    continue
                c = _cigar(flat[a:b])
                if c is None:
                    continue
                k += 1
                recs.append({"name": f"c{ci}_{k}", "start": c[0], "cigar": c[1], "seq": c[2], "mapq": 60, "qual": [40] * len(c[2]),
                             "origin": s})
    if paired:
        # read pairs: the read tiled at s and the read tiled at s + L of the same copy are the two mates of one fragment (one query name,
        # flags first / second in pair); reads without a partner stay single
        by = {}
        for r in recs:
            by.setdefault((r["name"].split("_")[0], r["origin"]), []).append(r)
        used = set()
        for (cp, s0), rs in sorted(by.items()):
            if (cp, s0) in used or (cp, s0 + L) not in by or (cp, s0 + L) in used or len(rs) != 1 or len(by[(cp, s0 + L)]) != 1:
                continue
            a, b = rs[0], by[(cp, s0 + L)][0]
            a["name"] = b["name"] = f"{cp}_p{s0}"
            a["flag"], b["flag"] = 0x1 | 0x2 | 0x40, 0x1 | 0x2 | 0x80
            used.update({(cp, s0), (cp, s0 + L)})
    if noise:
        recs = _apply_noise(recs, noise, rng)
    recs.sort(key=lambda r: (r["start"], r["name"]))
    sq = [{"SN": bd["chr"], "LN": bd["chrom_len"]}]
    if sq_detect and bd["chr"] != "1":
        sq.append({"SN": "1", "LN": HG_LEN[build]})
    header = {"HD": {"VN": "1.6", "SO": "coordinate"}, "SQ": sq}
    with pysam.AlignmentFile(out_bam, "wb", header=header) as f:
        for r in recs:
            a = pysam.AlignedSegment(f.header)
            a.query_name = r["name"]
            a.flag = r.get("flag", 0)
            a.reference_id = 0
            a.reference_start = r["start"]
            a.mapping_quality = r["mapq"]
            a.cigartuples = r["cigar"]
            a.query_sequence = r["seq"]
            a.query_qualities = pysam.qualitystring_to_array("".join(chr(33 + q) for q in r["qual"]))
            f.write(a)
    pysam.index(out_bam)
    return {"reads": len(recs), "depth": L / step, "copies": copies, "expected_region_cn": _expected_region_cn(desc, build, copies)}


def _apply_noise(recs, noise, rng):
    out = []
    sub = noise.get("sub_rate", 0.0)
    lowq = noise.get("lowq_frac", 0.0)
    lowmq = noise.get("lowmapq_frac", 0.0)
    clip = noise.get("softclip_frac", 0.0)
    drop = noise.get("drop_frac", 0.0)
    skew = noise.get("skew", [])
    holes = noise.get("holes", [])

    def ref_end(r):
        return r["start"] + sum(n for op, n in r["cigar"] if op in (0, 2, 7, 8))
    for r in recs:
        if any(r["start"] < b and ref_end(r) > a for a, b in holes):
            continue
        if drop and rng.random() < drop:
            continue
        keep = True
        for a, b, p in skew:
            if a <= r["start"] < b and rng.random() >= p:
                keep = False
        if not keep:
            continue
        r = dict(r)
        seq, qual = list(r["seq"]), list(r["qual"])
        if sub:
            for i in range(len(seq)):
                if rng.random() < sub:
                    seq[i] = rng.choice([c for c in "ACGT" if c != seq[i]])
                    if rng.random() < 0.3:
                        qual[i] = rng.randint(2, 30)
        if lowq:
            for i in range(len(seq)):
                if rng.random() < lowq:
                    qual[i] = rng.randint(2, 9)
        if lowmq and rng.random() < lowmq:
            r["mapq"] = rng.randint(0, 9)
        cig = [list(c) for c in r["cigar"]]
        if clip and rng.random() < clip and len(seq) > 40:
            k = rng.randint(3, 15)
            if rng.random() < 0.5 and cig[0][0] == 0 and cig[0][1] > k:
                cig[0][1] -= k
                cig.insert(0, [4, k])
                r["start"] += k
            elif cig[-1][0] == 0 and cig[-1][1] > k:
                cig[-1][1] -= k
                cig.append([4, k])
        r["seq"], r["qual"], r["cigar"] = "".join(seq), qual, [tuple(c) for c in cig]
        out.append(r)
    return out


# ----------------------------------------------------------------------------------------------------------------------
def make_profile(desc, yaml_path, build, L, step, out_dir, rng, kind="yaml", name=None):
    from aldy.common import GRange
    bd = desc["builds"][build]
    name = name or f"prof_{build}"
    bam = os.path.join(out_dir, f"{name}.bam")
    simulate(desc, build, ["1.001", "1.001"], ["hap", "hap"], L, step, bam, rng)
    cn = GRange(bd["neutral"][0], bd["neutral"][1], bd["neutral"][2])
    if kind == "bam":
        return {"profile": bam, "cn_region": cn, "bam": bam}
    import yaml
    from aldy.gene import Gene
    from aldy.profile import Profile
    gene = Gene(yaml_path, genome=build)
    regions = {(gene.name, r, gi): rng_ for gi, gr in enumerate(gene.regions) for r, rng_ in gr.items()}
    data = Profile.get_sam_profile_data(bam, regions=regions, cn_region=cn, genome=build)
    path = os.path.join(out_dir, f"{name}.profile.yml")
    with open(path, "w") as f:
        yaml.dump(data, f, default_flow_style=None)
    return {"profile": path, "cn_region": None, "bam": bam}


def genotype_kwargs(desc, build, prof):
    return {"profile_name": prof["profile"], "cn_region": prof["cn_region"], "genome": build}
