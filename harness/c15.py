"""C15 — calls are backed by high-quality reads; low-quality reads are ignored.

Correspondence : Coverage.filtered(Coverage.quality_filter), the two-step filter of major._filter_alleles, Coverage.basic_filter,
                 coverage()/total()  vs  coq/theories/Filter.v (positions left empty by a filter are dropped on both sides)
Predicate      : (i) metamorphic, on the implementation: inserting / removing / altering observations below min_quality or
                 min_mapq at any site (incl. new cells and new sites) changes neither estimate_major nor estimate_minor results
                 or scores; (ii) supported-ness of every core variant of every called major allele, every novel variant and
                 every variant a refined (minor) allele is reported to carry — Filter.supported evaluated in Coq on the raw
                 evidence, and recomputed independently in Python; (iii) no called allele has a core variant without
                 qualifying support.
The minor stage has its own model elsewhere (C04); here it is exercised metamorphically, plus its evidence filter (Filter.v)."""
import collections, copy, json, os, time
from concurrent.futures import ThreadPoolExecutor
from fractions import Fraction as F
import common
from common import cz, cq, cstr, clist, cbool
import c02

IMPORTS = ["Base", "Consts", "Lp", "Filter", "MajorModel", "MajorSpec", "Consts_here"]
MAPQS = [0, 3, 9, 10, 20, 39, 40, 60]
BASEQS = [0, 2, 9, 10, 19, 20, 30, 40]


# ------------------------------------------------------------------------------------------------
# generators
# ------------------------------------------------------------------------------------------------
def thresholds(rng):
    if rng.random() < 0.5:
        return 10, 10
    return rng.choice([0, 5, 10, 20, 30]), rng.choice([0, 10, 20, 40])


def good_obs(rng, minq, minm):
    return [rng.choice([m for m in MAPQS if m >= minm] or [60]), rng.choice([q for q in BASEQS if q >= minq] or [40])]


def low_obs(rng, minq, minm):
    """an observation below at least one threshold, or None when the thresholds admit none"""
    lq = [q for q in BASEQS if q < minq]
    lm = [m for m in MAPQS if m < minm]
    if not lq and not lm:
        return None
    k = rng.random()
    if lq and (not lm or k < 0.45):
        return [rng.choice(MAPQS), rng.choice(lq)]
    if lm and (not lq or k < 0.9):
        return [rng.choice(lm), rng.choice(BASEQS)]
    return [rng.choice(lm), rng.choice(lq)]


def is_low(o, minq, minm):
    return o[1] < minq or o[0] < minm


def cell_obs(rng, n_good, n_low, minq, minm):
    l = [good_obs(rng, minq, minm) for _ in range(n_good)]
    for _ in range(n_low):
        o = low_obs(rng, minq, minm)
        if o is not None:
            l.insert(rng.randint(0, len(l)), o)
    return l


def to_runs(l):
    out = []
    for o in l:
        if out and out[-1][0] == o[0] and out[-1][1] == o[1]:
            out[-1][2] += 1
        else:
            out.append([o[0], o[1], 1])
    return out


def from_runs(runs):
    return [[m, q] for m, q, n in runs for _ in range(n)]


def perturb(rng, table, minq, minm, new_ops, new_positions):
    """table2 = table with sub-threshold observations inserted / removed / altered anywhere; cells and sites with only such
    observations added or removed. Returns (table2, list of edit kinds)."""
    kinds = collections.Counter()
    t2 = []
    for pos, ops in table:
        ops2 = []
        for op, runs in ops:
            l = from_runs(runs)
            if l and all(is_low(o, minq, minm) for o in l) and rng.random() < 0.4:
                kinds["cell-removed"] += 1
                continue
            out = []
            for o in l:
                if is_low(o, minq, minm):
                    r = rng.random()
                    if r < 0.35:
                        kinds["removed"] += 1
                        continue
                    if r < 0.7:
                        o2 = low_obs(rng, minq, minm)
                        if o2 is not None:
                            kinds["altered"] += 1
                            o = o2
                out.append(o)
            for _ in range(rng.choice([0, 0, 1, 2, 5])):
                o = low_obs(rng, minq, minm)
                if o is not None:
                    out.insert(rng.randint(0, len(out)), o)
                    kinds["inserted"] += 1
            ops2.append([op, to_runs(out)])
        present = {op for op, _ in ops2}
        for op in new_ops:
            if op not in present and rng.random() < 0.25:
                o = [low_obs(rng, minq, minm) for _ in range(rng.randint(1, 4))]
                if all(x is not None for x in o):
                    ops2.insert(rng.randint(0, len(ops2)), [op, to_runs(o)])
                    kinds["cell-added"] += 1
        t2.append([pos, ops2])
    have = {p for p, _ in t2}
    for pos in new_positions:
        if pos not in have and rng.random() < 0.3:
            o = [low_obs(rng, minq, minm) for _ in range(rng.randint(1, 3))]
            if all(x is not None for x in o):
                t2.insert(rng.randint(0, len(t2)), [pos, [[rng.choice(new_ops), to_runs(o)]]])
                kinds["site-added"] += 1
    return t2, dict(kinds)


def gen_mixed(rng, k, stream, gene, genomes, yaml_text=None, cn_list=None):
    cases = []
    for _ in range(k):
        genome = rng.choice(genomes)
        g = c02.load_gene(gene, genome, yaml_text)
        sites = sorted((int(p), o) for p, o in g.mutations)
        minq, minm = thresholds(rng)
        if cn_list is not None:
            cn = list(rng.choice(cn_list))
        else:
            cfgs, other = c02.cn_choices(g)
            cn = sorted((rng.choice(other) if (other and rng.random() < 0.3) else "1") for _ in range(rng.choice([1, 2, 2, 2, 3, 4])))
        d = rng.choice([8, 10, 12, 20])
        tab = collections.OrderedDict()
        order = list(sites)
        rng.shuffle(order)
        for (pos, op) in order:
            if rng.random() < 0.6:
                kk = rng.choice([0, 1, 1, 2, 3])
                c = int(d * kk * rng.uniform(0.8, 1.2))
                nl = rng.choice([0, 0, 1, 3])
                if c or nl:
                    tab.setdefault(pos, []).append([op, to_runs(cell_obs(rng, c, nl, minq, minm))])
        for pos in sorted({p for p, _ in sites}):
            if rng.random() < 0.9:
                c = int(d * rng.choice([0, 1, 2, 3]) * rng.uniform(0.8, 1.2))
                tab.setdefault(pos, []).insert(rng.randint(0, len(tab.get(pos, []))),
                                               ["_", to_runs(cell_obs(rng, c, rng.choice([0, 1, 4]), minq, minm))])
        prof_thr = None
        if rng.random() < 0.35:
            # sites on the edge of the single-copy fraction threshold: a catalogued variant whose share of ALL qualifying reads of the
            # site is just below (or exactly at) threshold / (copies + 0.5), next to stray single good reads of other bases - the share
            # is taken of the whole site, whatever the noise cut-off removes first
            prof_thr = rng.choice(["0.5", "0.5", "0.35", "0.8"])
            t = F(prof_thr) / (F(len(cn)) + F(1, 2))
            for (pos, op) in rng.sample(order, min(len(order), rng.choice([1, 2, 3]))):
                if op.startswith("ins") or op.startswith("del") or len(op) != 3:
                    continue
                n = rng.randint(15, 40)
                v = -(-(t * n).numerator // (t * n).denominator)           # least count with v / n >= t
                strays = [o for o in ("A>C", "A>G", "A>T", "C>A", "C>G", "C>T", "G>A", "G>C", "G>T", "T>A", "T>C", "T>G")
                          if o[0] == op[0] and o != op and (pos, o) not in sites]
                k = 0
                while F(v, n + k) >= t and k < len(strays):
                    k += 1
                if rng.random() < 0.3:
                    k = max(0, k - 1)                                    # exactly at / just above the threshold
                cells = [["_", to_runs(cell_obs(rng, n - v, rng.choice([0, 2]), minq, minm))], [op, to_runs(cell_obs(rng, v, 0, minq, minm))]]
                cells += [[o, to_runs(cell_obs(rng, 1, 0, minq, minm))] for o in strays[:k]]
                rng.shuffle(cells)
                tab[pos] = [cl for cl in cells if cl[1]]
        table = [[p, [cl for cl in ops if cl[1]]] for p, ops in tab.items()]
        indels = None
        if rng.random() < 0.15:
            indels = [[pos, op, rng.choice([0, d, 2 * d]), rng.choice([0, d, d, 2 * d])] for (pos, op) in sites
                      if op.startswith("ins") or op.startswith("del")] or None
        prof = dict(c02.DEFAULT_PROFILE)
        prof["min_quality"], prof["min_mapq"] = str(minq), str(minm)
        prof["gap"] = rng.choice(["0", "0", "0.1"])
        if rng.random() < 0.25:
            prof["threshold"] = rng.choice(["0.2", "0.35", "0.5", "0.8"])
            prof["min_coverage"] = rng.choice(["1", "2", "5"])
        if prof_thr is not None:
            prof["threshold"] = prof_thr
            prof["min_coverage"] = "2"          # a single stray read fails the noise cut-off
        other_ops = ["A>C", "T>G", "G>T", "delA", "insG"] + [op for _, op in sites] + ["_"]
        newpos = [p + dd for p, _ in sites for dd in (1, 2, -1)]
        t2, kinds = perturb(rng, table, minq, minm, other_ops, newpos)
        c = {"stream": stream, "gene": gene, "genome": genome, "cn": cn, "table": table, "table2": t2, "indels": indels,
             "profile": prof, "edits": kinds,
             # the quality thresholds reach the profile AFTER the coverage object exists (what genotype() does for a debug archive:
             # the pickled profile is loaded with the sample, then the user's --param values are applied to it)
             "late_thresholds": rng.random() < 0.25}
        if yaml_text:
            c["db_yaml"] = yaml_text
        cases.append(c)
    return cases


def gen_toy(rng, k):
    return gen_mixed(rng, k, "toy", "TOY", ["hg19", "hg19", "hg38"], cn_list=c02.TOY_CN)


def gen_generated(rng, n_db, per_db):
    import gendb
    cases = []
    for i in range(n_db):
        text, desc = gendb.generate(rng, name="GEN", n_alleles=rng.randint(3, 7), simulation_friendly=(i % 2 == 0))
        cases += gen_mixed(rng, per_db, "generated", "GEN", ["hg19", "hg38"], yaml_text=text)
    return cases


def gen_shipped(rng, genes, per_gene):
    """planted pairs with one minor allele each, good reads of depth d per copy, plus sub-threshold noise; perturbed"""
    cases = []
    for name, genome in genes:
        g = c02.load_gene(name, genome)
        majors = sorted(g.alleles)
        for _ in range(per_gene):
            minq, minm = thresholds(rng)
            pl = sorted(rng.choice(majors) for _ in range(rng.choice([1, 2, 2])))
            cn = [g.alleles[n].cn_config for n in pl]
            d = rng.choice([10, 14, 20])
            chosen = []
            for n in pl:
                mi = rng.choice(sorted(g.alleles[n].minors))
                chosen.append((n, set(g.alleles[n].func_muts) | set(g.alleles[n].minors[mi].neutral_muts)))
            poss = sorted({m[0] for _, ms in chosen for m in ms})
            table = []
            for pos in poss:
                cnt = collections.OrderedDict()
                for n, ms in chosen:
                    if not g.has_coverage(n, pos):
                        continue
                    here = sorted(m[1] for m in ms if m[0] == pos)
                    nonins = [o for o in here if not o.startswith("ins")]
                    for o in (nonins[:1] or ["_"]):
                        cnt[o] = cnt.get(o, 0) + d
                    for o in here:
                        if o.startswith("ins"):
                            cnt[o] = cnt.get(o, 0) + d
                ops = [[o, to_runs(cell_obs(rng, c, rng.choice([0, 0, 2]), minq, minm))] for o, c in cnt.items()]
                if ops:
                    table.append([pos, ops])
            prof = dict(c02.DEFAULT_PROFILE)
            prof["min_quality"], prof["min_mapq"] = str(minq), str(minm)
            allops = sorted({m[1] for m in g.mutations})[:8] + ["_"]
            newpos = [m[0] for m in list(g.mutations)[:6]]
            t2, kinds = perturb(rng, table, minq, minm, allops, newpos)
            cases.append({"stream": "shipped", "gene": name, "genome": genome, "cn": cn, "table": table, "table2": t2,
                          "indels": None, "profile": prof, "edits": kinds, "planted": pl})
    return cases


# ------------------------------------------------------------------------------------------------
# implementation side
# ------------------------------------------------------------------------------------------------
def canon_cov(C):
    tab = [[int(p), [[op, [[int(m), int(q)] for m, q in l]] for op, l in ops.items()]] for p, ops in C._coverage.items() if ops]
    ind = [[int(k[0]), k[1], int(v[0]), int(v[1])] for k, v in (C._indels or {}).items()]
    return [tab, ind]


def run_stages(case, table_key):
    """major and minor stage of the real implementation on one of the two tables"""
    from aldy.major import estimate_major, _filter_alleles
    from aldy.minor import estimate_minor
    from aldy.solutions import CNSolution
    from aldy.coverage import Coverage
    c = dict(case)
    c["table"] = case[table_key]
    g = c02.case_gene(c)
    if case.get("late_thresholds"):
        p0 = dict(c["profile"], min_quality="0", min_mapq="0")
        prof = c02.make_profile(p0)
        C = c02.make_coverage(c, g, prof)
        prof.update({"min_quality": c["profile"]["min_quality"], "min_mapq": c["profile"]["min_mapq"]})
    else:
        prof = c02.make_profile(c["profile"])
        C = c02.make_coverage(c, g, prof)
    cns = CNSolution(g, 0, list(c["cn"]))
    sols = estimate_major(g, C, cns, "any")
    major = sorted((round(float(s.score), 9), tuple(sorted(a.major for a, k in s.solution.items() for _ in range(k))),
                    tuple(sorted((int(m[0]), m[1]) for m in s.added))) for s in sols)
    minor = []
    minor_objs = []
    if sols:
        ms = estimate_minor(g, C, sols, "any")
        minor_objs = ms
        minor = sorted((round(float(m.score), 9),
                        tuple(sorted((a.major, a.minor, tuple(sorted((int(x[0]), x[1]) for x in a.added)),
                                      tuple(sorted((int(x[0]), x[1]) for x in a.missing))) for a in m.solution))) for m in ms)
    cov1 = C.filtered(Coverage.quality_filter)
    _, cov2 = _filter_alleles(g, C, cns)
    return {"major": major, "minor": minor, "g": g, "C": C, "cns": cns, "prof": prof, "cov1": cov1, "cov2": cov2,
            "sols": sols, "minor_objs": minor_objs}


def carried_variants(g, ms):
    """variants the refined alleles of a minor solution are reported to carry"""
    out = set()
    for a in ms.solution:
        muts = set((int(m[0]), m[1]) for m in g.alleles[a.major].func_muts)
        muts |= set((int(m[0]), m[1]) for m in g.alleles[a.major].minors[a.minor].neutral_muts)
        muts |= set((int(m[0]), m[1]) for m in a.added)
        muts -= set((int(m[0]), m[1]) for m in a.missing)
        out |= muts
    return out


# ------------------------------------------------------------------------------------------------
# evaluation
# ------------------------------------------------------------------------------------------------
def d_cover(v):
    tab = [[p, [[common.dstr(op), [[m, q] for m, q in l]] for op, l in ops]] for p, ops in v[0]]
    ind = [[m[0], common.dstr(m[1]), a, b] for m, a, b in v[1]]
    return [tab, ind]


def evaluate(chk, cases):
    t0 = time.time()
    runs = []
    for c in cases:
        runs.append((run_stages(c, "table"), run_stages(c, "table2")))
    t1 = time.time()
    groups = collections.OrderedDict()
    for i, c in enumerate(cases):
        groups.setdefault(id(runs[i][0]["g"]), []).append(i)
    jobs = []
    extra = {}
    for gi, (key, idxs) in enumerate(groups.items()):
        tag = f"G{gi}"
        g = runs[idxs[0]][0]["g"]
        pre = c02.gene_defs(g, tag)
        terms = []
        for i in idxs:
            a, b = runs[i]
            # variants whose support is asserted: core variants of called majors, novel variants, carried by refined alleles
            called = sorted({(int(m[0]), m[1]) for s in a["sols"] for al in s.solution for m in g.alleles[al.major].func_muts})
            novel = sorted({(int(m[0]), m[1]) for s in a["sols"] for m in s.added})
            carried = sorted(set().union(*[carried_variants(g, ms) for ms in a["minor_objs"]])) if a["minor_objs"] else []
            cells = [(p, op) for p, ops in a["cov1"]._coverage.items() for op in ops][:10] + list((a["C"]._indels or {}).keys())[:3]
            cns = a["cns"]
            bf = []
            for m in cells:
                for cn in (None, a["prof"].cn_max, cns.position_cn(m[0]) + 0.5):
                    bf.append((m, cn))
            extra[i] = (called, novel, carried, cells, bf)
            I1 = c02.inst_text(tag, g, a["C"], cns, a["prof"])
            t2 = c02.ctable(b["C"]._coverage)
            ml = lambda l: clist(l, c02.cmut)
            qn = lambda x: cq(F(repr(x)) if isinstance(x, float) else F(x))
            terms.append(
                "(let I := " + I1 + " in let J := set_tab I " + t2 + " in let p := i_par I in "
                "let q1 := filtered_q p (i_cover I) in let q2 := filtered_q p (i_cover J) in "
                "OL [o_bool (inst_wf I && inst_wf J); o_cover q1; o_cover (mcov I); o_cover q2; o_cover (mcov J); "
                "o_list o_bool (map (supported p (pcn I) (i_cover I)) " + ml(called + novel + carried) + "); "
                "o_list (fun m => OL [OZ (coverage q1 m); OZ (total q1 m)]) " + ml(cells) + "; "
                "o_list o_bool " + clist(bf, lambda mc: f"basic_filter p q1 {c02.cmut(mc[0])} {qn(0 if mc[1] is None else mc[1])}") + "; "
                "o_bool (Qeqb 0 0)])")
        jobs.append((idxs, pre, terms))
    results = [None] * len(cases)

    def work(job):
        idxs, pre, terms = job
        return idxs, common.coq_eval(IMPORTS, terms, shard=max(4, min(30, (len(terms) + 7) // 8)), jobs=8, preamble=pre)
    with ThreadPoolExecutor(max_workers=4) as ex:
        for idxs, vals in ex.map(work, jobs):
            for i, v in zip(idxs, vals):
                results[i] = v
    t2_ = time.time()
    chk.notes.append(f"[C15] implementation {t1 - t0:.1f}s, model evaluation {t2_ - t1:.1f}s for {len(cases)} cases")
    for i, c in enumerate(cases):
        judge(chk, c, runs[i], results[i], extra[i])


def py_supported(ps, cns, m, prof):
    """independent recomputation of Filter.supported from the raw dictionaries (PySpec keeps the quality-filtered counts)"""
    fr = lambda x: F(repr(x)) if isinstance(x, float) else F(x)
    cov, tot = ps.qcov(m), ps.qtot(m)
    thr, minc, cnmax = fr(prof.threshold), fr(prof.min_coverage), fr(prof.cn_max)
    ok = cov > 0 and cov >= minc and cov >= tot * thr / (cnmax if cnmax != 0 else 1)
    if m[1] != "_":
        ok = ok and cov >= tot * thr / (F(cns.position_cn(m[0])) + F(1, 2))
    return ok


def judge(chk, c, ab, v, ex):
    a, b = ab
    called, novel, carried, cells, bf = ex
    wf, q1, m1, q2, m2, sup, acc, bfv, _ = v
    g, prof, cns = a["g"], a["prof"], a["cns"]
    stream = c["stream"]
    small = {k: c[k] for k in ("stream", "gene", "genome", "cn", "profile", "edits") if k in c}
    edits = sum(c.get("edits", {}).values())
    chk.case(stream, c, nontrivial=bool(edits and a["major"]),
             sample={**small, "major": a["major"][:3], "minor": a["minor"][:2]})
    for k, n in c.get("edits", {}).items():
        chk.count(stream, "edit:" + k, n)
    chk.count(stream, f"min_quality={c['profile']['min_quality']},min_mapq={c['profile']['min_mapq']}")
    if not a["major"]:
        chk.count(stream, "no-major-solution")
    desc = {"stream": stream, "gene": c["gene"], "genome": c["genome"]}
    if not wf:
        chk.mismatch("instance-well-formed", small, "inst_wf = false", "serialised Gene/Coverage")
    # ---- correspondence: filters and accessors
    for name, mv, iv in (("Coverage.filtered(quality_filter)~Filter.filtered_q", q1, a["cov1"]),
                         ("_filter_alleles~Filter.major_cov", m1, a["cov2"]),
                         ("Coverage.filtered(quality_filter)~Filter.filtered_q", q2, b["cov1"]),
                         ("_filter_alleles~Filter.major_cov", m2, b["cov2"])):
        dm, di = d_cover(mv), canon_cov(iv)
        if dm != di:
            chk.mismatch(name, small, dm, di)
    from aldy.gene import Mutation
    for m, (cv_, tt) in zip(cells, acc):
        mu = Mutation(m[0], m[1])
        if a["cov1"].coverage(mu) != cv_ or a["cov1"].total(mu) != tt:
            chk.mismatch("Coverage.coverage/total~Filter.coverage/total", small, [m, cv_, tt], [a["cov1"].coverage(mu), a["cov1"].total(mu)])
    for (m, cn), val in zip(bf, bfv):
        iv = bool(a["cov1"].basic_filter(Mutation(m[0], m[1]), cn=cn))
        if iv != bool(val):
            chk.mismatch("Coverage.basic_filter~Filter.basic_filter", small, [m, cn, bool(val)], iv)
    # the conclusion of C15_filtered_ignores_lowq on this pair (the generator builds table2 from table by sub-threshold edits)
    if q1 != q2 or m1 != m2:
        chk.mismatch("generator:table2-is-a-sub-threshold-perturbation", small, "filtered tables differ", c.get("edits"))
    # ---- predicate (i): metamorphic on the implementation
    if a["major"] != b["major"]:
        chk.fail("major-ignores-lowq", desc, c, a["major"][:6], b["major"][:6])
    if a["minor"] != b["minor"]:
        chk.fail("minor-ignores-lowq", desc, c, a["minor"][:4], b["minor"][:4])
    # ---- predicate (ii): supported-ness, Coq (Filter.supported) and Python
    ps = c02.PySpec(g, a["C"], cns, prof)
    allm = called + novel + carried
    kinds = ["called-core-supported"] * len(called) + ["novel-supported"] * len(novel) + ["carried-supported"] * len(carried)
    for m, kind, s in zip(allm, kinds, sup):
        pyok = py_supported(ps, cns, m, prof)
        if not s or not pyok:
            chk.fail(kind, dict(desc, source=("coq+python" if (not s and not pyok) else ("coq" if not s else "python"))), c,
                     {"variant": m, "qualifying_reads": float(ps.qcov(m)), "site_total": float(ps.qtot(m))},
                     {"major": a["major"][:3], "minor": a["minor"][:2]})
    chk.count(stream, "variants-checked-for-support", len(allm))
    # ---- predicate (iii): no called allele has a core variant without qualifying support
    for s in a["sols"]:
        for al in s.solution:
            for m in g.alleles[al.major].func_muts:
                if ps.qcov((int(m[0]), m[1])) <= 0:
                    chk.fail("unsupported-called", desc, c, {"allele": al.major, "variant": [int(m[0]), m[1]]}, a["major"][:3])


def run(chk):
    chk.rule = ("streams: generated = the same on consistent random gene databases of harness/gendb.py; toy = random tables on the TOY gene (both builds, structures incl. fusions/deletion) with observations of "
                "mixed mapping/base quality and thresholds from the documented ranges, paired with a perturbation by sub-threshold "
                "observations (inserted, removed, altered at any site; cells and sites of sub-threshold observations only added or "
                "removed); shipped = planted major/minor pairs of small shipped genes with the same kind of noise. "
                "non-trivial = at least one sub-threshold edit and at least one major solution; distinct = distinct case data")
    chk.extra_trusted = ["harness/c02.py serialiser of aldy's Gene/Coverage/CNSolution objects",
                         "CBC through OR-Tools inside estimate_major / estimate_minor"]
    chk.assumptions = ["the read-level phase information of a real sample (Sample.phases) is not part of the evidence table; the "
                       "metamorphic cases run the stages on Coverage objects without a Sample, as the unit tests do",
                       "the indel table comes from the realigner, which receives the thresholds itself; sub-threshold observations "
                       "are quantified over the per-base table only"]
    chk.build()
    if not chk.model_available():
        chk.notes.append("[C15] model did not build; no evaluation possible")
        return
    q = chk.tier == "quick"
    rng = chk.rng
    cases = []
    corpus = os.path.join(common.VERIF, "corpus", "C15.json")
    if os.path.exists(corpus):
        cases += json.load(open(corpus))
    cases += gen_toy(rng, 150 if q else 2000)
    cases += gen_generated(rng, 6 if q else 50, 8 if q else 16)
    small = [n for n in c02.shipped_genes() if n not in ("cyp2d6", "dpyd", "ryr1", "g6pd", "cftr")]
    if q:
        genes = [(n, rng.choice(["hg19", "hg38"])) for n in rng.sample(small, 6)]
        cases += gen_shipped(rng, genes, 4)
    else:
        cases += gen_shipped(rng, [(n, b) for n in small for b in ("hg19", "hg38")], 12)
    evaluate(chk, cases)


def replay(chk, path):
    r = json.load(open(path))
    chk.build()
    evaluate(chk, [r["case"]])
    for f in chk.failures:
        print("still failing:", f["clause"], json.dumps(f["expected"], default=str)[:400])
    for k, n, d in chk.broken:
        print("broken:", k, n)
    bad = bool(chk.failures)
    print("REPLAY", "FAILS" if bad else "passes")
    return 1 if bad else 0
