"""shipdesc.py - a simulator description (the `desc` shape of gendb.py / simreads.py) for a SHIPPED gene database without pseudogene
and without structural alleles: the genome window is aldy's own genome-oriented RefSeq (Gene._lookup_seq) with random flanks and a
copy-number-neutral stretch placed next to it; alleles are the catalogue's minor alleles with their variants exactly as aldy stores
them (genome coordinates, genome-strand operations).  Used by the end-to-end checks to simulate error-free reads of catalogued
genotypes of real databases (C01 "small shipped genes")."""
import os, random

SMALL = ["nudt15", "cyp1a1", "cyp2a13", "cyp1a2", "cyp2f1", "ifnl3", "nat2", "cyp2w1", "gstp1", "cyp2e1"]


def desc_from_gene(name, build, seed=0):
    from aldy.gene import Gene
    from aldy.common import script_path
    path = script_path(f"aldy.resources.genes/{name}.yml")
    g = Gene(path, genome=build)
    assert len(g.regions) == 1 and len(g.cn_configs) == 1, "genes with a pseudogene / structural alleles are not handled"
    lo, hi = g._lookup_range
    assert hi - lo == len(g._lookup_seq)
    assert hi - lo == len(g.chr_to_ref), "gapped RefSeq alignment"
    rng = random.Random(f"{name}/{build}/{seed}")
    r_lo = min(r.start for r in g.regions[0].values())
    r_hi = max(r.end for r in g.regions[0].values())
    flank = 900
    nlen, gap = 600, 700
    ws = min(lo, r_lo) - flank
    we = max(hi, r_hi) + gap + nlen + flank
    rand = lambda n: "".join(rng.choice("ACGT") for _ in range(n))
    win = list(rand(we - ws))
    seq = g._lookup_seq
    win[lo - ws:hi - ws] = [c if c in "ACGT" else rng.choice("ACGT") for c in seq]
    neutral = [g.chr, max(hi, r_hi) + gap, max(hi, r_hi) + gap + nlen]
    alleles, balleles = {}, {}
    for an, a in g.alleles.items():
        for mn, mi in a.minors.items():
            vs = sorted((m.pos, m.op) for m in (a.func_muts | mi.neutral_muts))
            alleles[mn] = {"kind": "normal", "brk": None, "major": an, "variants": [[p, o, "-", None] for p, o in vs], "label": None,
                           "functional": sorted([m.pos, m.op] for m in a.func_muts)}
            balleles[mn] = [[p, o] for p, o in vs]
    ref = [mn for mn, v in balleles.items() if not v]
    assert ref, "no reference allele in the catalogue"
    if "1.001" not in alleles:
        alleles["1.001"] = dict(alleles[ref[0]])
        balleles["1.001"] = []
    b = {"chr": g.chr, "strand": "+" if g.strand > 0 else "-", "chrom_len": we + 5000, "win_start": ws, "win_seq": "".join(win),
         "regions": {r: [[x.start, x.end], None] for r, x in g.regions[0].items()}, "gene_span": [min(lo, r_lo), max(hi, r_hi)],
         "pseudo_span": None, "locus": [min(lo, r_lo), max(hi, r_hi)], "neutral": neutral, "refmap_low": lo, "alleles": balleles}
    desc = {"name": g.name, "pseudogene": None, "friendly": False, "alleles": alleles, "builds": {build: b}, "shipped": name,
            "reference_allele": ref[0]}
    return path, desc, g


def simulable(desc, build, minor):
    """can the read simulator express this allele?  (every variant inside the window sequence, reference alleles agree, at most one
    edit per base)"""
    import simreads
    try:
        simreads._edit_tables(desc, build, [tuple(v) for v in desc["builds"][build]["alleles"][minor]])
        return True
    except AssertionError:
        return False
