"""C13 — calls do not depend on genome build or gene strand.   (partial: see coq/props/C13.v)

Two-build differential on the IMPLEMENTATION:
  shipped    every shipped gene, hg19 vs hg38: planted (+ multiplicative noise) evidence tables written in RefSeq terms and placed into
             both builds through the catalogue's own RefSeq <-> genome maps; the three stages (copy number from planted region depths,
             major, minor) are run on both and compared
  generated  gendb.py databases whose two builds use the same or opposite strands and different offsets (friendly, and adversarial:
             a substitution and a longer deletion at the same RefSeq base): alignments are simulated against EACH build from the same
             planted haplotypes (simreads.py) and the real genotype() is run on both
Clauses: cn-equal, major-equal, minor-equal, scores-equal, variants-refseq-equal (added / lost variants compared in RefSeq terms).

Correspondence with coq/theories/Transport.v: the decidable hypotheses of the equivariance theorem (injective_b, site_preserving_b)
are evaluated in Coq on the variant transport of every database pair and compared with the harness's own computation; the theorem
applies where they hold, the differential decides everywhere."""
import collections, json, os, random, sys, tempfile, time, traceback
from fractions import Fraction
import common
from common import cz, clist

IMPORTS = ["Base", "Consts", "Transport"]
TOL = 1e-6
SCORE_RESOLUTION = 0.009          # just below aldy.common.SOLUTION_PRECISION: the construction-order tie-breaker lives below it
NOISE = [0]


# ====================================================================================================================
# results in build-independent (RefSeq) terms
# ====================================================================================================================
def refseq_of(gene, m):
    """catalogue variant -> (RefSeq position, RefSeq operation) as written in the database; others -> position through the map"""
    info = gene.mutations.get((m.pos, m.op))
    if info is not None:
        return ["db", info[3], info[4]]
    op = gene._reverse_op(m.op) if gene.strand < 0 else m.op
    return ["novel", gene.chr_to_ref.get(m.pos), op]


def canon_solution(gene, m):
    """MinorSolution -> build-independent record"""
    ms = m.major_solution
    return {
        "cn": sorted([k, v] for k, v in ms.cn_solution.solution.items()),
        "cn_score": ms.cn_solution.score,
        "major": sorted([sa.major, n] for sa, n in ms.solution.items()),
        "major_added": sorted(refseq_of(gene, x) for x in ms.added),
        "major_score": ms.score,
        "minor": sorted([sa.major, sa.minor] for sa in m.solution),
        "variants": sorted([sa.major, sa.minor, sorted(refseq_of(gene, x) for x in sa.added), sorted(refseq_of(gene, x) for x in sa.missing)] for sa in m.solution),
        "score": m.score,
    }


def close(a, b):
    if abs(a - b) <= TOL + 1e-9 * max(abs(a), abs(b)):
        return True
    if abs(a - b) < SCORE_RESOLUTION:
        NOISE[0] += 1
        return True
    return False


def compare(ra, rb):
    """two lists of canonical solutions (or error strings) -> {clause: difference text}"""
    out = {}
    if isinstance(ra, str) or isinstance(rb, str):
        if ra != rb:
            out["cn-equal"] = f"outcome: {str(ra)[:120]} vs {str(rb)[:120]}"
        return out

    def proj(r, keys):
        return sorted(json.dumps([s[k] for k in keys], sort_keys=True) for s in r)
    if proj(ra, ["cn"]) != proj(rb, ["cn"]):
        out["cn-equal"] = f"structures {sorted(set(proj(ra, ['cn'])))} vs {sorted(set(proj(rb, ['cn'])))}"
    if proj(ra, ["cn", "major", "major_added"]) != proj(rb, ["cn", "major", "major_added"]):
        out["major-equal"] = f"{proj(ra, ['major', 'major_added'])[:3]} vs {proj(rb, ['major', 'major_added'])[:3]}"
    if proj(ra, ["cn", "major", "minor"]) != proj(rb, ["cn", "major", "minor"]):
        out["minor-equal"] = f"{proj(ra, ['minor'])[:3]} vs {proj(rb, ['minor'])[:3]}"
    if proj(ra, ["variants"]) != proj(rb, ["variants"]):
        out["variants-refseq-equal"] = f"{proj(ra, ['variants'])[:2]} vs {proj(rb, ['variants'])[:2]}"
    sa = sorted([s["cn_score"], s["major_score"], s["score"]] for s in ra)
    sb = sorted([s["cn_score"], s["major_score"], s["score"]] for s in rb)
    if len(sa) != len(sb) or not all(close(x, y) for p, q in zip(sa, sb) for x, y in zip(p, q)):
        out["scores-equal"] = f"(cn, major, minor) scores {sa[:3]} vs {sb[:3]}"
    return out


def classify(ra, rb, diffs):
    """tie-assignment: same structures and major alleles, scores equal at aldy's resolution, only the placement of variants on
    copies / choice of sub-alleles differs; different-optimum: anything else"""
    if isinstance(ra, str) or isinstance(rb, str):
        return "different-outcome"
    if set(diffs) == {"scores-equal"}:
        return "scores-only"
    if "scores-equal" in diffs or "cn-equal" in diffs or "major-equal" in diffs:
        return "calls-differ"
    return "tie-assignment"


# ====================================================================================================================
# transports, evaluated by the harness and by the Coq model
# ====================================================================================================================
def transport_pairs(ga, gb):
    """catalogue variants present in both builds, paired through their RefSeq description"""
    ka = {(v[3], v[4]): m for m, v in ga.mutations.items()}
    kb = {(v[3], v[4]): m for m, v in gb.mutations.items()}
    keys = sorted(set(ka) & set(kb), key=str)
    return [(k, ka[k], kb[k]) for k in keys], len(set(ka) ^ set(kb))


def py_hypotheses(pairs):
    inj = len({b for _, _, b in pairs}) == len({a for _, a, _ in pairs})
    sp = True
    by_a, by_b = collections.defaultdict(set), collections.defaultdict(set)
    for i, (_, a, b) in enumerate(pairs):
        by_a[a[0]].add(i)
        by_b[b[0]].add(i)
    sp = sorted(map(sorted, by_a.values())) == sorted(map(sorted, by_b.values()))
    return inj, sp


def coq_hypotheses_term(pairs):
    ops = {}

    def oid(o):
        return ops.setdefault(o, len(ops) + 1)
    m = clist(pairs, lambda p: f"(({cz(p[1][0])}, {oid(p[1][1])}), ({cz(p[2][0])}, {oid('B' + p[2][1])}))")
    return (f"(let m := {m} in let tr := fun v => match alookup veqb v m with Some w => w | None => v end in "
            f"OL [o_bool (injective_b tr (map fst m)); o_bool (site_preserving_b tr (map fst m))])")


def same_site_sub_and_del(gene):
    """a substitution and a longer deletion / multi-base substitution starting at the same RefSeq base"""
    by = collections.defaultdict(list)
    for (pos, op), info in gene.mutations.items():
        rp, rop = info[3], info[4]
        if rop.startswith("ins"):
            continue
        ln = len(rop.split(">")[0]) if ">" in rop else len(rop[3:].split("ins")[0])
        by[rp].append(ln)
    return any(len(set(v)) > 1 for v in by.values())


# ====================================================================================================================
# stage-level differential on planted tables (shipped genes)
# ====================================================================================================================
def make_coverage(gene, table, region_cov):
    from aldy.profile import Profile
    from aldy.coverage import Coverage
    from aldy.sam import Sample
    cov = collections.defaultdict(dict)
    for (pos, op), c in table.items():
        if c > 0:
            cov[pos][op] = [(60, 60)] * c
    c = Coverage(gene, Profile("test"), None, cov, None, {})
    c.sam = Sample.__new__(Sample)
    c.sam.phases = {}
    c.sam._fusion_counter = {}
    c.sam.is_long_read = False
    c.sam.name = "planted"
    c._region_coverage = dict(region_cov)
    return c


def divergent_keys(ga, gb):
    """RefSeq keys of catalogue variants whose genome position carries a DIFFERENT region label in the two builds (the two region
    tables are independent data): the sites where a decision keyed on region names can depend on the build"""
    kb = {(v[3], v[4]): m for m, v in gb.mutations.items()}
    out = []
    for m, v in ga.mutations.items():
        mb = kb.get((v[3], v[4]))
        if mb is None:
            continue
        ra, rb = ga.region_at(m[0]), gb.region_at(mb[0])
        if (ra[1] if ra else None) != (rb[1] if rb else None):
            out.append((v[3], v[4]))
    return sorted(out, key=str)


def plant(rng, ga, gb=None):
    """a planted sample in RefSeq terms: structure, alleles (major, minor), depth, noise factors; optionally catalogue variants
    the copy's allele does not have (novel to the allele: `extra`) and silent variants of the allele left out (`drop`)"""
    from aldy.gene import CNConfigType
    structure = ["1", "1"]
    if ga.do_copy_number and rng.random() < 0.4:
        others = [k for k, c in ga.cn_configs.items() if c.kind == CNConfigType.DELETION]
        structure = rng.choice([["1", "1", "1"], ["1"] + (others[:1] or ["1"]), ["1", "1"]])
    copies = []
    pool = [(a, mi) for a, al in ga.alleles.items() if al.cn_config == "1" for mi in al.minors]
    for s in structure:
        if s == "1":
            copies.append(rng.choice(pool))
    plan = {"structure": structure, "copies": copies, "depth": rng.choice([20, 30, 40]), "noise": rng.choice([0.0, 0.0, 0.05, 0.1]),
            "nseed": rng.randrange(2 ** 30), "extra": [], "drop": []}
    if gb is not None and copies and rng.random() < 0.6:
        kb = {(v[3], v[4]) for v in gb.mutations.values()}
        both = {(v[3], v[4]): m for m, v in ga.mutations.items() if (v[3], v[4]) in kb}
        div = [k for k in divergent_keys(ga, gb) if k in both]
        subs = [k for k in both if ">" in k[1] and len(k[1]) == 3]
        for _ in range(rng.choice([1, 1, 2])):
            ci = rng.randrange(len(copies))
            a, mi = copies[ci]
            have = set(ga.alleles[a].func_muts) | set(ga.alleles[a].minors[mi].neutral_muts)
            taken = {m.pos for m in have} | {both[tuple(x[1:])][0] for x in plan["extra"] if x[0] == ci}
            # sites whose region label differs between the builds first, then any catalogued substitution
            cand = [k for k in (div if div and rng.random() < 0.7 else subs) if both[k][0] not in taken and not k[1].startswith("del")]
            if cand:
                k = rng.choice(cand)
                plan["extra"].append([ci, k[0], k[1]])
        if rng.random() < 0.3:
            ci = rng.randrange(len(copies))
            a, mi = copies[ci]
            neutral = [ga.mutations[(m.pos, m.op)] for m in ga.alleles[a].minors[mi].neutral_muts if (m.pos, m.op) in ga.mutations]
            neutral = [(v[3], v[4]) for v in neutral if (v[3], v[4]) in both]
            if neutral:
                k = rng.choice(sorted(neutral, key=str))
                plan["drop"].append([ci, k[0], k[1]])
    return plan


def table_for(gene, plan, refkey_of_site):
    """ideal pileup counts of the planted copies in this build (+ noise factors drawn per RefSeq key, so both builds get the same)"""
    d = plan["depth"]
    copies = []
    by_ref = {(v[3], v[4]): m for m, v in gene.mutations.items()}
    for ci, (a, mi) in enumerate(plan["copies"]):
        al = gene.alleles[a]
        vs = set((m.pos, m.op) for m in set(al.func_muts) | set(al.minors[mi].neutral_muts))
        for cj, rp, rop in plan.get("extra", []):
            if cj == ci and (rp, rop) in by_ref:
                vs.add(by_ref[rp, rop])
        for cj, rp, rop in plan.get("drop", []):
            if cj == ci and (rp, rop) in by_ref:
                vs.discard(by_ref[rp, rop])
        copies.append((a, vs))
    sites = sorted({pos for (pos, _) in gene.mutations})
    table = {}

    def factor(key):
        r = random.Random(f"{plan['nseed']}/{key}")
        return 1.0 + r.uniform(-plan["noise"], plan["noise"]) if plan["noise"] else 1.0
    for (pos, op), info in gene.mutations.items():
        k = sum(1 for _, vs in copies if (pos, op) in vs)
        if k:
            table[pos, op] = int(round(d * k * factor(("v", info[3], info[4]))))
    for pos in sites:
        k = 0
        for a, vs in copies:
            if not gene.has_coverage(a, pos):
                continue
            if any(p == pos and not o.startswith("ins") for p, o in vs):
                continue
            k += 1
        if k:
            table[pos, "_"] = int(round(d * k * factor(("r", refkey_of_site(pos)))))
    region_cov = {}
    for gi, gr in enumerate(gene.regions):
        for r in gr:
            region_cov[gi, r] = float(sum(gene.cn_configs[c].cn[gi][r] for c in plan["structure"]))
    return table, region_cov


def run_stages(gene, cov):
    from aldy.cn import estimate_cn
    from aldy.major import estimate_major
    from aldy.minor import estimate_minor
    from aldy.common import AldyException, SOLUTION_PRECISION
    try:
        cns = estimate_cn(gene, cov.profile, cov, "any")
        cns = sorted(cns, key=lambda m: (int(1000 * m.score), m._solution_nice()))
        if not cns:
            return "no-cn-solution"
        mn = min(c.score for c in cns)
        majors = []
        for i, c in enumerate(cns):
            for s in estimate_major(gene, cov, c, "any", identifier=i):
                s.score += c.score - mn
                majors.append(s)
        if not majors:
            return "no-major-solution"
        mm = min(m.score for m in majors)
        majors = sorted([m for m in majors if m.score - mm < SOLUTION_PRECISION], key=lambda m: (int(1000 * m.score), m._solution_nice()))
        minors = estimate_minor(gene, cov, majors, "any")
        if not minors:
            return "no-minor-solution"
        return [canon_solution(gene, m) for m in minors]
    except AldyException as e:
        return "error: " + str(e).split("\n")[0][:100]


def shipped_stream(chk, n_per_gene, budget_s):
    from aldy.gene import Gene
    from aldy.common import script_path
    import pkg_resources
    rng = chk.rng
    names = sorted(i[:-4] for i in pkg_resources.resource_listdir("aldy.resources", "genes") if i.endswith(".yml"))
    rng.shuffle(names)
    # genes in which the two builds give some catalogued variant site a different region label come first (only an ordering hint,
    # observed on the shipped resources; what is planted is decided by divergent_keys() at run time)
    first = [n for n in ("ugt1a1", "slco1b1", "nudt15", "cyp3a7", "cyp2c19", "cyp3a4", "nat2", "cyp2d6") if n in names]
    names = first[:4] + [n for n in names if n not in first[:4]]
    t0 = time.time()
    hyp_terms, hyp_py, hyp_genes = [], [], []
    for n in names:
        if time.time() - t0 > budget_s:
            chk.count("shipped", "genes-skipped-for-time")
            continue
        path = script_path(f"aldy.resources.genes/{n}.yml")
        ga, gb = Gene(path, genome="hg19"), Gene(path, genome="hg38")
        pairs, only_one = transport_pairs(ga, gb)
        inj, sp = py_hypotheses(pairs)
        chk.count("shipped", "genes")
        chk.count("shipped", f"strands:{'same' if ga.strand == gb.strand else 'opposite'}")
        chk.count("shipped", f"site_preserving:{sp}")
        if only_one:
            chk.count("shipped", "variants-present-in-one-build-only", only_one)
        if len(pairs) <= 200:
            hyp_terms.append(coq_hypotheses_term(pairs))
            hyp_py.append([int(inj), int(sp)])
            hyp_genes.append(n)
        site_key_a = lambda pos, g=ga: g.chr_to_ref.get(pos)
        site_key_b = lambda pos, g=gb: g.chr_to_ref.get(pos)
        big = len(ga.alleles) > 150
        div = divergent_keys(ga, gb)
        bothk = {(v[3], v[4]): m for m, v in ga.mutations.items()}
        from aldy.gene import Mutation as _Mut
        div_sub = sorted([k for k in div if k in bothk and ">" in k[1] and len(k[1]) == 3],
                         key=lambda k: (not ga.is_functional(_Mut(*bothk[k])), str(k)))
        forced = div_sub[:2] if not big else div_sub[:1]
        for k in range((1 if big else n_per_gene) + len(forced)):
            plan = plant(rng, ga, gb)
            if k < len(forced) and plan["copies"]:
                # a catalogued substitution at a site the two builds label differently, novel to copy 0 (function-altering ones first)
                a0, mi0 = plan["copies"][0]
                have = {(m.pos, m.op) for m in set(ga.alleles[a0].func_muts) | set(ga.alleles[a0].minors[mi0].neutral_muts)}
                if bothk[forced[k]] not in have and bothk[forced[k]][0] not in {p for p, _ in have}:
                    plan["extra"] = [[0, forced[k][0], forced[k][1]]]
                    plan["noise"] = 0.0
            ta, rca = table_for(ga, plan, site_key_a)
            tb, rcb = table_for(gb, plan, site_key_b)
            ra = run_stages(ga, make_coverage(ga, ta, rca))
            rb = run_stages(gb, make_coverage(gb, tb, rcb))
            diffs = compare(ra, rb)
            case = {"gene": n, "plan": plan}
            chk.count("shipped", "plans-with-extra-variants" if plan["extra"] else "plans-exact")
            if any(tuple(x[1:]) in set(divergent_keys(ga, gb)) for x in plan["extra"]):
                chk.count("shipped", "plans-with-extra-variant-at-a-site-labelled-differently")
            chk.case("shipped", case, nontrivial=not isinstance(ra, str) and bool(plan["copies"]),
                     sample={"gene": n, "plan": plan, "hg19": ra if isinstance(ra, str) else ra[:1]})
            for cl, txt in diffs.items():
                chk.fail(cl, {"db": "shipped", "gene": n, "strands": "same" if ga.strand == gb.strand else "opposite",
                              "site_preserving": sp, "same_site_sub_and_del": same_site_sub_and_del(ga),
                              "difference": classify(ra, rb, diffs)}, case, "equal in both builds", txt)
    return hyp_terms, hyp_py, hyp_genes


# ====================================================================================================================
# end-to-end differential on generated databases (simulated alignments against each build)
# ====================================================================================================================
def gen_case(rng, k):
    strands = rng.choice(["+-", "-+", "+-", "-+", "++", "--"])
    friendly = rng.random() < 0.6
    return {"id": k, "dbseed": rng.randrange(2 ** 30), "strands": strands, "friendly": friendly,
            "pseudogene": rng.random() < 0.5, "deletion": rng.random() < 0.5, "L_step": rng.choice([[60, 3], [100, 5], [120, 4], [100, 4], [60, 2]]),
            "n_copies": rng.choice([2, 2, 2, 3, 1]), "profile": rng.choice(["yaml", "bam"]),
            # mirrored: the reads simulated against hg19 are re-expressed against hg38 (shifted / reverse-complemented, CIGAR reversed):
            # literally the same evidence.  independent: reads are tiled against each build separately (read ends fall differently,
            # so indel evidence at read ends differs slightly): only for friendly databases
            "evidence": "mirrored" if (not friendly or rng.random() < 0.6) else "independent", "phase": rng.random() < 0.6,
            # adversarial databases contain indel configurations on which the vendored realigner is known to be fragile (DESIGN.md
            # section 5 item 6); most of them are therefore also run with aldy's own CIGAR-based indel counting (indelpost=false)
            "indelpost": True if friendly else (rng.random() < 0.3),
            # read pairs (two mates share one fragment name, hence one phase record)
            "paired": rng.random() < 0.4}


def mirror_bam(desc, bam_a, bam_b0, out, pad):
    """hg38 alignment file carrying the SAME reads over the locus as the hg19 file: locus reads of hg19 are moved (same strand) or
    reverse-complemented with reversed CIGAR (opposite strands); reads away from the locus (neutral region) are those tiled on hg38"""
    import pysam
    a, b = desc["builds"]["hg19"], desc["builds"]["hg38"]
    (la, ea), (lb, eb) = a["locus"], b["locus"]
    T = ea - la
    assert eb - lb == T
    flip = a["strand"] != b["strand"]
    comp = {"A": "T", "C": "G", "G": "C", "T": "A", "N": "N"}
    fa, fb = pysam.AlignmentFile(bam_a), pysam.AlignmentFile(bam_b0)
    hdr = fb.header
    rid = fb.get_tid(b["chr"])
    recs = []
    for r in fb.fetch(until_eof=True):
        if r.reference_name == b["chr"] and r.reference_end > lb - pad and r.reference_start < eb + pad:
            continue
        recs.append((r.reference_id, r.reference_start, r.to_dict()))
    k = 0
    for r in fa.fetch(until_eof=True):
        if not (r.reference_name == a["chr"] and r.reference_end > la - pad and r.reference_start < ea + pad):
            continue
        n = pysam.AlignedSegment(hdr)
        n.query_name = r.query_name if r.is_paired else f"m{k}"      # mates keep their common fragment name
        k += 1
        n.flag = (r.flag & (0x1 | 0x2 | 0x40 | 0x80)) if r.is_paired else 0
        n.reference_id = rid
        n.mapping_quality = r.mapping_quality
        q = list(r.query_qualities)
        if flip:
            n.query_sequence = "".join(comp[c] for c in reversed(r.query_sequence))
            n.reference_start = lb + T - (r.reference_end - la)
            n.cigartuples = list(reversed(r.cigartuples))
            n.query_qualities = pysam.qualitystring_to_array("".join(chr(x + 33) for x in reversed(q)))
        else:
            n.query_sequence = r.query_sequence
            n.reference_start = lb + (r.reference_start - la)
            n.cigartuples = r.cigartuples
            n.query_qualities = pysam.qualitystring_to_array("".join(chr(x + 33) for x in q))
        recs.append((rid, n.reference_start, n.to_dict()))
    recs.sort(key=lambda x: (x[0], x[1]))
    with pysam.AlignmentFile(out, "wb", header=hdr) as f:
        for _, _, dd in recs:
            f.write(pysam.AlignedSegment.from_dict(dd, hdr))
    fa.close()
    fb.close()
    pysam.index(out)


def e2e_worker(case):
    """runs in a forked child: database, two simulated samples (one per build), genotype() on each"""
    import gendb, simreads
    from aldy.genotype import genotype
    from aldy.gene import Gene
    from aldy.common import AldyException
    common.quiet_aldy()
    rng = random.Random(case["dbseed"])
    out = {"case": case}
    with tempfile.TemporaryDirectory(dir=common.SCRATCH, prefix="c13_") as d:
        kinds = {"snp": 5, "mnp": 1, "ins": 2, "del": 3}
        if case.get("plant_delins"):
            # deletion-insertions: the shipped loader refuses them on a minus-strand database (gene.py _reverse_op asserts), so on the
            # unchanged tree these cases are skipped; a tree that accepts them has to place them at the same RefSeq site in both builds
            kinds = {"snp": 4, "del": 1, "delins": 4}
        y, desc = gendb.write_db(d, rng, name="GEN", strands=case["strands"], simulation_friendly=case["friendly"], pseudogene=case["pseudogene"],
                                 deletion=case["deletion"], fusions=("left",) if case.get("plant_brk") else (), n_alleles=rng.choice([4, 5, 6]),
                                 length=rng.choice([300, 400, 500]), kinds=({"snp": 8} if case.get("plant_union") else kinds),
                                 **({"union": True} if case.get("plant_union") else {}))
        fusion_spec = None
        if case.get("plant_brk"):
            # a fusion whose gene part starts at region R, and an allele defined by a substitution on the FIRST base of R (transcription
            # order): whether the fusion's partial allele keeps that variant is decided by the region label of a region-border base,
            # which is the first base of its genome interval on one strand and the last on the other
            N = len(desc["refseq"])
            F = next((a for a, v in desc["alleles"].items() if v["kind"] == "left_fusion"), None)
            if F is None:
                return dict(out, skipped="no-fusion")
            brk = desc["alleles"][F]["brk"]
            b0 = desc["builds"]["hg19"]
            gs, ge = b0["regions"][brk][0]
            first = gs if b0["strand"] == "+" else ge - 1
            i = next((k for k in range(N) if gendb._to_genome(b0, N, k, "A>C")[0] == first), None)
            if i is None or any(abs(v[0] - i) < 4 for v in desc["variants"]):
                return dict(out, skipped="no-room-at-breakpoint")
            ref = desc["refseq"][i]
            sop = f"{ref}>{[c for c in 'ACGT' if c != ref][case['dbseed'] % 3]}"
            desc["alleles"]["83.001"] = {"kind": "normal", "brk": None, "variants": [[i, sop, "-", "functional"]], "label": None,
                                         "major": "83", "functional": [[i, sop]]}
            for b in desc["builds"].values():
                b["alleles"]["83.001"] = [list(gendb._to_genome(b, N, i, sop))]
            open(y, "w").write(gendb._yaml(desc))
            fusion_spec = F + "#83.001"
        if case.get("plant_same_site"):
            # DESIGN.md section 5 item 10: one allele with a substitution, one with a longer deletion starting at the same RefSeq base
            N = len(desc["refseq"])
            dels = [v for v in desc["variants"] if v[1].startswith("del") and "ins" not in v[1] and len(v[1]) - 3 >= 2]
            if not dels:
                return dict(out, skipped="no-deletion-in-pool")
            i, dop = dels[0][0], dels[0][1]
            ref = desc["refseq"][i]
            sop = f"{ref}>{[c for c in 'ACGT' if c != ref][case['dbseed'] % 3]}"
            for nm, op in (("80.001", sop), ("81.001", dop)):
                desc["alleles"][nm] = {"kind": "normal", "brk": None, "variants": [[i, op, "-", "functional"]], "label": None,
                                       "major": nm.split(".")[0], "functional": [[i, op]]}
                for b in desc["builds"].values():
                    b["alleles"][nm] = [list(gendb._to_genome(b, N, i, op))]
            open(y, "w").write(gendb._yaml(desc))
        if case.get("plant_edge"):
            N = len(desc["refseq"])
            i = N - 1
            ref = desc["refseq"][i]
            sop = f"{ref}>{[c for c in 'ACGT' if c != ref][case['dbseed'] % 3]}"
            desc["alleles"]["82.001"] = {"kind": "normal", "brk": None, "variants": [[i, sop, "-", "functional"]], "label": None,
                                         "major": "82", "functional": [[i, sop]]}
            for b in desc["builds"].values():
                b["alleles"]["82.001"] = [list(gendb._to_genome(b, N, i, sop))]
            open(y, "w").write(gendb._yaml(desc))
        try:
            # the generator's description against what Gene() loads: a discrepancy means the generator and the loader read the database
            # differently, and the case is skipped - except for the deletion-insertion cases, where the unchanged loader agrees with
            # the generator on both strands: there the two builds are compared whatever the loader makes of the database
            if gendb.selfcheck(y, desc) and not case.get("plant_delins"):
                return dict(out, skipped="selfcheck")
        except AssertionError:
            if case.get("plant_delins"):
                return dict(out, skipped="loader-rejects-delins-on-this-strand")
            raise
        norm = [a for a, v in desc["alleles"].items() if v["kind"] == "normal"]
        dele = [a for a, v in desc["alleles"].items() if v["kind"] == "deletion"]
        if case["n_copies"] == 1 and dele:
            alleles = [rng.choice(norm), dele[0]]
        else:
            alleles = [rng.choice(norm) for _ in range(max(2, case["n_copies"]))]
        if case.get("plant_delins"):
            wd = [a for a in norm if any("ins" in v[1] and v[1].startswith("del") for v in desc["alleles"][a]["variants"])]
            if not wd:
                return dict(out, skipped="no-delins-allele")
            alleles = [rng.choice(wd), rng.choice(norm)]
        if case.get("plant_same_site"):
            alleles = ["80.001", "81.001"]
        elif case.get("plant_edge"):
            alleles = ["82.001"] + alleles[1:]
        elif fusion_spec:
            alleles = [fusion_spec, rng.choice(["1.001", "83.001"])]
        elif case.get("plant_union"):
            # two majors whose second sub-alleles share ONE silent variant: which copy carries it is decided by the read-phase term
            # alone (coverage explains *1.002/*2.001 and *1.001/*2.002 equally well)
            if "1.002" not in desc["alleles"] or "2.002" not in desc["alleles"]:
                return dict(out, skipped="no-shared-silent-sub-allele")
            alleles = ["1.002", "2.001"] if case["plant_union"] == 1 else ["1.001", "2.002"]
        out["alleles"] = alleles
        kinds_planted = {("ins" if v[1].startswith("ins") else "del" if v[1].startswith("del") else "sub") for al in alleles for part in al.split("#") for v in desc["alleles"][part]["variants"]}
        out["planted_has_insertion"] = "ins" in kinds_planted
        out["planted_has_deletion"] = "del" in kinds_planted
        L, step = case["L_step"]
        res, genes, calls, bams, profs = {}, {}, {}, {}, {}
        for build in ("hg19", "hg38"):
            bd = os.path.join(d, build)
            os.makedirs(bd)
            g = Gene(y, genome=build)
            genes[build] = g
            bam = os.path.join(bd, "s.bam")
            simreads.simulate(desc, build, alleles, None, L, step, bam, random.Random(case["dbseed"] + 1), paired=bool(case.get("paired")))
            if build == "hg38" and case.get("evidence", "independent") == "mirrored":
                conv = os.path.join(bd, "m.bam")
                mirror_bam(desc, os.path.join(d, "hg19", "s.bam"), bam, conv, L)
                bam = conv
            prof = simreads.make_profile(desc, y, build, L, step, bd, random.Random(case["dbseed"] + 2), kind=case["profile"])
            def call(phase, g=g, bam=bam, prof=prof, build=build):
                try:
                    r = genotype(y, bam, output_file=None, phase=phase, indelpost=bool(case.get("indelpost", True)),
                                 **simreads.genotype_kwargs(desc, build, prof))
                    return [canon_solution(g, m) for sols in r.values() for m in sols]
                except AldyException as e:
                    return "error: " + str(e).split("\n")[0][:100]
            calls[build] = call
            bams[build], profs[build] = bam, prof
            res[build] = call(bool(case.get("phase", True)))
        out["equal_with_phase_off"] = None
        out["calls_equal_with_phase_off"] = None
        if case.get("phase", True) and compare(res["hg19"], res["hg38"]):
            # is the phase term the only thing that differs?  (observed fact about this input, recorded in the description)
            off = compare(calls["hg19"](False), calls["hg38"](False))
            out["equal_with_phase_off"] = not off
            # ... or at least the only thing that changes the CALLS (the scores may still differ for the indel-support reason)?
            out["calls_equal_with_phase_off"] = set(off) <= {"scores-equal"}
        # when the two builds disagree: is it already the EVIDENCE the loader builds that differs (support of the catalogued variants
        # and the indel table, expressed through the RefSeq descriptions aldy stores), or do the stages differ on equal evidence?
        out["evidence_equal"] = None
        if compare(res["hg19"], res["hg38"]):
            try:
                from aldy.sam import Sample
                from aldy.profile import Profile
                from aldy.gene import Mutation as _M
                ev = {}
                for build in ("hg19", "hg38"):
                    g = genes[build]
                    kw = simreads.genotype_kwargs(desc, build, profs[build])
                    P = Profile.load(g, kw["profile_name"], kw.get("cn_region"), phase=False, indelpost=bool(case.get("indelpost", True)))
                    smp = Sample(g, P, bams[build])
                    ev[build] = {str((v[3], v[4])): [int(smp.coverage.coverage(_M(*m))), int(smp.coverage.total(_M(*m)))] for m, v in g.mutations.items()}
                out["evidence_equal"] = ev["hg19"] == ev["hg38"]
            except Exception:   # noqa
                out["evidence_equal"] = None
        pairs, only_one = transport_pairs(genes["hg19"], genes["hg38"])
        inj, sp = py_hypotheses(pairs)
        # observed fact about the vendored realigner (aldy/indelpost, DESIGN.md 8.4): its reference count for an indel changes when the
        # variant lies 0..48 bases after a power of ten of the genome coordinate (same reads, same padded reference, only the offset
        # differs: 14 vs 10 reference reads).  Recorded per build so that the finding is matched by this fact and nothing else
        def near_pow10(g):
            return any(
                -2 <= pos - 10 ** k <= 52 for (pos, op) in {(m.pos, m.op) for a in g.alleles.values() for mi in a.minors.values()
                                                            for m in list(a.func_muts) + list(mi.neutral_muts)}
                if op.startswith("ins") or op.startswith("del") for k in range(2, 10))
        out["indel_after_power_of_ten"] = [near_pow10(genes["hg19"]), near_pow10(genes["hg38"])]
        # do two different variants of the planted alleles share a genome site in one build only?  (an insertion or a multi-base deletion
        # is anchored at the other end of its footprint on the minus strand, so it can land on the site of a neighbouring substitution)
        def merged(build):
            n = len(desc["refseq"])
            vs = sorted({(v[0], v[1]) for al in alleles for part in al.split("#") for v in desc["alleles"][part]["variants"]})
            def foot(v):
                p, op = gendb._to_genome(desc["builds"][build], n, v[0], v[1])
                ln = len(op[3:].split("ins")[0]) if op.startswith("del") else (len(op.split(">")[0]) if ">" in op else 1)
                return (p, p + max(1, ln))
            fp = {v: foot(v) for v in vs}
            # two variants meet when the footprints (deleted / substituted bases; the keyed base of an insertion) overlap
            return sorted([list(a), list(b)] for i, a in enumerate(vs) for b in vs[i + 1:] if fp[a][0] < fp[b][1] and fp[b][0] < fp[a][1])
        out["planted_site_merge_differs"] = merged("hg19") != merged("hg38")
        out.update(res=res, inj=inj, sp=sp, only_one=only_one, term=coq_hypotheses_term(pairs) if len(pairs) <= 200 else None,
                   same_site=same_site_sub_and_del(genes["hg19"]), planted_same_site=bool(case.get("plant_same_site")))
        return out


def generated_stream(chk, n, timeout_s):
    import multiprocessing as mp
    rng = chk.rng
    cases = [gen_case(rng, k) for k in range(n)]
    # the adversarial shape is drawn often enough by itself; make sure at least a few opposite-strand adversarial databases are there
    for k in range(min(4, n)):
        cases[k].update(strands=rng.choice(["+-", "-+"]), friendly=False, evidence="mirrored")
    for k in range(min(8, n)):      # the planted same-site pair: 6 opposite-strand databases, 2 same-strand controls
        c = gen_case(rng, f"same-site-{k}")
        c.update(strands=rng.choice(["+-", "-+"]) if k < 6 else rng.choice(["++", "--"]), friendly=(k % 2 == 0), evidence="mirrored",
                 plant_same_site=True, n_copies=2, phase=(k % 3 == 0), indelpost=(k % 2 == 0))
        cases.append(c)
    for k in range(min(4, n)):
        # an allele defined by a substitution on the LAST base of the RefSeq mapping (the first aligned genome base on one strand, the
        # last on the other): the borders of the RefSeq window are where the coordinate handling of the two builds differs
        c = gen_case(rng, f"edge-{k}")
        c.update(strands=["+-", "-+", "++", "--"][k], friendly=True, plant_edge=True, n_copies=2, indelpost=(k % 2 == 0))
        cases.append(c)
    for k in range(min(4, n)):
        c = gen_case(rng, f"brk-{k}")
        c.update(strands=["+-", "-+", "++", "--"][k], friendly=True, plant_brk=True, pseudogene=True, deletion=False, n_copies=2, indelpost=(k % 2 == 0), evidence="mirrored")
        cases.append(c)
    for k in range(min(3, n)):
        c = gen_case(rng, f"delins-{k}")
        c.update(strands=["+-", "-+", "--"][k], friendly=True, plant_delins=True, pseudogene=False, deletion=False, n_copies=2,
                 indelpost=True, evidence="mirrored", phase=False)
        cases.append(c)
    for k in range(min(4, n)):
        c = gen_case(rng, f"phase-decides-{k}")
        c.update(strands=["+-", "-+", "++", "-+"][k], friendly=True, plant_union=1 + k % 2, pseudogene=False, deletion=False, n_copies=2,
                 indelpost=False, evidence="mirrored", phase=True, paired=True, L_step=[100, 5])
        cases.append(c)
    ctx = mp.get_context("fork")
    results = []
    with ctx.Pool(4, maxtasksperchild=8) as pool:
        handles = [(c, pool.apply_async(e2e_worker, (c,))) for c in cases]
        deadline = time.time() + timeout_s
        for c, h in handles:
            try:
                results.append(h.get(timeout=max(1.0, deadline - time.time())))
            except mp.TimeoutError:
                chk.count("generated", "timeout-not-counted")
            except Exception:
                chk.mismatch("generated-worker", c, None, traceback.format_exc()[-600:])
        pool.terminate()
    hyp_terms, hyp_py, hyp_ids = [], [], []
    for r in results:
        c = r["case"]
        if "skipped" in r:
            chk.count("generated", "skipped:" + r["skipped"])
            continue
        strands = "same" if c["strands"][0] == c["strands"][1] else "opposite"
        chk.count("generated", f"strands:{strands}")
        chk.count("generated", f"site_preserving:{r['sp']}")
        chk.count("generated", f"friendly:{c['friendly']}")
        if r["term"]:
            hyp_terms.append(r["term"])
            hyp_py.append([int(r["inj"]), int(r["sp"])])
            hyp_ids.append(c["id"])
        ra, rb = r["res"]["hg19"], r["res"]["hg38"]
        chk.case("generated", c, nontrivial=not isinstance(ra, str), sample={"case": c, "alleles": r["alleles"], "hg19": ra if isinstance(ra, str) else ra[:1]})
        diffs = compare(ra, rb)
        if c.get("evidence") == "independent":
            diffs.pop("scores-equal", None)        # read ends fall differently in the two tilings: the evidence is only approximately equal
        order = ["cn-equal", "major-equal", "minor-equal", "variants-refseq-equal", "scores-equal"]
        first = [cl for cl in order if cl in diffs][:1]      # the most upstream difference; the later ones are its consequences
        for cl in first:
            txt = diffs[cl] + (f"  [also: {', '.join(x for x in order if x in diffs and x != cl)}]" if len(diffs) > 1 else "")
            chk.fail(cl, {"db": "generated", "strands": strands, "phase": bool(c.get("phase", True)), "indelpost": bool(c.get("indelpost", True)),
                          "planted_has_insertion": r["planted_has_insertion"], "planted_has_deletion": r["planted_has_deletion"],
                          "planted_same_site_sub_and_del": r["planted_same_site"], "planted_site_merge_differs": r["planted_site_merge_differs"],
                          "evidence_equal": r.get("evidence_equal"),
                          "indel_after_power_of_ten_in_one_build": r["indel_after_power_of_ten"][0] != r["indel_after_power_of_ten"][1], "equal_with_phase_off": r.get("equal_with_phase_off"), "calls_equal_with_phase_off": r.get("calls_equal_with_phase_off"), "site_preserving": r["sp"], "same_site_sub_and_del": r["same_site"],
                          "friendly": c["friendly"], "evidence": c.get("evidence"), "difference": classify(ra, rb, diffs)},
                     dict(c, alleles=r["alleles"]), "equal in both builds", txt)
    return hyp_terms, hyp_py, hyp_ids


def run(chk):
    chk.rule = ("shipped: every shipped gene (38), hg19 vs hg38, 1-3 planted samples each (structure, alleles, depth, +-0/5/10% noise drawn "
                "per RefSeq variant so that both builds receive the same evidence), three stages compared; generated: databases with "
                "same/opposite strands, friendly/adversarial, reads simulated against each build from the same haplotypes, genotype() "
                "compared; non-trivial = the hg19 run produced solutions; distinct = distinct (gene or database seed, plan)")
    chk.extra_trusted = ["gendb.py / simreads.py; the RefSeq pairing of catalogue variants uses the (position, operation) text aldy stores "
                         "in Gene.mutations[...][3:5]"]
    chk.assumptions = ["scores equal to 1e-6 abs + 1e-9 rel; differences below aldy's SOLUTION_PRECISION (construction-order tie-breaker "
                       "cnt/1000000) are counted as noise, not failures",
                       "the abstract stage of Transport.v is not tied to the three ILP stages; the differential is what decides"]
    chk.build()
    from aldy.common import SOLUTION_PRECISION
    assert SCORE_RESOLUTION < SOLUTION_PRECISION
    quick = chk.tier == "quick"
    os.makedirs(common.SCRATCH, exist_ok=True)
    t0 = time.time()
    t1, p1, n1 = shipped_stream(chk, 2 if quick else 12, 90 if quick else 900)
    t_sh = time.time() - t0
    t2, p2, n2 = generated_stream(chk, 36 if quick else 400, 110 if quick else 1200)
    chk.notes.append(f"[C13] shipped stream {t_sh:.0f}s, generated stream {time.time() - t0 - t_sh:.0f}s; "
                     f"score differences below the tie-breaker resolution: {NOISE[0]}")
    if chk.model_available() and (t1 + t2):
        vals = common.coq_eval(IMPORTS, t1 + t2, shard=12)
        for v, p, n in zip(vals, p1 + p2, n1 + n2):
            chk.evaluations += 1
            if v != p:
                chk.mismatch("transport-hypotheses", {"database": n}, v, p)
        chk.count("model", "hypotheses-evaluated-in-coq", len(vals))
        chk.count("model", "site_preserving-true", sum(1 for v in vals if v[1]))


def replay(chk, path):
    r = json.load(open(path))
    chk.build()
    case = r["case"]
    os.makedirs(common.SCRATCH, exist_ok=True)
    if "plan" in case:
        from aldy.gene import Gene
        from aldy.common import script_path
        p = script_path(f"aldy.resources.genes/{case['gene']}.yml")
        ga, gb = Gene(p, genome="hg19"), Gene(p, genome="hg38")
        plan = case["plan"]
        plan["copies"] = [tuple(x) for x in plan["copies"]]
        ta, rca = table_for(ga, plan, lambda pos: ga.chr_to_ref.get(pos))
        tb, rcb = table_for(gb, plan, lambda pos: gb.chr_to_ref.get(pos))
        diffs = compare(run_stages(ga, make_coverage(ga, ta, rca)), run_stages(gb, make_coverage(gb, tb, rcb)))
    else:
        c = {k: v for k, v in case.items() if k != "alleles"}
        out = e2e_worker(c)
        diffs = compare(out["res"]["hg19"], out["res"]["hg38"]) if "res" in out else {}
    for cl, txt in diffs.items():
        print("still failing:", cl, txt[:400])
    bad = r["clause"] in diffs
    print("REPLAY", "FAILS" if bad else "passes")
    return 1 if bad else 0
