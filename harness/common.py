"""Shared machinery of every aldy check: Coq build/audit, model evaluation inside Coq (vm_compute),
evidence, known findings, replay files and the decision protocol of DESIGN.md section 2.3.

Run with /venv/bin/python (aldy is an editable install of /repo); PYTHONHASHSEED is fixed by bin/check."""
import fcntl, glob, hashlib, json, os, random, re, shutil, subprocess, sys, tempfile, time
from fractions import Fraction

VERIF = os.path.dirname(os.path.dirname(os.path.abspath(__file__)))
COQ = os.environ.get("VERIF_COQ_DIR", os.path.join(VERIF, "coq"))      # seeded-change runs use a private copy
REPO = os.environ.get("ALDY_REPO", "/repo")                              # ... and a scratch worktree of /repo
OUT = os.environ.get("VERIF_OUT_DIR", VERIF)                             # where evidence/ and replays/ are written
SCRATCH = os.path.join(VERIF, ".scratch")
COQ_FLAGS = ["-Q", "theories", "Aldy", "-Q", "gen", "Aldy", "-Q", "proofs", "Aldy", "-Q", "props", "Aldy"]
FORBIDDEN = re.compile(
    r"\b(Admitted|admit|Axiom|Axioms|Parameter|Parameters|Conjecture|Conjectures|Admit Obligations)\b"
    r"|Unset\s+Guard|bypass_check|Unset\s+Positivity|Unset\s+Universe|type-in-type|impredicative-set|native_compute")
ALLOWED_AXIOMS = set()  # the development is closed under the global context; extend only with stdlib axioms named in DESIGN.md

TRUSTED_BASE = [
    "Coq 8.16.1 kernel (coqc; vm_compute used for consts_wf, finite sweeps, refutation witnesses and model evaluation; no native_compute)",
    "axioms: none expected (Print Assumptions under every property theorem is compared with 'Closed under the global context')",
    "translators harness/gen_consts.py (literals of /repo -> coq/gen/Consts_here.v) and harness/gen_exprs.py (decision expressions -> coq/gen/Exprs_<area>.v, tied to the model by proofs/Tied_<area>.v), both fail-closed",
    "correspondence harness (harness/*.py): generators, adapters calling the implementation, Coq term printer and output parser, canonicalisation",
    "model evaluated inside Coq by Eval vm_compute on generated cases files (no extraction)",
    "modelled rather than verified: the Python code itself; the theorems are about the Gallina model tied to /repo by translator + correspondence",
]


# --------------------------------------------------------------------------------------------
# Coq term printer / output parser
# --------------------------------------------------------------------------------------------
def cz(n):
    n = int(n)
    return str(n) if n >= 0 else f"({n})"


def cnat(n):
    assert 0 <= int(n) < 5000, "nat literal too large"
    return f"{int(n)}%nat"


def cbool(b):
    return "true" if b else "false"


def cq(q):
    q = Fraction(q)
    return f"({q.numerator} # {q.denominator})%Q" if q.numerator >= 0 else f"(({q.numerator}) # {q.denominator})%Q"


def cqf(x, grid=None):
    """a Python float that was produced from a short decimal -> the exact decimal rational"""
    return cq(Fraction(repr(float(x))))


def cstr(t):
    return "[" + "; ".join(str(ord(ch)) for ch in t) + "]"


def clist(xs, f=lambda x: x):
    return "[" + "; ".join(f(x) for x in xs) + "]"


def cpair(a, b):
    return f"({a}, {b})"


def ctuple(*xs):
    return "(" + ", ".join(xs) + ")"


def copt(x, f=lambda x: x):
    return "None" if x is None else f"(Some {f(x)})"


_tok = re.compile(r"OL|OZ|\[|\]|\(|\)|;|-?\d+")


def parse_out(text):
    """parse a printed term of type [out] or [list out] into nested Python lists of ints"""
    text = text.replace("%Z", "")
    toks = _tok.findall(text)
    pos = 0

    def term():
        nonlocal pos
        t = toks[pos]
        if t == "(":
            pos += 1
            v = term()
            assert toks[pos] == ")", toks[pos - 3:pos + 3]
            pos += 1
            return v
        if t == "OZ":
            pos += 1
            v = term()
            return v
        if t == "OL":
            pos += 1
            return lst()
        if t == "[":
            return lst()
        pos += 1
        return int(t)

    def lst():
        nonlocal pos
        assert toks[pos] == "[", toks[pos]
        pos += 1
        out = []
        while toks[pos] != "]":
            out.append(term())
            if toks[pos] == ";":
                pos += 1
        pos += 1
        return out

    v = term()
    return v


def dstr(v):
    return "".join(chr(c) for c in v)


def dq(v):
    return Fraction(v[0], v[1])


def dopt(v, f=lambda x: x):
    return None if not v else f(v[0])


class CoqEvalError(Exception):
    pass


def coq_eval(imports, terms, shard=300, jobs=12, timeout=600, preamble=""):
    """Evaluate Gallina terms of type [out] with vm_compute inside coqc; returns the parsed values in order.
    `imports`: list of module names under Aldy.  Raises CoqEvalError on any coqc failure."""
    if not terms:
        return []
    os.makedirs(SCRATCH, exist_ok=True)
    d = tempfile.mkdtemp(prefix="eval_", dir=SCRATCH)
    try:
        files = []
        for k in range(0, len(terms), shard):
            name = f"Cases{k // shard}"
            path = os.path.join(d, name + ".v")
            with open(path, "w") as f:
                f.write("From Aldy Require Import " + " ".join(imports) + ".\n")
                f.write("Open Scope Z_scope.\n" + preamble + "\n")
                f.write("Definition cases : list out := [\n" + ";\n".join(terms[k:k + shard]) + "\n].\n")
                f.write("Eval vm_compute in cases.\n")
            files.append(path)
        procs, results = [], {}
        pending = list(enumerate(files))
        running = []
        while pending or running:
            while pending and len(running) < jobs:
                i, path = pending.pop(0)
                p = subprocess.Popen(["timeout", str(timeout), "coqc"] + COQ_FLAGS + [path], cwd=COQ,
                                     stdout=subprocess.PIPE, stderr=subprocess.PIPE, text=True)
                running.append((i, path, p))
            i, path, p = running.pop(0)
            so, se = p.communicate()
            if p.returncode != 0:
                for _, _, q in running:
                    q.kill()
                raise CoqEvalError(f"coqc failed on {path} (exit {p.returncode}):\n{se[-3000:]}")
            m = re.search(r"=\s*(\[.*\])\s*:\s*list out", so, re.S)
            if not m:
                raise CoqEvalError(f"no result in coqc output for {path}:\n{so[-2000:]}")
            results[i] = parse_out(m.group(1))
        out = []
        for i in range(len(files)):
            out.extend(results[i])
        if len(out) != len(terms):
            raise CoqEvalError(f"expected {len(terms)} results, got {len(out)}")
        return out
    finally:
        shutil.rmtree(d, ignore_errors=True)


# --------------------------------------------------------------------------------------------
# Build: regenerate gen/, make the closure, compile props/Cxx.v, audit
# --------------------------------------------------------------------------------------------
def _sh(cmd, cwd=None, timeout=1800, env=None):
    p = subprocess.run(cmd, cwd=cwd, stdout=subprocess.PIPE, stderr=subprocess.STDOUT, text=True, timeout=timeout, env=env)
    return p.returncode, p.stdout


def write_coqproject():
    files = sorted(glob.glob(os.path.join(COQ, "theories", "*.v")) + glob.glob(os.path.join(COQ, "gen", "*.v"))
                   + glob.glob(os.path.join(COQ, "proofs", "*.v")))
    text = "-Q theories Aldy\n-Q gen Aldy\n-Q proofs Aldy\n-Q props Aldy\n" + "\n".join(os.path.relpath(f, COQ) for f in files) + "\n"
    p = os.path.join(COQ, "_CoqProject")
    if not os.path.exists(p) or open(p).read() != text:
        open(p, "w").write(text)
        return True
    return False


class Build:
    """result of building the dependency closure of one property"""

    def __init__(self):
        self.broken = []      # list of (name, detail): broken obligations
        self.obligations = 0  # Qed count in the closure + generated obligations
        self.files = []
        self.assumptions = {}  # theorem -> list of axioms ([] = closed)
        self.log = ""
        self.coqchk = None
        self.failed_literals = {}
        self.model_missing = []   # model files (theories/, gen/) that did not compile


NOTES = []   # translator remarks of this process (fail-closed groups), printed with the broken obligations


def regenerate():
    """re-run the translators (literals, decision expressions, aliasing programs of C14); returns (ok, message)"""
    msgs, ok = [], True
    for script, target in (("gen_consts.py", "Consts_here.v"), ("gen_exprs.py", "Exprs_.v"), ("gen_frame.py", "Frame_here.v")):
        rc, out = _sh([sys.executable, os.path.join(VERIF, "harness", script), os.path.join(COQ, "gen", target)],
                      env=dict(os.environ, ALDY_REPO=REPO))
        ok = ok and rc == 0
        if rc != 0:
            msgs.append(f"{script}: {out.strip()[-700:]}")
        for ln in out.splitlines():
            if ln.startswith("FAIL-CLOSED group"):
                # one source area could not be translated: gen/Exprs_<area>.v holds no definitions, so proofs/Tied_<area>.v
                # (and with it only the properties that depend on that area) stops compiling
                NOTES.append(f"{script}: {ln}")
    return ok, "; ".join(msgs)


def _vo_fresh(v):
    vo = v[:-2] + ".vo"
    return os.path.exists(vo) and os.path.getmtime(vo) >= os.path.getmtime(v)


def failed_literals():
    p = os.path.join(COQ, "gen", "consts_status.json")
    try:
        return json.load(open(p)).get("failed", {})
    except Exception:
        return {}


def harness_modules(prop):
    """harness files a property's check is made of: harness/<prop>.py and the c??.py modules it imports, transitively"""
    seen, todo = [], [prop.lower()]
    while todo:
        m = todo.pop()
        f = os.path.join(VERIF, "harness", m + ".py")
        if m in seen or not os.path.exists(f):
            continue
        seen.append(m)
        for x in re.findall(r"^\s*(?:import|from)\s+(c\d\d)\b", open(f).read(), re.M):
            todo.append(x)
        for x in re.findall(r"^\s*import\s+.*?\b(c\d\d)\b", open(f).read(), re.M):
            todo.append(x)
    return [os.path.join(VERIF, "harness", m + ".py") for m in seen]


def literal_relevant(prop, field, closure_files):
    """does the model closure of the property (outside the files that merely carry the record) or its harness mention the literal?"""
    carriers = ("theories/Consts.v", "gen/Consts_here.v", "gen/Consts_wf.v")
    coq_name = re.compile(r"\bc_" + re.escape(field) + r"\b")
    if field in ("vcf_q", "vcf_read_sites"):
        coq_name = re.compile(r"\bc_vcf_(q|reads)\b")
    if field == "bin_top":
        coq_name = re.compile(r"\bc_bin(s|_top)\b")
    for f in closure_files:
        if f in carriers:
            continue
        try:
            if coq_name.search(strip_comments(open(os.path.join(COQ, f)).read())):
                return True
        except OSError:
            return True
    for f in harness_modules(prop):
        if re.search(r"[\"']" + re.escape(field) + r"[\"']", open(f).read()):
            return True
    return False


def closure(prop_file):
    """project-local .v files the property file depends on (transitively), via coqdep"""
    rc, out = _sh(["coqdep"] + COQ_FLAGS + ["-sort", prop_file], cwd=COQ)
    # -sort prints all files needed in order
    files = [f for f in out.split() if f.endswith(".v")]
    return files


def build(prop, extra_targets=(), thorough=False):
    """Build everything props/<prop>.v needs; compile it; audit. Never raises for Coq failures: they are broken obligations."""
    b = Build()
    os.makedirs(os.path.join(COQ, "gen"), exist_ok=True)
    lock = open(os.path.join(COQ, ".build.lock"), "w")
    fcntl.flock(lock, fcntl.LOCK_EX)
    try:
        ok, msg = regenerate()
        if not ok:
            b.broken.append(("translator", msg[-1500:]))
            # keep going with the stale gen file if there is one: the search for a failing input still needs the model
        b.failed_literals = failed_literals()
        changed = write_coqproject()
        if changed or not os.path.exists(os.path.join(COQ, "Makefile")):
            rc, out = _sh(["coq_makefile", "-f", "_CoqProject", "-o", "Makefile"], cwd=COQ)
            if rc != 0:
                b.broken.append(("coq_makefile", out[-1500:]))
        pf = os.path.join("props", prop + ".v")
        files = closure(pf) if os.path.exists(os.path.join(COQ, pf)) else []
        deps = [f for f in files if f != pf and not f.startswith("props/")]
        for t in extra_targets:
            if t not in deps:
                deps.append(t)
        b.files = deps + ([pf] if files else [])
        targets = [f[:-2] + ".vo" for f in deps]
        if targets:
            # -k: a proof file that no longer compiles (a broken obligation) must not keep the model files from being built,
            # the search for a failing input needs them
            rc, out = _sh(["timeout", "1500", "make", "-k", "-j16"] + targets, cwd=COQ, timeout=1600)
            b.log += out
            if rc != 0:
                m = re.findall(r'File "([^"]+)", line (\d+)[^\n]*\n((?:.*\n){0,8})', out)
                detail = "; ".join(f"{f}:{l}" for f, l, _ in m[:3]) or "make failed"
                b.broken.append((f"coq-build:{detail}", out[-2500:]))
                b.model_missing = [f for f in deps if (f.startswith("theories/") or f.startswith("gen/"))
                                   and not _vo_fresh(os.path.join(COQ, f))]
        if files:
            rc, out = _sh(["timeout", "600", "coqc"] + COQ_FLAGS + [pf], cwd=COQ, timeout=700)
            b.log += out
            open(os.path.join(COQ, "props", prop + ".out"), "w").write(out)
            if rc != 0:
                m = re.search(r'File "([^"]+)", line (\d+)', out)
                b.broken.append((f"coq-props:{prop}.v" + (f":{m.group(2)}" if m else ""), out[-2500:]))
            else:
                b.assumptions = parse_assumptions(out)
                for thm, ax in b.assumptions.items():
                    bad = [a for a in ax if a.split()[0] not in ALLOWED_AXIOMS]
                    if bad:
                        b.broken.append((f"assumptions:{thm}", "depends on: " + ", ".join(bad)))
                if thorough:
                    # independent re-check of the compiled files and everything they depend on
                    rc, out = _sh(["timeout", "1500", "coqchk", "-silent", "-o"] + COQ_FLAGS + [f"Aldy.{prop}"], cwd=COQ, timeout=1600)
                    b.coqchk = out[out.find("CONTEXT SUMMARY"):][:3000] if "CONTEXT SUMMARY" in out else out[-1500:]
                    m = re.search(r"\* Axioms:\s*(.*?)\n\s*\n\* Constants/Inductives relying on type-in-type:\s*(.*?)\n\s*\n"
                                  r"\* Constants/Inductives relying on unsafe \(co\)fixpoints:\s*(.*?)\n\s*\n\* Inductives whose positivity is assumed:\s*(.*?)\n",
                                  out, re.S)
                    if rc != 0 or not m:
                        b.broken.append((f"coqchk:{prop}", out[-1500:]))
                    elif any(x.strip() != "<none>" for x in m.groups()):
                        b.broken.append((f"coqchk:{prop}", "context summary not clean: " + b.coqchk))
        else:
            b.broken.append((f"coq-props:{prop}.v missing", ""))
    finally:
        fcntl.flock(lock, fcntl.LOCK_UN)
        lock.close()
    # literals the translator could not read: broken for this property iff its model closure or its harness mentions the field
    for field, why in getattr(b, "failed_literals", {}).items():
        if literal_relevant(prop, field, b.files):
            b.broken.append((f"translator:c_{field}", why))
        else:
            NOTES.append(f"gen_consts.py: literal {field} could not be read ({why}); not used by {prop}")
    # audit + obligation count
    n = 0
    for f in b.files:
        src = open(os.path.join(COQ, f)).read()
        nocom = strip_comments(src)
        for m in FORBIDDEN.finditer(nocom):
            b.broken.append((f"audit:{f}", f"forbidden token {m.group(0)!r}"))
        if re.search(r"^\s*(Variable|Variables|Hypothesis|Hypotheses|Context)\b", nocom, re.M):
            if not sections_balanced(nocom):
                b.broken.append((f"audit:{f}", "Variable/Hypothesis outside a Section"))
        n += len(re.findall(r"\b(Qed|Defined)\s*\.", nocom))
    b.obligations = n
    return b


def strip_comments(src):
    out, depth, i = [], 0, 0
    while i < len(src):
        if src.startswith("(*", i):
            depth += 1
            i += 2
        elif src.startswith("*)", i) and depth:
            depth -= 1
            i += 2
        else:
            if depth == 0:
                out.append(src[i])
            i += 1
    return "".join(out)


def sections_balanced(src):
    depth = 0
    for line in src.splitlines():
        s = line.strip()
        if re.match(r"(Section|Module)\s+\w+", s) and ":=" not in s:
            depth += 1
        elif re.match(r"End\s+\w+\s*\.", s):
            depth -= 1
        elif re.match(r"(Variable|Variables|Hypothesis|Hypotheses|Context)\b", s) and depth <= 0:
            return False
    return True


def parse_assumptions(out):
    """coqc output of props/Cxx.v: blocks produced by `Print Assumptions t.`; we cannot see the name in the output,
    so props files print a marker line before each via `Goal True. idtac "ASSUME <name>". Abort.`"""
    res = {}
    cur = None
    lines = out.splitlines()
    i = 0
    while i < len(lines):
        ln = lines[i]
        m = re.match(r"ASSUME (\S+)", ln.strip())
        if m:
            cur = m.group(1)
            res[cur] = None
        elif ln.startswith("Closed under the global context") and cur:
            res[cur] = []
            cur = None
        elif ln.startswith("Axioms:") and cur:
            ax = []
            i += 1
            while i < len(lines) and lines[i].strip() and not lines[i].startswith("ASSUME"):
                if not lines[i].startswith(" ") or re.match(r"^\S", lines[i]):
                    ax.append(lines[i].strip())
                i += 1
            res[cur] = ax
            cur = None
            continue
        i += 1
    return {k: (v if v is not None else ["<no Print Assumptions output>"]) for k, v in res.items()}


# --------------------------------------------------------------------------------------------
# Known findings
# --------------------------------------------------------------------------------------------
def load_findings():
    p = os.path.join(VERIF, "known_findings.json")
    if not os.path.exists(p):
        return []
    return json.load(open(p)).get("findings", [])


def finding_matches(entry, prop, clause, desc):
    if entry.get("status") == "fixed":
        return False
    ec = entry["clause"]
    if entry["property"] != prop or (clause not in ec if isinstance(ec, list) else ec != clause):
        return False
    for k, want in entry.get("match", {}).items():
        have = desc.get(k)
        if isinstance(want, list):
            if have not in want:
                return False
        elif isinstance(want, dict):
            if "prefix" in want and not str(have).startswith(want["prefix"]):
                return False
            if "min" in want and not (have is not None and have >= want["min"]):
                return False
            if "max" in want and not (have is not None and have <= want["max"]):
                return False
        elif have != want:
            return False
    return True


# --------------------------------------------------------------------------------------------
# The check object
# --------------------------------------------------------------------------------------------
class Check:
    def __init__(self, prop, tier, seed, technique=""):
        self.prop, self.tier, self.seed = prop, tier, seed
        self.t0 = time.time()
        self.rng = random.Random(seed)
        self.broken = []         # (kind, name, detail)  kind in obligation|correspondence
        self.failures = []       # predicate failures on the implementation: dict(clause, desc, case, expected, observed)
        self.evaluations = 0
        self.nontrivial = set()
        self.samples = []
        self.streams = {}        # name -> dict(counters)
        self.obligations = 0
        self.discharged = 0
        self.build_info = None
        self.notes = []
        self.rule = ""
        self.assumptions = []
        self.extra_trusted = []
        self.exhaustive = None

    # -- step 1/2
    def build(self, extra_targets=()):
        b = build(self.prop, extra_targets, thorough=(self.tier == "thorough"))
        self.build_info = b
        self.obligations = b.obligations
        nbroken = len(b.broken)
        self.discharged = b.obligations if nbroken == 0 else max(0, b.obligations - nbroken)
        for name, detail in b.broken:
            self.broken.append(("obligation", name, detail))
        return b

    def model_available(self):
        """False when the model itself did not compile (then only the implementation-side predicate search can run)"""
        return not (self.build_info is not None and self.build_info.model_missing)

    # -- step 3/4 bookkeeping
    def count(self, stream, key, n=1):
        self.streams.setdefault(stream, {}).setdefault(key, 0)
        self.streams[stream][key] += n

    def case(self, stream, canon, nontrivial=True, sample=None):
        self.evaluations += 1
        self.count(stream, "cases")
        if nontrivial:
            h = hashlib.sha1(json.dumps(canon, sort_keys=True, default=str).encode()).hexdigest()
            if h not in self.nontrivial:
                self.nontrivial.add(h)
                self.count(stream, "distinct_nontrivial")
        if sample is not None and len([s for s in self.samples if s.get("stream") == stream]) < 3:
            self.samples.append({"stream": stream, "case": sample})

    def mismatch(self, name, case, model, impl):
        """behavioural/structural correspondence broke on a case"""
        self.count(name, "mismatches")
        if len([b for b in self.broken if b[1] == name]) < 5:
            self.broken.append(("correspondence", name, {"case": case, "model": model, "implementation": impl}))

    def fail(self, clause, desc, case, expected, observed):
        """the PROPERTY predicate is false on the implementation's behaviour for this case"""
        self.failures.append({"clause": clause, "desc": desc, "case": case, "expected": expected, "observed": observed})

    # -- step 6
    def finish(self, checker_cmd=None):
        findings = load_findings()
        known_hit, unknown = {}, []
        for f in self.failures:
            hit = None
            for e in findings:
                if finding_matches(e, self.prop, f["clause"], f["desc"]):
                    hit = e
                    break
            if hit is not None:
                known_hit.setdefault(hit["id"], (hit, 0))
                known_hit[hit["id"]] = (hit, known_hit[hit["id"]][1] + 1)
            else:
                unknown.append(f)
        lines = []
        for fid, (e, n) in sorted(known_hit.items()):
            lines.append(f"KNOWN-FINDING: property={self.prop} {e['what']} [{fid}; {n} case(s) this run]")
        violations = 0
        os.makedirs(os.path.join(OUT, "replays"), exist_ok=True)
        if unknown:
            # one replay per clause (first, i.e. smallest index, failing case)
            seen = set()
            for f in unknown:
                if f["clause"] in seen:
                    continue
                seen.add(f["clause"])
                path = os.path.join(OUT, "replays", f"{self.prop}_{f['clause']}_{self.seed}.json")
                json.dump({"property": self.prop, "kind": "failing-input", "clause": f["clause"], "seed": self.seed,
                           "tier": self.tier, "desc": f["desc"], "case": f["case"], "expected": f["expected"],
                           "observed": f["observed"],
                           "broken": [{"kind": k, "name": n} for k, n, _ in self.broken],
                           "how_to_run": f"bin/check {self.prop} --replay {path}"}, open(path, "w"), indent=1, default=str)
                lines.append(f"VIOLATION property={self.prop} replay={path}")
                violations += 1
        elif self.broken:
            path = os.path.join(OUT, "replays", f"{self.prop}_broken_{self.seed}.json")
            json.dump({"property": self.prop, "kind": "broken-" + self.broken[0][0], "seed": self.seed, "tier": self.tier,
                       "broken": [{"kind": k, "name": n, "detail": d} for k, n, d in self.broken],
                       "note": "the property is no longer shown to hold: the named theorem/translator/correspondence does not check "
                               "against the current tree; the search over model and implementation found no input on which the "
                               "property predicate fails",
                       "how_to_run": f"bin/check {self.prop} --tier {self.tier}"}, open(path, "w"), indent=1, default=str)
            lines.append(f"VIOLATION property={self.prop} replay={path} no-failing-input-found")
            violations += 1
        self.write_evidence(violations, len(known_hit), checker_cmd)
        for ln in self.notes:
            print(ln)
        for k, n, d in self.broken:
            print(f"BROKEN {k}: {n}")
        if self.broken:
            for ln in dict.fromkeys(NOTES):
                print("NOTE", ln)
        for ln in lines:
            print(ln)
        print(f"[{self.prop}] tier={self.tier} seed={self.seed} obligations={self.obligations} discharged={self.discharged} "
              f"evaluations={self.evaluations} distinct_nontrivial={len(self.nontrivial)} "
              f"known_findings_hit={len(known_hit)} violations={violations} wall={time.time() - self.t0:.1f}s")
        return 1 if violations else 0

    def write_evidence(self, violations, known, checker_cmd):
        b = self.build_info
        cov = {
            "obligations": self.obligations,
            "discharged": self.discharged,
            "checker_cmd": checker_cmd or f"cd /verif/coq && make <closure of props/{self.prop}.v> && coqc props/{self.prop}.v  (via bin/check {self.prop})",
            "trusted_base": TRUSTED_BASE + self.extra_trusted,
            "evaluations": self.evaluations,
            "distinct_nontrivial": len(self.nontrivial),
            "rule": self.rule,
            "samples": self.samples[:12] or [{"note": "no cases generated"}],
            "streams": self.streams,
            "theorems": {k: ("closed under the global context" if not v else v) for k, v in (b.assumptions.items() if b else [])},
            "closure_files": b.files if b else [],
            "coqchk": (b.coqchk if b else None),
            "broken": [{"kind": k, "name": n} for k, n, _ in self.broken],
            "known_findings_hit": known,
        }
        if isinstance(self.exhaustive, bool):
            cov["exhaustive"] = self.exhaustive
        elif self.exhaustive is not None:
            cov["exhaustive_scope"] = self.exhaustive      # which finite sub-spaces this run enumerated completely
        ev = {"property_id": self.prop, "tier": self.tier, "seed": self.seed, "level": "proof", "coverage": cov,
              "assumptions": self.assumptions, "wall_s": round(time.time() - self.t0, 2), "violations": violations}
        os.makedirs(os.path.join(OUT, "evidence"), exist_ok=True)
        json.dump(ev, open(os.path.join(OUT, "evidence", f"{self.prop}.json"), "w"), indent=1, default=str)


def quiet_aldy():
    import warnings
    warnings.filterwarnings("ignore")
    try:
        import logbook
        logbook.NullHandler().push_application()
    except Exception:
        pass


def build_reported(chk, prop, proofs_file, props_file):
    """Optional second part of the closure of a stage property (C02, C03): props/Cxx_reported.v composes the stage's proofs with the
    enumeration loop of C05 (theories/Enum.v, proofs/EnumProofs.v, owned by the C05 check).  If C05's own files do not build, that
    is C05's broken obligation and the composition is skipped with a note; if they build, the composition is an obligation of the
    stage property."""
    import fcntl, re
    coq = COQ
    if not os.path.exists(os.path.join(coq, props_file)) or not os.path.exists(os.path.join(coq, "proofs", "EnumProofs.v")):
        chk.notes.append(f"[{prop}] composition with the enumeration loop ({props_file}) not present: skipped")
        return
    lock = open(os.path.join(coq, ".build.lock"), "w")
    fcntl.flock(lock, fcntl.LOCK_EX)
    try:
        rc, out = _sh(["timeout", "1200", "make", "-j8", "proofs/EnumProofs.vo"], cwd=coq, timeout=1300)
        if rc != 0:
            chk.notes.append(f"[{prop}] composition with the enumeration loop skipped: proofs/EnumProofs.v (property C05) does not build")
            return
        proofs_files = [proofs_file] if isinstance(proofs_file, str) else list(proofs_file)
        for pf in proofs_files:
            rc, out = _sh(["timeout", "1500", "make", "-j8", pf + "o"], cwd=coq, timeout=1600)
            if rc != 0:
                chk.broken.append(("obligation", "coq-build:" + pf, out[-2000:]))
                return
        rc, out = _sh(["timeout", "600", "coqc"] + COQ_FLAGS + [props_file], cwd=coq, timeout=700)
        open(os.path.join(coq, props_file[:-2] + ".out"), "w").write(out)
        if rc != 0:
            chk.broken.append(("obligation", "coq-props:" + os.path.basename(props_file), out[-2000:]))
            return
        ass = parse_assumptions(out)
        for thm, ax in ass.items():
            if ax:
                chk.broken.append(("obligation", f"assumptions:{thm}", "depends on: " + ", ".join(ax)))
        n = 0
        for f in proofs_files + [props_file]:
            nocom = strip_comments(open(os.path.join(coq, f)).read())
            for mm in FORBIDDEN.finditer(nocom):
                chk.broken.append(("obligation", f"audit:{f}", f"forbidden token {mm.group(0)!r}"))
            if not sections_balanced(nocom):
                chk.broken.append(("obligation", f"audit:{f}", "Variable/Hypothesis outside a Section"))
            n += len(re.findall(r"\b(Qed|Defined)\s*\.", nocom))
        if chk.build_info is not None:
            chk.build_info.assumptions.update(ass)
            chk.build_info.files += proofs_files + [props_file]
        chk.obligations += n
        if not any(k == "obligation" and any(os.path.basename(f) in nm for f in proofs_files + [props_file]) for k, nm, _ in chk.broken):
            chk.discharged += n
        chk.notes.append(f"[{prop}] composition with the enumeration loop of C05 checked: {len(ass)} theorems in {props_file} "
                         "(premises: solver contract of C05)")
    finally:
        fcntl.flock(lock, fcntl.LOCK_UN)
        lock.close()


