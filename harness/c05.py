"""C05 — the ILP layer returns true optima and exact linearisations (aldy/lpinterface.py).

Correspondence (tie)
  helper-struct : the REAL CBC.abssum / CBC.prod called on random term lists, rows read back from OR-Tools through
                  harness/lprec.py  ==  Lp.abssum_vars/abssum_rows/abssum_lin / Lp.prod_rows evaluated in Coq
  enum          : random aldy-shaped models built through the real lpinterface API, enumerated with the real
                  model.solutions(gap, limit=...)  ==  Enum.solutions over Brute (Coq, vm_compute) on the same model;
                  the model follows CBC's choice among EXACTLY equal optima (Brute.advised), nothing else;
                  also: rows the solver was given == o_lp of the Coq term, Brute's table == the harness' exact table,
                  Brute.shaped = true for every generated model
Predicate (evaluated on the implementation's behaviour only, exact Fractions, no model output)
  first-optimal, yield-feasible, within-gap, no-repeat, monotone, complete on every enumerated model;
  prod-exact / abssum-exact: exhaustive products of 0-4 binary factors (min and max of the product variable) and all
  sign patterns {-,0,+} of 1-4 absolute terms through real CBC.
Thorough tier: every generated model re-solved with SCIP and HiGHS; the models aldy builds while genotyping shipped
test data are recorded and validated with validate_recorded_models (also exported for the other checks)."""
import contextlib, itertools, json, math, os, sys, time
from fractions import Fraction as F
import common
from common import cz, cq, clist, cpair
import lprec

IMPORTS = ["Base", "Consts", "Lp", "Enum", "Brute", "Consts_here"]
TOL_ABS, TOL_REL = 1e-6, 1e-9
FEAS_TOL = 1e-5          # OR-Tools VerifySolution tolerance used by aldy (SOLVER_PRECISON)
CLAUSES = ["first-optimal", "yield-feasible", "within-gap", "no-repeat", "monotone", "complete", "prod-exact", "abssum-exact"]


# a witness' point is certified to satisfy every row within 1e-6; with objective coefficients up to ~10 on the error terms its objective
# can therefore undercut the true optimum by a few 1e-6 (seen: HiGHS 5.494997 against the exact optimum 5.495).  The exhaustive table is
# the authority for the generated models; a witness only counts against CBC beyond the resolution used for the recorded models (2e-5).
WIT_TOL = 2e-5


def close(a, b, extra=0.0):
    return abs(float(a) - float(b)) <= TOL_ABS + extra + TOL_REL * max(abs(float(a)), abs(float(b)))


def solver_precision():
    from aldy import lpinterface
    return F(repr(float(lpinterface.SOLVER_PRECISON)))


# ------------------------------------------------------------------------------------------------------------------
# keys / names
# ------------------------------------------------------------------------------------------------------------------
def bkey(i):
    return (1, i)


def ekey(j):
    return (2, j)


def key_of_name(n):
    """variable name used by this harness -> role key of the Coq model (ABS_x -> Lp.abs_key x)"""
    if n.startswith("ABS_"):
        return (-1,) + key_of_name(n[4:])
    t, i = n.split("_")
    return ({"B": 1, "E": 2, "N": 3}[t], int(i))


def name_of_key(k):
    if k[0] == -1:
        return "ABS_" + name_of_key(k[1:])
    return {1: "B", 2: "E", 3: "N"}[k[0]] + "_" + str(k[1])


def ckey(k):
    return clist(k, cz)


def clin(terms):
    return clist(terms, lambda ck: f"({cq(ck[0])}, {ckey(ck[1])})")


def crow(terms, rel, rhs):
    return "{| r_lin := %s; r_rel := %s; r_rhs := %s |}" % (clin(terms), {"le": "RLe", "ge": "RGe", "eq": "REq"}[rel], cq(rhs))


def fr(x):
    return F(x) if not isinstance(x, F) else x


# ------------------------------------------------------------------------------------------------------------------
# model cases.  Everything is JSON: Fractions as strings.
#   nb, eq: [{"co": [[i,c]..], "ce": c, "cov": c, "lb": c|None, "ub": c|None}], rows: [{"t": [[i,c]..], "rel", "rhs"}],
#   prods: [{"res": i, "ts": [i..]}], obj: [[i,c]..], abs: {j: c} (missing -> default 1), const, gap, limit
# ------------------------------------------------------------------------------------------------------------------
def gen_model(rng, near_tie=False, big=False):
    nb = rng.randint(2, 8) if not big else rng.randint(6, 8)
    if not big and nb > 6 and rng.random() < 0.5:
        nb = rng.randint(2, 6)
    ne = 0 if rng.random() < 0.12 else rng.randint(1, 5)       # 0: a model of binaries only (nothing calls abssum on it)
    half = [F(k, 2) for k in range(0, 7)]
    prods = []
    plain = list(range(nb))
    if nb >= 3 and rng.random() < 0.3:
        for _ in range(rng.randint(1, 2)):
            if len(plain) <= 2:
                break
            res = plain.pop()          # the last plain binaries become product variables
            k = rng.choice([0, 1, 2, 2, 2, 3])
            ts = [rng.choice(plain) for _ in range(k)] if rng.random() < 0.15 else rng.sample(plain, min(k, len(plain)))
            prods.append({"res": res, "ts": ts})
    eq = []
    for j in range(ne):
        sup = [i for i in range(nb) if rng.random() < 0.7]
        co = [[i, rng.choice(half[1:])] for i in sup]
        ce = F(1) if rng.random() < 0.8 else rng.choice([F(-1), F(2), F(1, 2)])
        cov = F(rng.randint(0, 600), 100) if rng.random() < 0.5 else F(rng.randint(0, 12), 2)
        lb = ub = None
        r_ = rng.random()
        if r_ < 0.12:
            L = rng.choice([2, 5, 8])
            lb, ub = F(-L), F(L)
        elif r_ < 0.24:
            # a one-sided error term (addVar's own default is lb = 0): its absolute value still needs both rows of abssum
            lb, ub = rng.choice([(F(0), None), (None, F(0)), (F(0), F(rng.choice([3, 6]))), (F(-rng.choice([3, 6])), F(0))])
        eq.append({"co": co, "ce": ce, "cov": cov, "lb": lb, "ub": ub})
    rows = []
    if rng.random() < 0.85:           # cardinality
        sup = plain if rng.random() < 0.7 else [i for i in plain if rng.random() < 0.7] or plain
        k = rng.randint(1, min(3, len(sup)))
        rows.append({"t": [[i, F(1)] for i in sup], "rel": rng.choice(["eq", "eq", "le", "ge"]), "rhs": F(k)})
    if rng.random() < 0.2:            # a second, weighted row
        sup = [i for i in range(nb) if rng.random() < 0.6] or [0]
        rel = rng.choice(["le", "ge"])
        rows.append({"t": [[i, F(rng.randint(1, 3))] for i in sup], "rel": rel, "rhs": F(rng.randint(2, 5) if rel == "le" else rng.randint(1, 2))})
    for _ in range(rng.choice([0, 0, 1, 2, 3])):   # ordering  b_i <= b_j
        if nb >= 2:
            i, j = rng.sample(range(nb), 2)
            rows.append({"t": [[max(i, j), F(1)], [min(i, j), F(-1)]], "rel": "le", "rhs": F(0)})
    style = rng.choice(["coarse", "coarse", "fine"])
    obj = []
    for i in range(nb):
        if rng.random() < 0.75:
            c = rng.choice([F(0), F(1, 10), F(1, 2), F(1), F(2), F(21, 10)]) if style == "coarse" else F(rng.randint(0, 300), 100)
            if near_tie:
                c = F(rng.randint(0, 3)) + F(rng.choice([1, 2, 5, 9]), 10 ** 6) * rng.randint(0, 6)
            obj.append([i, c])
    abs_c = {}
    for j in range(ne):
        r = rng.random()
        if r < 0.5:
            abs_c[str(j)] = rng.choice([F(1, 2), F(1), F(3, 2), F(2), F(10)]) if style == "coarse" else F(rng.randint(1, 40), 10)
        elif r < 0.55:
            abs_c[str(j)] = F(0)
    gap = rng.choice([F(0), F(1, 10), F(1, 10), F(1, 2), F(1, 2)])
    const = F(0) if rng.random() < (0.8 if gap == 0 else 0.5) else F(rng.randint(5, 60), 10)
    limit = rng.choice([None, None, None, None, 1, 2, 3, 0])
    return {"nb": nb, "eq": eq, "rows": rows, "prods": prods, "obj": obj, "abs": abs_c, "const": const, "gap": gap, "limit": limit,
            "near_tie": near_tie, "swap_names": rng.random() < 0.35,
            # deferred creation (addVar(update=False), the keyword minor.py uses for its phasing binaries): a documented no-op for
            # CBC; with no error term in the model nothing calls update() or abssum() before solutions()
            "defer": rng.random() < (0.75 if ne == 0 else 0.3)}


def nkey(k):
    return (3, k)


def gen_int_model(rng):
    """a model of the same shape with 1-2 general INTEGER variables (vtype="I", a documented variable type of the interface) inside
    the equalities, e.g. a number of extra copies 0..3: they are no binaries, so no yielded tuple may name them and no cut may use them"""
    c = gen_model(rng)
    c["prods"] = [p for p in c["prods"]]
    if not c["eq"]:
        c["eq"] = [{"co": [[0, F(1)]], "ce": F(1), "cov": F(rng.randint(0, 8), 2), "lb": None, "ub": None}]
        c["defer"] = False
    ints = []
    for k in range(rng.choice([1, 1, 2])):
        lb = rng.choice([0, 0, 0, 1, -1])
        # (an integer variable of [0, 1] IS a binary for OR-tools and for the interface: not generated)
        # (objectives stay non-negative, as the property's quantifier says: a variable that can be negative carries no objective weight)
        ints.append({"lb": lb, "ub": lb + rng.choice([1, 2, 3, 3] if lb else [2, 2, 3]),
                     "obj": F(0) if lb < 0 else rng.choice([F(0), F(1, 10), F(1, 2), F(1)])})
    c["ints"] = ints
    for e in c["eq"]:
        e["cn"] = [[k, rng.choice([F(1, 2), F(1), F(1), F(2)])] for k in range(len(ints)) if rng.random() < 0.7]
    if not any(e["cn"] for e in c["eq"]):
        c["eq"][0]["cn"] = [[0, F(1)]]
    return c


def to_json(c):
    def cv(x):
        if isinstance(x, F):
            return str(x)
        if isinstance(x, dict):
            return {k: cv(v) for k, v in x.items()}
        if isinstance(x, (list, tuple)):
            return [cv(v) for v in x]
        return x
    return cv(c)


def from_json(c):
    def fq(x):
        return None if x is None else F(x)
    d = dict(c)
    d["eq"] = [{"co": [[int(i), F(x)] for i, x in e["co"]], "ce": F(e["ce"]), "cov": F(e["cov"]), "lb": fq(e["lb"]), "ub": fq(e["ub"])} for e in c["eq"]]
    d["rows"] = [{"t": [[int(i), F(x)] for i, x in r["t"]], "rel": r["rel"], "rhs": F(r["rhs"])} for r in c["rows"]]
    d["obj"] = [[int(i), F(x)] for i, x in c["obj"]]
    d["abs"] = {k: F(v) for k, v in c["abs"].items()}
    d["const"], d["gap"] = F(c["const"]), F(c["gap"])
    if c.get("ints"):
        d["ints"] = [{"lb": int(n["lb"]), "ub": int(n["ub"]), "obj": F(n["obj"])} for n in c["ints"]]
        for e, e0 in zip(d["eq"], c["eq"]):
            e["cn"] = [[int(k), F(x)] for k, x in e0.get("cn", [])]
    return d


# ------------------------------------------------------------------------------------------------------------------
# exact evaluation of a case (independent of the Coq model): all binary assignments, continuous part analytically
# ------------------------------------------------------------------------------------------------------------------
def rel_ok(v, rel, rhs):
    return v <= rhs if rel == "le" else v >= rhs if rel == "ge" else v == rhs


def exact_table(c):
    """[(bits, frozenset(active names), objective)] for every feasible assignment of the binaries"""
    nb = c["nb"]
    out = []
    for bits in itertools.product((0, 1), repeat=nb):
        ok = True
        for r in c["rows"]:
            if not rel_ok(sum(x * bits[i] for i, x in r["t"]), r["rel"], r["rhs"]):
                ok = False
                break
        if not ok:
            continue
        for p in c["prods"]:
            if bits[p["res"]] != (1 if all(bits[t] for t in p["ts"]) else 0):   # the MEANING of prod, not its rows
                ok = False
                break
        if not ok:
            continue
        # general integer variables: the objective of an assignment of the BINARIES is the best one over all their values
        best = None
        for nv in itertools.product(*[range(n["lb"], n["ub"] + 1) for n in c.get("ints", [])]):
            o = c["const"] + sum(x * bits[i] for i, x in c["obj"]) + sum(n["obj"] * v for n, v in zip(c.get("ints", []), nv))
            okn = True
            for j, e in enumerate(c["eq"]):
                v = (e["cov"] - sum(x * bits[i] for i, x in e["co"]) - sum(x * nv[k] for k, x in e.get("cn", []))) / e["ce"]
                if (e["lb"] is not None and v < e["lb"]) or (e["ub"] is not None and v > e["ub"]):
                    okn = False
                    break
                o += c["abs"].get(str(j), F(1)) * abs(v)
            if okn and (best is None or o < best):
                best = o
        if best is not None:
            out.append((bits, frozenset(f"B_{i}" for i in range(nb) if bits[i]), best))
    return out


# ------------------------------------------------------------------------------------------------------------------
# implementation side: the real lpinterface API
# ------------------------------------------------------------------------------------------------------------------
def build_impl(c, lpi):
    m = lpi.model("c05", "cbc")
    # naming scheme of this model: with swap_names the binaries are called E_i and the error terms B_j.  Models are built one after
    # another in one process, so a name used for a binary in one model is used for a continuous variable in the next one
    # (the interface must not carry anything over from one model to the next)
    pB, pE = ("E", "B") if c.get("swap_names") else ("B", "E")
    dk = {"update": False} if c.get("defer") else {}
    B = [m.addVar(vtype="B", name=f"{pB}_{i}", **(dk if i % 2 else {})) for i in range(c["nb"])]
    E = []
    for j, e in enumerate(c["eq"]):
        lb = -m.INF if e["lb"] is None else float(e["lb"])
        ub = m.INF if e["ub"] is None else float(e["ub"])
        E.append(m.addVar(lb=lb, ub=ub, name=f"{pE}_{j}"))
    N = [m.addVar(vtype="I", lb=n["lb"], ub=n["ub"], name=f"N_{k}") for k, n in enumerate(c.get("ints", []))]
    for j, e in enumerate(c["eq"]):
        expr = m.quicksum(float(x) * B[i] for i, x in e["co"]) + float(e["ce"]) * E[j]
        if e.get("cn"):
            expr = expr + m.quicksum(float(x) * N[k] for k, x in e["cn"])
        m.addConstr(expr <= float(e["cov"]), name=f"CCOV_{j}")     # as cn.py/major.py/minor.py: a <= / >= pair
        m.addConstr(expr >= float(e["cov"]), name=f"CCOV_{j}")
    for k, r in enumerate(c["rows"]):
        expr = m.quicksum(float(x) * B[i] for i, x in r["t"])
        if r["rel"] in ("le", "eq"):
            m.addConstr(expr <= float(r["rhs"]), name=f"CROW_{k}")
        if r["rel"] in ("ge", "eq"):
            m.addConstr(expr >= float(r["rhs"]), name=f"CROW_{k}")
    for p in c["prods"]:
        m.prod(B[p["res"]], [B[t] for t in p["ts"]])
    coeffs = {f"{pE}_{j}": float(x) for j, x in c["abs"].items()}
    coeffs[f"{pE}_999"] = 7.0                                           # a name that is not a term: must be ignored
    o = m.quicksum(float(x) * B[i] for i, x in c["obj"])
    if N:
        o = o + m.quicksum(float(n["obj"]) * N[k] for k, n in enumerate(c["ints"]))
    if E or not c.get("defer"):
        o = o + m.abssum(E, coeffs=coeffs)
    if c["const"] != 0:
        o = o + float(c["const"])
    m.setObjective(o)
    return m


def run_impl(c):
    """-> dict(yields=[(obj, names, values)], snap=Snapshot, runaway=bool)"""
    from aldy import lpinterface
    with lprec.Recorder() as rec:
        m = build_impl(c, lpinterface)
        ys, runaway = [], False
        cap = 2 ** c["nb"] + 2
        kw = {} if c["limit"] is None else {"limit": c["limit"]}
        for st, obj, names in m.solutions(float(c["gap"]), **kw):
            # values straight from the back end's own variable list (the wrapper's variables() is what solutions() itself reads:
            # the predicate compares the yielded names with the binaries the solver has at 1)
            vals = {v.name(): v.solution_value() for v in m.model.variables()}
            if c.get("ints"):
                # the interface's own typed read-back of the integer variables (lpinterface.getValue): an int, never a bool
                for v in m.model.variables():
                    if v.name().startswith("N_"):
                        vals["typed:" + v.name()] = m.getValue(v)
            ys.append((obj, tuple(names), vals, st))
            if len(ys) >= cap:
                runaway = True
                break
    snap = rec.models[0]
    if c.get("swap_names"):
        # back to the canonical names (B = binaries, E = error terms) before anything is compared
        def f(n):
            if n.startswith("ABS_"):
                return "ABS_" + f(n[4:])
            if n.startswith("typed:"):
                return n
            t, i = n.split("_", 1)
            return {"B": "E", "E": "B"}.get(t, t) + "_" + i
        ys = [(obj, tuple(f(n) for n in names), {f(k): v for k, v in vals.items()}, st) for obj, names, vals, st in ys]
        snap.vars = [(f(n), k, lb, ub) for n, k, lb, ub in snap.vars]
        snap.rows = [({f(n): x for n, x in co.items()}, lb, ub, nm) for co, lb, ub, nm in snap.rows]
        snap.cuts = [({f(n): x for n, x in co.items()}, lb, ub) for co, lb, ub in snap.cuts]
        snap.obj = {f(n): x for n, x in snap.obj.items()}
    return {"yields": ys, "snap": snap, "runaway": runaway}


# ------------------------------------------------------------------------------------------------------------------
# model side
# ------------------------------------------------------------------------------------------------------------------
def coq_lp(c):
    nb, ne = c["nb"], len(c["eq"])
    vs = [f"({ckey(bkey(i))}, KBin)" for i in range(nb)]
    for j, e in enumerate(c["eq"]):
        vs.append(f"({ckey(ekey(j))}, KCont {common.copt(e['lb'], cq)} {common.copt(e['ub'], cq)})")
    for k, n in enumerate(c.get("ints", [])):
        vs.append(f"({ckey(nkey(k))}, KInt {cq(F(n['lb']))} {cq(F(n['ub']))})")
    rows = []
    for j, e in enumerate(c["eq"]):
        rows.append(crow([(x, bkey(i)) for i, x in e["co"]] + [(e["ce"], ekey(j))] + [(x, nkey(k)) for k, x in e.get("cn", [])], "eq", e["cov"]))
    for r in c["rows"]:
        rows.append(crow([(x, bkey(i)) for i, x in r["t"]], r["rel"], r["rhs"]))
    es = clist([ekey(j) for j in range(ne)], ckey)
    prods = "".join(f" ++ prod_rows {ckey(bkey(p['res']))} {clist([bkey(t) for t in p['ts']], ckey)}" for p in c["prods"])
    coef = "(fun v => match alookup vkey_eqb v %s with Some q => q | None => 1%%Q end)" % clist(
        sorted(c["abs"].items()), lambda jc: f"({ckey(ekey(int(jc[0])))}, {cq(jc[1])})")
    return ("{| lp_vars := %s ++ abssum_vars %s; lp_rows := %s%s ++ abssum_rows %s; lp_obj := %s ++ abssum_lin %s %s; lp_const := %s |}"
            % (clist(vs), es, clist(rows), prods, es,
               clin([(x, bkey(i)) for i, x in c["obj"]] + [(n["obj"], nkey(k)) for k, n in enumerate(c.get("ints", []))]), coef, es, cq(c["const"])))


def exact_point(c, vals):
    """the solver's point at a yield as exact rationals: binaries and integer variables rounded, every error term at the value its
    equality forces, every helper at the absolute value of its term -> [(key, Fraction)]"""
    B = [F(round(vals[f"B_{i}"])) for i in range(c["nb"])]
    N = [F(round(vals[f"N_{k}"])) for k in range(len(c.get("ints", [])))]
    pt = [(bkey(i), B[i]) for i in range(c["nb"])] + [(nkey(k), N[k]) for k in range(len(N))]
    for j, e in enumerate(c["eq"]):
        v = (e["cov"] - sum(x * B[i] for i, x in e["co"]) - sum(x * N[k] for k, x in e.get("cn", []))) / e["ce"]
        pt += [(ekey(j), v), ((-1,) + ekey(j), abs(v))]
    return pt


def coq_term(c, advice, points=()):
    adv = clist(advice, lambda s: clist(sorted(s), ckey))
    lim = common.copt(c["limit"], cz)
    if c.get("ints"):
        # outside the class of the reference solver Brute (shaped m = false): the model gives the rows, kinds and binaries of the LP and
        # judges every yielded point (feasibleb, objective, active); the yields as a sequence are judged by the property predicate
        # against the exhaustive table, and the enumeration theorems (C05_enum_*) cover the loop for any solver meeting the contract
        pts = clist(points, lambda pt: clist(pt, lambda kq: cpair(ckey(kq[0]), cq(kq[1]))))
        return (f"(let m := {coq_lp(c)} in OL [o_bool (shaped m); "
                f"o_list (fun pt => OL [o_bool (feasibleb m (asg_of pt)); o_q (objective m (asg_of pt)); o_list o_key (active m (asg_of pt))]) {pts}; "
                f"o_list o_key (binaries m); o_lp m])")
    return (f"(let m := {coq_lp(c)} in OL [o_bool (shaped m); run_enum_advised here {cq(c['gap'])} {lim} {adv} m; table m; o_lp m])")


def d_sols(v):
    """o_sols -> None (out of fuel) | [(Fraction, frozenset(names))]"""
    if not v:
        return None
    return [(common.dq(y[0]), frozenset(name_of_key(tuple(k)) for k in y[1])) for y in v[0]]


def d_lp(v):
    """o_lp -> (vars {key: (kind, lb, ub)}, canonical rows, objective terms, const), in lprec's canonical vocabulary"""
    vs = {}
    for k, kind in v[0]:
        k = tuple(k)
        if kind[0] == 0:
            vs[k] = ("B", F(0), F(1))
        elif kind[0] == 1:
            vs[k] = ("I", common.dq(kind[1]), common.dq(kind[2]))
        else:
            vs[k] = ("C", common.dopt(kind[1], common.dq), common.dopt(kind[2], common.dq))
    rows = set()
    for lin, rel, rhs in v[1]:
        rows |= canon_row(lin, rel, common.dq(rhs))
    obj = {}
    for q, k in v[2]:
        obj[tuple(k)] = obj.get(tuple(k), F(0)) + common.dq(q)
    return vs, sorted(rows, key=repr), tuple(sorted((k, x) for k, x in obj.items() if x != 0)), common.dq(v[3])


def canon_row(lin, rel, rhs):
    coefs = {}
    for q, k in lin:
        coefs[tuple(k)] = coefs.get(tuple(k), F(0)) + common.dq(q)
    coefs = {k: x for k, x in coefs.items() if x != 0}
    lb = rhs if rel in (1, 2) else None
    ub = rhs if rel in (0, 2) else None
    return lprec.canon_rows(coefs, lb, ub)


def merge_eq(rows):
    """a le/ge pair with the same terms and right-hand side is the equality (aldy writes equalities as pairs)"""
    rows = set(rows)
    for t, rel, rhs in list(rows):          # split first, so that {eq, ge} and {le, ge, ge} meet in the same form
        if rel == "eq":
            rows.discard((t, "eq", rhs))
            rows |= {(t, "le", rhs), (t, "ge", rhs)}
    for t, rel, rhs in list(rows):
        if rel == "le" and (t, "ge", rhs) in rows:
            rows -= {(t, "le", rhs), (t, "ge", rhs)}
            rows.add((t, "eq", rhs))
    return sorted(rows, key=repr)


def snap_canon(snap):
    vs, rows, obj, const = snap.canonical(key_of_name)
    return vs, merge_eq(rows), obj, const


# ------------------------------------------------------------------------------------------------------------------
# the property predicate on one enumerated model (implementation output + exact table only)
# ------------------------------------------------------------------------------------------------------------------
def check_values(c, vals, obj):
    """the solver's own variable values at a yield: original rows, kinds, objective recomputed"""
    B = [vals[f"B_{i}"] for i in range(c["nb"])]
    E = [vals[f"E_{j}"] for j in range(len(c["eq"]))]
    A = [vals[f"ABS_E_{j}"] for j in range(len(c["eq"]))]
    bad = []
    for i, x in enumerate(B):
        if min(abs(x), abs(x - 1)) > 1e-6:
            bad.append(f"B_{i} not integral: {x}")
    for j, e in enumerate(c["eq"]):
        v = sum(float(x) * B[i] for i, x in e["co"]) + float(e["ce"]) * E[j] + sum(float(x) * vals[f"N_{k}"] for k, x in e.get("cn", []))
        if abs(v - float(e["cov"])) > FEAS_TOL * (1 + abs(float(e["cov"]))):
            bad.append(f"equality {j}: {v} != {float(e['cov'])}")
        if e["lb"] is not None and E[j] < float(e["lb"]) - FEAS_TOL:
            bad.append(f"E_{j} below lb")
        if e["ub"] is not None and E[j] > float(e["ub"]) + FEAS_TOL:
            bad.append(f"E_{j} above ub")
        if A[j] + FEAS_TOL < abs(E[j]):
            bad.append(f"ABS_E_{j} = {A[j]} < |E_{j}| = {abs(E[j])}")
    Nv = [vals[f"N_{k}"] for k in range(len(c.get("ints", [])))]
    for k, n in enumerate(c.get("ints", [])):
        if abs(Nv[k] - round(Nv[k])) > 1e-6 or not (n["lb"] - 1e-6 <= Nv[k] <= n["ub"] + 1e-6):
            bad.append(f"N_{k} = {Nv[k]} is no integer of [{n['lb']}, {n['ub']}]")
        t = vals.get(f"typed:N_{k}")
        if type(t) is not int or t != round(Nv[k]):
            bad.append(f"typed read-back of the integer variable N_{k} (solver value {Nv[k]}) is {t!r} of type {type(t).__name__}")
    for k, r in enumerate(c["rows"]):
        v = sum(float(x) * B[i] for i, x in r["t"])
        if (r["rel"] in ("le", "eq") and v > float(r["rhs"]) + FEAS_TOL) or (r["rel"] in ("ge", "eq") and v < float(r["rhs"]) - FEAS_TOL):
            bad.append(f"row {k}: {v} {r['rel']} {float(r['rhs'])}")
    for p in c["prods"]:
        want = 1 if all(B[t] > 0.5 for t in p["ts"]) else 0
        if abs(B[p["res"]] - want) > 1e-6:
            bad.append(f"product B_{p['res']} = {B[p['res']]} but AND = {want}")
    o = float(c["const"]) + sum(float(x) * B[i] for i, x in c["obj"]) + sum(float(n["obj"]) * Nv[k] for k, n in enumerate(c.get("ints", []))) + sum(float(c["abs"].get(str(j), 1)) * A[j] for j in range(len(E)))
    if not close(o, obj, extra=1e-6):
        bad.append(f"reported objective {obj} but the point evaluates to {o}")
    return bad


def predicate(c, impl, table, eps, tol=0.0):
    """-> list of (clause, message).  `tol` widens the optimality comparisons (used nowhere by default)."""
    fails = []
    ys = impl["yields"]
    by_set = {s: o for _, s, o in table}
    limit = c["limit"] or None
    gap = c["gap"]
    if impl["runaway"]:
        fails.append(("no-repeat", "enumeration did not stop within 2^n + 2 yields"))
    if not table:
        if ys:
            fails.append(("yield-feasible", f"the model is infeasible but {len(ys)} solution(s) were yielded"))
        return fails
    best = min(o for _, _, o in table)
    if not ys:
        fails.append(("first-optimal", f"nothing yielded; optimum {float(best)} exists"))
        return fails
    if not close(ys[0][0], best, tol):
        fails.append(("first-optimal", f"first yield {ys[0][0]!r} but the optimum is {float(best)!r} (excess {ys[0][0] - float(best):.3g})"))
    thr = (1 + gap) * best + eps
    seen = []
    for k, (obj, names, vals, st) in enumerate(ys):
        s = frozenset(names)
        if st != "optimal":
            fails.append(("yield-feasible", f"yield {k} has status {st}"))
        if s not in by_set:
            fails.append(("yield-feasible", f"yield {k} {sorted(s)} is not a feasible assignment of the binaries"))
        elif not close(obj, by_set[s], tol):
            fails.append(("yield-feasible", f"yield {k} {sorted(s)} reported {obj!r}, its objective is {float(by_set[s])!r}"))
        active_from_vals = frozenset(f"B_{i}" for i in range(c["nb"]) if vals[f"B_{i}"] > 0.5)
        if active_from_vals != s:
            fails.append(("yield-feasible", f"yield {k}: names {sorted(s)} but the binaries at 1 are {sorted(active_from_vals)}"))
        for msg in check_values(c, vals, obj):
            fails.append(("yield-feasible", f"yield {k}: {msg}"))
        if float(obj) > float(thr) + TOL_ABS + tol:
            fails.append(("within-gap", f"yield {k} objective {obj!r} exceeds (1+gap)*best+eps = {float(thr)!r}"))
        for k0, s0 in enumerate(seen):
            if s0 <= s:
                fails.append(("no-repeat", f"yield {k} {sorted(s)} contains yield {k0} {sorted(s0)}"))
                break
        if k and obj < ys[k - 1][0] - TOL_ABS - tol:
            fails.append(("monotone", f"yield {k} objective {obj!r} < previous {ys[k - 1][0]!r}"))
        seen.append(s)
    if limit is not None and len(ys) > limit:
        fails.append(("no-repeat", f"{len(ys)} yields with limit={limit}"))
    if limit is None or len(ys) < limit:
        yl = [(frozenset(n), o) for o, n, _, _ in ys]
        for bits, s, o in table:
            if float(o) > float((1 + gap) * best) - TOL_ABS - tol:
                continue                       # candidates within 1e-6 of the bound may be present or absent
            if not any(s0 <= s and o0 <= float(o) + TOL_ABS + tol for s0, o0 in yl):
                fails.append(("complete", f"feasible {sorted(s)} with objective {float(o)!r} <= (1+gap)*best is neither yielded nor a superset of a yield that is no worse"))
                break
    return fails


def nontrivial(c, table):
    if len(table) < 2:
        return False
    if c["gap"] == 0:
        return True
    best = min(o for _, _, o in table)
    return any(best < o <= (1 + c["gap"]) * best for _, _, o in table)


# ------------------------------------------------------------------------------------------------------------------
# independent solvers
# ------------------------------------------------------------------------------------------------------------------
@contextlib.contextmanager
def quiet_fd():
    """HiGHS prints a banner from C++ on every solve"""
    sys.stdout.flush()
    saved = os.dup(1)
    null = os.open(os.devnull, os.O_WRONLY)
    os.dup2(null, 1)
    try:
        yield
    finally:
        os.dup2(saved, 1)
        os.close(null)
        os.close(saved)


def resolve_snapshot(snap, solver, with_cuts=False, time_limit_s=120):
    """re-solve the rows of an lprec Snapshot with another OR-Tools back end -> ('optimal', obj) | ('infeasible', None) | (other, None)"""
    from ortools.linear_solver import pywraplp
    s = pywraplp.Solver.CreateSolver(solver)
    if s is None:
        return ("missing", None)
    inf = s.infinity()
    V = {}
    for n, kind, lb, ub in snap.vars:
        lo = -inf if lb is None else float(lb)
        hi = inf if ub is None else float(ub)
        V[n] = s.IntVar(lo, hi, n) if kind in ("B", "I") else s.NumVar(lo, hi, n)
    rows = [(co, lb, ub) for co, lb, ub, _ in snap.rows] + (list(snap.cuts) if with_cuts else [])
    for co, lb, ub in rows:
        ct = s.Constraint(-inf if lb is None else float(lb), inf if ub is None else float(ub))
        for n, x in co.items():
            ct.SetCoefficient(V[n], float(x))
    o = s.Objective()
    for n, x in snap.obj.items():
        o.SetCoefficient(V[n], float(x))
    o.SetOffset(float(snap.obj_const or 0))
    if snap.minimize:
        o.SetMinimization()
    else:
        o.SetMaximization()
    p = pywraplp.MPSolverParameters()
    p.SetDoubleParam(pywraplp.MPSolverParameters.RELATIVE_MIP_GAP, 0.0)
    s.SetTimeLimit(int(time_limit_s * 1000))
    with quiet_fd():
        st = s.Solve(p)
    if st == pywraplp.Solver.OPTIMAL:
        # certificate: the witness' own point must satisfy the rows it was given (a lower objective then DISPROVES optimality)
        val = {n: V[n].solution_value() for n in V}
        viol = 0.0
        for co, lb, ub in rows:
            x = sum(float(c) * val[n] for n, c in co.items())
            viol = max(viol, (float(lb) - x) if lb is not None else 0.0, (x - float(ub)) if ub is not None else 0.0)
        for n, kind, lb, ub in snap.vars:
            x = val[n]
            viol = max(viol, abs(x - round(x)) if kind in ("B", "I") else 0.0, (float(lb) - x) if lb is not None else 0.0, (x - float(ub)) if ub is not None else 0.0)
        obj = float(snap.obj_const or 0) + sum(float(c) * val[n] for n, c in snap.obj.items())
        if viol > 1e-6 or abs(obj - o.Value()) > 1e-6 * (1 + abs(obj)):
            return ("uncertified", o.Value())
        return ("optimal", o.Value())
    if st == pywraplp.Solver.INFEASIBLE:
        return ("infeasible", None)
    return (f"status{st}", None)


def validate_recorded_models(chk, snapshots, solvers=("SCIP", "HIGHS"), stream="recorded", tol=2e-5, max_vars=4000,
                             later_solves=False, gaps=None, sink=None, time_limit_s=120):
    """For lprec snapshots of models aldy itself built (lprec.Recorder or c05.ProtoRecorder): the objective of the FIRST
    solve must be the optimum that independent solvers (SCIP, HiGHS) find on the same rows, and an infeasible first solve
    must be infeasible for them too.  Reported with chk.fail under clause 'first-optimal' when a witness exhibits a point
    that satisfies the recorded rows (checked here, 1e-6) with a better objective than CBC's, or a feasible point where CBC
    said infeasible.  A witness that is WORSE than CBC's verified point is the witness' error (HiGHS does that on some
    generated models) and is only counted.  `tol`: CBC's cutoff increment (1e-5) is the resolution of the back end as
    aldy configures it.
    Optional (used by C05 itself): later_solves=True also checks that the recorded objectives never decrease ('monotone')
    and re-solves the FINAL model (rows + all recorded cuts) ('complete' when a solution inside the gap was lost, `gaps` =
    list of the gap per snapshot; 'monotone' otherwise).  `sink(clause, desc, case, expected, observed)` replaces chk.fail.
    Self-contained: needs only OR-Tools.  Returns the number of models validated."""
    emit = sink or chk.fail
    n = 0
    for k, snap in enumerate(snapshots):
        sgn = 1.0 if snap.minimize else -1.0
        if not snap.solves or len(snap.vars) > max_vars:
            chk.count(stream, "skipped")
            continue
        st0, obj0 = snap.solves[0]
        res = {sv: resolve_snapshot(snap, sv, time_limit_s=time_limit_s) for sv in solvers}
        n += 1
        desc = {"stream": stream, "model": snap.name, "vars": len(snap.vars), "rows": len(snap.rows)}
        case = {"model": snap.name, "vars": len(snap.vars), "rows": len(snap.rows), "solves": [list(x) for x in snap.solves[:200]]}
        chk.case(stream, [snap.name, len(snap.vars), len(snap.rows), str(obj0)], nontrivial=len(snap.vars) > 1,
                 sample={"model": snap.name, "vars": len(snap.vars), "rows": len(snap.rows), "cbc": [st0, obj0], **{k: list(v) for k, v in res.items()}})
        # A witness with a certified point of LOWER objective disproves CBC's optimum; a witness that is WORSE than CBC's
        # (verified) point, or calls a model infeasible that CBC solved, is itself wrong: counted, never a failure of aldy.
        for sv, (st, obj) in res.items():
            if st not in ("optimal", "infeasible"):
                chk.count(stream, f"{sv}-inconclusive-{st}")      # missing back end, time limit, uncertified point
                continue
            if st0 == "infeasible":
                if st == "optimal":
                    emit("first-optimal", desc, case, f"{sv}: feasible, optimum {obj!r}", "CBC: infeasible")
            elif st0 == "optimal":
                if st == "infeasible":
                    chk.count(stream, f"witness-{sv}-wrongly-infeasible")
                elif sgn * obj < sgn * obj0 - tol - 1e-7 * max(abs(obj), abs(obj0)):
                    emit("first-optimal", desc, case, f"{sv}: {obj!r} (certified feasible point)", f"CBC: {obj0!r}")
                elif sgn * obj > sgn * obj0 + tol + 1e-7 * max(abs(obj), abs(obj0)):
                    chk.count(stream, f"witness-{sv}-suboptimal")
            else:
                chk.count(stream, f"cbc-status-{st0}")
        if not later_solves or not snap.minimize:
            continue
        objs = [o for st, o in snap.solves if st == "optimal"]
        drop = [(i, a, b) for i, (a, b) in enumerate(zip(objs, objs[1:])) if b < a - tol]
        if drop:
            i, a, b = drop[0]
            emit("monotone", desc, case, "objectives of successive solves never decrease (cuts only remove points)",
                 f"{len(drop)} decrease(s) in {len(objs)} solves; first: solve {i} = {a!r}, solve {i + 1} = {b!r}")
        # the final model: every recorded cut was in force at the last solve
        if snap.cuts and len(snap.solves) == len(snap.cuts) + 1:
            stl, objl = snap.solves[-1]
            gap = gaps[k] if gaps else None
            ub = None if (gap is None or st0 != "optimal") else (1 + gap) * obj0
            for sv in solvers:
                st, obj = resolve_snapshot(snap, sv, with_cuts=True, time_limit_s=time_limit_s)
                if st not in ("optimal", "infeasible"):
                    continue
                lost = st == "optimal" and (stl == "infeasible" or (stl == "optimal" and obj < objl - tol))
                if lost and (ub is None or obj <= ub - tol) and (stl == "infeasible" or ub is None or objl > ub):
                    emit("complete", desc, case, f"{sv} on the final model ({len(snap.cuts)} cuts): certified optimum {obj!r}"
                         + (f" <= (1+gap)*best = {ub!r}: a solution inside the gap was never yielded" if ub is not None else ""),
                         f"CBC last solve: {stl} {objl!r}")
                elif lost:
                    emit("monotone", desc, case, f"{sv} on the final model ({len(snap.cuts)} cuts): certified optimum {obj!r}", f"CBC last solve: {stl} {objl!r}")
                elif stl == "optimal" and (st == "infeasible" or obj > objl + tol):
                    chk.count(stream, f"witness-{sv}-wrong-on-final-model")
    return n


# findings of the unchanged tree that this file cannot register itself (known_findings.json is not ours to edit):
# a failure tagged with `key` goes through chk.fail — i.e. through the known-findings protocol — as soon as an entry of
# known_findings.json for this property matches on {key: true}; until then it is printed as UNREGISTERED-FINDING
# (loudly, every run) and counted in the evidence.  Anything NOT tagged is a plain failure.
def tagged_sink(chk, key):
    registered = any(e.get("property") == chk.prop and e.get("match", {}).get(key) is True for e in common.load_findings())
    store = chk.__dict__.setdefault("_c05_unregistered", {})

    def sink(clause, desc, case, expected, observed):
        desc = {**desc, key: True}
        if registered:
            chk.fail(clause, desc, case, expected, observed)
        else:
            store.setdefault(key, []).append({"clause": clause, "desc": desc, "expected": expected, "observed": observed})
            chk.count(desc.get("stream", "?"), f"unregistered-{key}-{clause}")
    return sink


def flush_unregistered(chk):
    for key, items in chk.__dict__.get("_c05_unregistered", {}).items():
        clauses = sorted({x["clause"] for x in items})
        first = items[0]
        chk.notes.append(f"UNREGISTERED-FINDING: property={chk.prop} tag={key} clauses={','.join(clauses)} {len(items)} failure(s) this run; first: "
                         f"[{first['clause']}] expected {str(first['expected'])[:220]} | observed {str(first['observed'])[:220]} | {first['desc']} "
                         f"-- add known_findings.json entries (property {chk.prop}, these clauses, match {{\"{key}\": true}}) to route it through KNOWN-FINDING")
        if len([x for x in chk.samples if x.get("stream") == "unregistered-" + key]) < 2:
            chk.samples.append({"stream": "unregistered-" + key, "case": first})


# ------------------------------------------------------------------------------------------------------------------
# helper tie (structure) and exhaustive helper checks (solved values)
# ------------------------------------------------------------------------------------------------------------------
def gen_helper_case(rng):
    if rng.random() < 0.5:
        n = rng.randint(1, 6)
        pool = [("E", j) for j in range(8)] + [("B", i) for i in range(3)]
        ts = rng.sample(pool, n)
        coeffs = {}
        for t in ts:
            if rng.random() < 0.6:
                coeffs[f"{t[0]}_{t[1]}"] = F(rng.randint(1, 400), 100)
        if rng.random() < 0.5:
            coeffs["E_77"] = F(3)
        return {"kind": "abssum", "ts": [list(t) for t in ts], "coeffs": coeffs, "none": rng.random() < 0.15}
    n = rng.choice([0, 1, 2, 2, 3, 4, 5])
    ts = [rng.randint(1, 6) for _ in range(n)] if rng.random() < 0.2 else rng.sample(range(1, 7), n)
    return {"kind": "prod", "ts": ts}


def helper_impl(c):
    from aldy import lpinterface
    with lprec.Recorder() as rec:
        m = lpinterface.model("h", "cbc")
        if c["kind"] == "abssum":
            V = {}
            for t, i in c["ts"]:
                V[(t, i)] = m.addVar(vtype="B", name=f"B_{i}") if t == "B" else m.addVar(lb=-m.INF, ub=m.INF, name=f"E_{i}")
            co = None if c["none"] else {k: float(v) for k, v in c["coeffs"].items()}
            m.setObjective(m.abssum([V[tuple(t)] for t in c["ts"]], coeffs=co))
        else:
            res = m.addVar(vtype="B", name="B_0")
            T = {i: m.addVar(vtype="B", name=f"B_{i}") for i in sorted(set(c["ts"]))}
            r = m.prod(res, [T[i] for i in c["ts"]])
            assert r is res
            m.setObjective(res)
        m.solve()
    return rec.models[0]


def helper_term(c):
    if c["kind"] == "abssum":
        ks = clist([((1 if t == "B" else 2), i) for t, i in c["ts"]], ckey)
        co = {} if c["none"] else c["coeffs"]
        coef = "(fun v => match alookup vkey_eqb v %s with Some q => q | None => 1%%Q end)" % clist(
            sorted(co.items()), lambda kc: f"({ckey(key_of_name(kc[0]))}, {cq(kc[1])})")
        return (f"OL [o_list (fun kv => OL [o_key (fst kv); o_kind (snd kv)]) (abssum_vars {ks}); "
                f"o_list o_row (abssum_rows {ks}); o_lin (abssum_lin {coef} {ks})]")
    return f"OL [OL []; o_list o_row (prod_rows {ckey(bkey(0))} {clist([bkey(i) for i in c['ts']], ckey)}); OL []]"


def helper_compare(c, snap, v):
    vs, rows, obj, const = snap_canon(snap)
    declared = {((1 if t == "B" else 2), i) for t, i in c["ts"]} if c["kind"] == "abssum" else {bkey(0)} | {bkey(i) for i in c["ts"]}
    impl_new = {k: kk for k, kk in vs.items() if k not in declared}
    mv, mrows, mobj, _ = d_lp([v[0], v[1], v[2] if c["kind"] == "abssum" else [], [0, 1]])
    impl = (sorted(impl_new.items()), merge_eq(rows), obj if c["kind"] == "abssum" else ())
    model = (sorted(mv.items()), merge_eq(mrows), mobj)
    return impl, model


def solved_prod(bits, sense):
    from aldy import lpinterface
    m = lpinterface.model("p", "cbc")
    res = m.addVar(vtype="B", name="R")
    T = [m.addVar(vtype="B", name=f"T_{i}") for i in range(len(bits))]
    for t, b in zip(T, bits):
        m.addConstr(t <= b)
        m.addConstr(t >= b)
    m.prod(res, T)
    m.setObjective(res, method=sense)
    try:
        st, obj = m.solve()
    except lpinterface.NoSolutionsError:
        return "infeasible"
    if st != "optimal":
        return st
    return m.getValue(res)


def solved_abssum(vals, coefs):
    from aldy import lpinterface
    m = lpinterface.model("a", "cbc")
    V = [m.addVar(lb=-m.INF, ub=m.INF, name=f"V_{i}") for i in range(len(vals))]
    for v, x in zip(V, vals):
        m.addConstr(v <= float(x))
        m.addConstr(v >= float(x))
    co = {f"V_{i}": float(cf) for i, cf in enumerate(coefs) if cf is not None}
    m.setObjective(m.abssum(V, coeffs=co))
    try:
        st, obj = m.solve()
    except lpinterface.NoSolutionsError:
        return "infeasible", None
    helpers = {v.name(): v.solution_value() for v in m.variables() if v.name().startswith("ABS_")}
    return obj, [helpers[f"ABS_V_{i}"] for i in range(len(vals))]


def exhaustive_helpers(chk):
    rng = chk.rng
    n = 0
    for k in range(0, 5):
        for bits in itertools.product((0, 1), repeat=k):
            want = all(bits)
            for sense in ("min", "max"):
                got = solved_prod(bits, sense)
                n += 1
                chk.case("prod-exhaustive", [list(bits), sense], nontrivial=True, sample={"factors": list(bits), "sense": sense, "product": got})
                if got is not want:
                    chk.fail("prod-exact", {"stream": "prod-exhaustive", "factors": k}, {"factors": list(bits), "sense": sense}, want, got)
    for k in range(1, 5):
        for signs in itertools.product((-1, 0, 1), repeat=k):
            mags = [F(rng.randint(1, 500), 100) for _ in range(k)]
            vals = [s * a for s, a in zip(signs, mags)]
            coefs = [None if rng.random() < 0.3 else F(rng.randint(1, 300), 100) for _ in range(k)]
            want = sum((F(1) if cf is None else cf) * abs(v) for cf, v in zip(coefs, vals))
            obj, hs = solved_abssum(vals, coefs)
            n += 1
            case = {"values": [str(v) for v in vals], "coeffs": [None if cf is None else str(cf) for cf in coefs]}
            chk.case("abssum-exhaustive", case, nontrivial=True, sample={**case, "objective": obj})
            ok = obj != "infeasible" and close(obj, want) and all(close(h, abs(v)) for h, v in zip(hs, vals))
            if not ok:
                chk.fail("abssum-exact", {"stream": "abssum-exhaustive", "terms": k}, case, {"objective": float(want), "helpers": [float(abs(v)) for v in vals]},
                         {"objective": obj, "helpers": hs})
    return n


def resolve_stream(chk, n):
    """ONE model object solved several times under different objectives, no row added in between (solve -> read back -> setObjective ->
    solve -> read back ... -> solutions()): every read-back is the optimum of the objective in force, the product variable is the AND
    of its factors at every point read, and an enumeration started after earlier solves starts from the current optimum"""
    from aldy import lpinterface
    rng = chk.rng
    for k in range(n):
        nb = rng.randint(2, 4)
        pair = rng.sample(range(nb), 2)
        card = rng.choice([None, ("le", rng.randint(1, nb)), ("ge", 1)])
        objs = []
        for _ in range(rng.choice([2, 3, 4])):
            w = [F(rng.randint(-30, 30), 10) for _ in range(nb)]
            objs.append((w, F(rng.randint(-30, 30), 10), rng.choice(["min", "max"])))
        case = {"binaries": nb, "product_of": pair, "cardinality": card,
                "objectives": [[[str(x) for x in w], str(wr), sense] for w, wr, sense in objs]}
        m = lpinterface.model("r", "cbc")
        B = [m.addVar(vtype="B", name=f"B_{i}") for i in range(nb)]
        R = m.addVar(vtype="B", name="R")
        m.prod(R, [B[i] for i in pair])
        if card:
            e = m.quicksum(B)
            m.addConstr(e <= card[1]) if card[0] == "le" else m.addConstr(e >= card[1])
        feas = [bits for bits in itertools.product((0, 1), repeat=nb)
                if not card or (sum(bits) <= card[1] if card[0] == "le" else sum(bits) >= card[1])]
        val = lambda bits, w, wr: sum(x * b for x, b in zip(w, bits)) + wr * (bits[pair[0]] & bits[pair[1]])
        chk.case("re-solve", case, nontrivial=len(feas) >= 2, sample=case)
        chk.count("re-solve", f"objectives={len(objs)}")
        bad = None
        for step, (w, wr, sense) in enumerate(objs):
            m.setObjective(m.quicksum(float(x) * b for x, b in zip(w, B)) + float(wr) * R, method=sense)
            try:
                st, obj = m.solve()
            except lpinterface.NoSolutionsError:
                st, obj = "infeasible", None
            best = (min if sense == "min" else max)(val(bits, w, wr) for bits in feas) if feas else None
            if best is None or st != "optimal":
                if (best is None) != (st != "optimal"):
                    bad = (step, f"status {st}, exhaustive optimum {best}")
                break
            got = [m.getValue(b) for b in B]
            r = m.getValue(R)
            bits = tuple(int(bool(x)) for x in got)
            if any(type(x) is not bool for x in got + [r]):
                bad = (step, f"read-back of a binary is not a bool: {got + [r]}")
            elif bits not in feas or r != bool(bits[pair[0]] & bits[pair[1]]):
                bad = (step, f"point read back {bits}, R={r} is not a feasible point (R must be the AND of its factors)")
            elif not close(val(bits, w, wr), obj) or not close(obj, best):
                bad = (step, f"reported {obj!r}, the point read back evaluates to {float(val(bits, w, wr))!r}, the optimum is {float(best)!r}")
            if bad:
                break
        if not bad and feas and objs[-1][2] == "min":
            w, wr, _ = objs[-1]
            best = min(val(bits, w, wr) for bits in feas)
            ys = list(itertools.islice(m.solutions(0), 3))
            if not ys:
                bad = (len(objs), "solutions() after earlier solves yields nothing")
            else:
                names = set(ys[0][2])
                bits = tuple(int(f"B_{i}" in names) for i in range(nb))
                if bits not in feas or not close(val(bits, w, wr), best) or not close(ys[0][1], best) or \
                        ("R" in names) != bool(bits[pair[0]] & bits[pair[1]]):
                    bad = (len(objs), f"first yield of solutions() after earlier solves: {ys[0][1]!r} {sorted(names)}, optimum {float(best)!r}")
        if bad:
            chk.fail("first-optimal", {"stream": "re-solve", "step": "enumeration" if bad[0] == len(objs) else "solve"}, case,
                     "every solve of one model object returns the optimum of the objective in force and reads back that point", f"step {bad[0]}: {bad[1]}")


# ------------------------------------------------------------------------------------------------------------------
# evaluation of a batch of enumeration cases
# ------------------------------------------------------------------------------------------------------------------
def case_desc(c, stream):
    return {"stream": stream, "binaries": c["nb"], "gap": str(c["gap"]), "limit": c["limit"], "near_tie": bool(c.get("near_tie"))}


def evaluate_enum(chk, cases, stream="enum", thorough=False, with_model=True):
    eps = solver_precision()
    impls, tables = [], []
    for c in cases:
        impls.append(run_impl(c))
        tables.append(exact_table(c))
    vals = None
    if with_model and chk.model_available():
        terms = [coq_term(c, [[key_of_name(n) for n in y[1]] for y in im["yields"]],
                          points=[exact_point(c, y[2]) for y in im["yields"][:6]] if c.get("ints") else ())
                 for c, im in zip(cases, impls)]
        vals = common.coq_eval(IMPORTS, terms, shard=12, jobs=14)
    for k, (c, im, tb) in enumerate(zip(cases, impls, tables)):
        jc = to_json(c)
        nt = nontrivial(c, tb)
        chk.case(stream, jc, nontrivial=nt, sample={"case": jc, "yields": [[y[0], list(y[1])] for y in im["yields"]], "feasible_assignments": len(tb)})
        chk.count(stream, f"binaries={c['nb']}")
        chk.count(stream, f"gap={c['gap']}")
        chk.count(stream, f"limit={c['limit']}")
        chk.count(stream, f"yields={min(len(im['yields']), 10)}{'+' if len(im['yields']) >= 10 else ''}")
        if not tb:
            chk.count(stream, "infeasible-models")
        objs = sorted(o for _, _, o in tb)
        if any(b == a for a, b in zip(objs, objs[1:])):
            chk.count(stream, "models-with-exact-ties")
        # ---- step 4: the predicate, on the implementation only
        fails = predicate(c, im, tb, eps)
        desc = case_desc(c, stream)
        if fails:
            # is it the back end?  the recorded LP (rows + cuts in force at each solve) goes to an independent solver: CBC answering
            # "no solution" for a model SCIP solves to optimality is a fault of the foreign component, recorded as a fact of the input
            try:
                faults = im["snap"].solver_faults()
            except Exception:   # noqa
                faults = []
            if any(f[1] == "infeasible" for f in faults):
                desc["cbc_infeasible_on_feasible"] = True
        for clause, msg in fails:
            chk.fail(clause, desc, jc, msg, {"yields": [[y[0], list(y[1])] for y in im["yields"]]})
        if thorough:
            best = min((o for _, _, o in tb), default=None)
            for sv in ("SCIP", "HIGHS"):
                st, obj = resolve_snapshot(im["snap"], sv)
                chk.count(stream, f"resolved-{sv}")
                if st not in ("optimal", "infeasible"):
                    chk.count(stream, f"{sv}-inconclusive-{st}")
                elif st == "optimal" and (best is None or float(obj) < float(best) - WIT_TOL):
                    # a certified point below the exhaustive optimum: the harness' own table would be wrong
                    chk.mismatch(f"exact-table-vs-{sv}", jc, None if best is None else float(best), [st, obj])
                elif (best is None) != (st == "infeasible") or (best is not None and not close(obj, best)):
                    chk.count(stream, f"witness-{sv}-wrong")        # the witness is worse than exhaustive enumeration: its problem
                    if len([x for x in chk.notes if x.startswith(f"[C05] witness {sv}")]) < 2:
                        chk.notes.append(f"[C05] witness {sv} disagrees with exhaustive enumeration (exact optimum {None if best is None else float(best)!r}, "
                                         f"{sv}: {st} {obj!r}) on {json.dumps(jc)[:600]}")
                if im["yields"] and st == "optimal" and float(obj) < im["yields"][0][0] - WIT_TOL - TOL_REL * abs(float(obj)):
                    chk.fail("first-optimal", case_desc(c, stream), jc, f"{sv}: {obj!r} (certified feasible point)", f"CBC first yield: {im['yields'][0][0]!r}")
        if vals is None:
            continue
        # ---- step 3: correspondence
        v = vals[k]
        if c.get("ints"):
            mb = sorted(name_of_key(tuple(x)) for x in v[2])
            if v[0] != 0 or mb != sorted(f"B_{i}" for i in range(c["nb"])):
                chk.mismatch("int-model-binaries", jc, [v[0], mb], None)
            # every yield, as an exact point, judged by the MODEL's own semantics: Lp.feasibleb, Lp.objective, Lp.active
            for yk, (y, pv) in enumerate(zip(im["yields"][:6], v[1])):
                mo, ma = common.dq(pv[1]), sorted(name_of_key(tuple(x)) for x in pv[2])
                if not pv[0] or not close(mo, y[0], extra=1e-6) or ma != sorted(y[1]):
                    chk.mismatch("int-model-yield", dict(jc, yield_index=yk), {"feasibleb": bool(pv[0]), "objective": str(mo), "active": ma},
                                 {"reported_objective": y[0], "names": sorted(y[1])})
            mvs, mrows, mobj, mconst = d_lp(v[3])
            ivs, irows, iobj, iconst = snap_canon(im["snap"])
            if (sorted(mvs.items()), merge_eq(mrows), mobj, mconst) != (sorted(ivs.items()), irows, iobj, iconst):
                chk.mismatch("model-rows", jc, repr((sorted(mvs.items()), merge_eq(mrows), mobj, mconst))[:1500], repr((sorted(ivs.items()), irows, iobj, iconst))[:1500])
            continue
        if v[0] != 1:
            chk.mismatch("generator-outside-Brute.shaped", jc, "shaped m = false", None)
        mtable = sorted((common.dq(q), tuple(sorted(name_of_key(tuple(x)) for x in ks))) for q, ks in v[2])
        ptable = sorted((o, tuple(sorted(s))) for _, s, o in tb)
        if mtable != ptable:
            chk.mismatch("brute-table", jc, [(str(q), s) for q, s in mtable][:20], [(str(q), s) for q, s in ptable][:20])
        mvs, mrows, mobj, mconst = d_lp(v[3])
        ivs, irows, iobj, iconst = snap_canon(im["snap"])
        if (sorted(mvs.items()), merge_eq(mrows), mobj, mconst) != (sorted(ivs.items()), irows, iobj, iconst):
            chk.mismatch("model-rows", jc, repr((sorted(mvs.items()), merge_eq(mrows), mobj, mconst))[:1500], repr((sorted(ivs.items()), irows, iobj, iconst))[:1500])
        ms = d_sols(v[1])
        iy = [(y[0], frozenset(y[1])) for y in im["yields"]]
        if ms is None:
            chk.mismatch("enum-fuel-exhausted", jc, None, [[o, sorted(s)] for o, s in iy])
            continue
        same = len(ms) == len(iy) and all(s1 == s2 and close(o1, o2) for (o1, s1), (o2, s2) in zip(ms, iy))
        if not same and tb:
            # candidates within 1e-6 of the stop threshold may be present or absent
            best = min(o for _, _, o in tb)
            thr = float((1 + c["gap"]) * best + eps)
            band = lambda o: abs(float(o) - thr) <= TOL_ABS + TOL_REL * abs(thr)
            ms2 = [(o, s) for o, s in ms if not band(o)]
            iy2 = [(o, s) for o, s in iy if not band(o)]
            same = (len(ms2) == len(iy2) and all(s1 == s2 and close(o1, o2) for (o1, s1), (o2, s2) in zip(ms2, iy2))
                    and (ms2 != ms or iy2 != iy))
            if same:
                chk.count(stream, "threshold-band")
        if not same and desc.get("cbc_infeasible_on_feasible"):
            chk.count(stream, "enum-vs-brute:explained-by-solver-fault")      # the enumeration theorems assume the solver contract CBC broke here
        elif not same:
            chk.mismatch("enum-vs-brute", jc, [[str(o), sorted(s)] for o, s in ms], [[o, sorted(s)] for o, s in iy])


def detect_cutoff_variant():
    """Replays the recorded witness: a model whose two best assignments differ by 1e-5.  -> 'AsShipped' when CBC (as
    configured by aldy) answers 'optimal' with the worse one."""
    c = from_json(WITNESS_NEAR_TIE)
    im = run_impl(c)
    tb = exact_table(c)
    best = min(o for _, _, o in tb)
    return ("AsShipped" if im["yields"] and not close(im["yields"][0][0], best) else "Exact"), im, best


# trial 184 of the probe in the report: cardinality 2 over 8 binaries, 3 error terms, penalties with 1e-5 steps
WITNESS_NEAR_TIE = {
    "nb": 8, "near_tie": True, "gap": "0", "limit": 1, "const": "0", "prods": [], "abs": {},
    "rows": [{"t": [[i, "1"] for i in range(8)], "rel": "eq", "rhs": "2"}],
    "obj": [[i, x] for i, x in enumerate(["100001/50000", "300003/100000", "50001/50000", "80001/40000", "40001/40000", "3/200000", "0", "1/40000"])],
    "eq": [{"co": [[i, x] for i, x in enumerate(r) if x != "0"], "ce": "1", "cov": cv, "lb": None, "ub": None} for r, cv in [
        (["1/2", "1", "1/2", "2", "2", "1/2", "1", "0"], "8/5"),
        (["3/2", "0", "0", "0", "1", "1/2", "1", "1/2"], "4"),
        (["1/2", "2", "1", "1/2", "1/2", "1/2", "2", "1"], "17/5")]],
}


def near_tie_stream(chk, n):
    """Models whose objective coefficients differ by steps of 1e-6..9e-6 (the size of minor.py's tie-breaker).  CBC's
    default cutoff increment (1e-5) makes it blind below that resolution.  The predicate is evaluated at the normal
    tolerance (failures tagged near_tie); whatever still fails at 1.1e-5 is a plain failure."""
    eps = solver_precision()
    variant, im0, best0 = detect_cutoff_variant()
    chk.notes.append(f"[C05] near-tie witness: CBC first yield {im0['yields'][0][0] if im0['yields'] else None!r}, exact optimum {float(best0)!r} "
                     f"-> resolution of the back end as configured: {'1e-5 (CBC cutoff increment)' if variant == 'AsShipped' else 'exact at 1e-6'}")
    cases = [from_json(WITNESS_NEAR_TIE)] + [gen_model(chk.rng, near_tie=True, big=True) for _ in range(n)]
    sink = tagged_sink(chk, "near_tie")
    for c in cases:
        im, tb = run_impl(c), exact_table(c)
        jc = to_json(c)
        chk.case("near-tie", jc, nontrivial=len(tb) >= 2, sample={"case": jc, "yields": [[y[0], list(y[1])] for y in im["yields"]]})
        obs = {"yields": [[y[0], list(y[1])] for y in im["yields"]]}
        beyond = predicate(c, im, tb, eps, tol=1.1e-5)
        for clause, msg in beyond:
            chk.fail(clause, {**case_desc(c, "near-tie"), "beyond_resolution": True}, jc, msg, obs)
        if not beyond:
            fs = predicate(c, im, tb, eps)
            if fs:
                chk.count("near-tie", "models-failing-at-1e-6")
            for clause, msg in fs:
                sink(clause, case_desc(c, "near-tie"), jc, msg, obs)
    return variant


class ProtoRecorder:
    """Same protocol as lprec.Recorder (produces lprec.Snapshot objects) but reads the model back through
    MPSolver.ExportModelToProto (sparse, 0.1 s for the 41672 x 108974 minor model of NA10860) instead of
    GetCoefficient on every (row, variable) pair, which does not terminate in practice on such models."""

    def __init__(self, max_solves=100000):
        self.models = []
        self.max_solves = max_solves

    def __enter__(self):
        from aldy import lpinterface
        from ortools.linear_solver import linear_solver_pb2
        self._lp, self._orig = lpinterface, lpinterface.model
        rec = self

        def rows_of(p, start):
            names = [v.name for v in p.variable]
            return [({names[i]: lprec.frac(x) for i, x in zip(c.var_index, c.coefficient) if x != 0},
                     lprec.frac(c.lower_bound), lprec.frac(c.upper_bound), c.name) for c in p.constraint[start:]]

        class RecCBC(lpinterface.CBC):
            def __init__(self, name):
                super().__init__(name)
                self._snap = lprec.Snapshot(name)
                self._taken = False
                rec.models.append(self._snap)

            def solve(self, init=None):
                if len(self._snap.solves) >= rec.max_solves:       # a tree whose stop rule is broken would enumerate for hours
                    raise RuntimeError("runaway enumeration")
                p = linear_solver_pb2.MPModelProto()
                self.model.ExportModelToProto(p)
                sn = self._snap
                if not self._taken:
                    self._taken = True
                    for v in p.variable:
                        kind = "C" if not v.is_integer else ("B" if (v.lower_bound == 0 and v.upper_bound == 1) else "I")
                        sn.vars.append((v.name, kind, lprec.frac(v.lower_bound), lprec.frac(v.upper_bound)))
                        if v.objective_coefficient != 0:
                            sn.obj[v.name] = lprec.frac(v.objective_coefficient)
                    sn.rows = rows_of(p, 0)
                    sn.obj_const = lprec.frac(p.objective_offset)
                    sn.minimize = not p.maximize
                    sn.n_rows0 = len(p.constraint)
                else:
                    sn.cuts += [(co, lb, ub) for co, lb, ub, _ in rows_of(p, sn.n_rows0 + len(sn.cuts))]
                try:
                    st, obj = super().solve(init)
                except lpinterface.NoSolutionsError:
                    sn.solves.append(("infeasible", None))
                    raise
                sn.solves.append((st, obj))
                return st, obj

        lpinterface.model = lambda name, solver: RecCBC(name)
        return self

    def __exit__(self, *a):
        self._lp.model = self._orig
        return False


# exact input on which CBC (2.10.12 through OR-Tools 9.15, as aldy drives it) answers "optimal" with non-optimal points
# once exclusion cuts are present: the objectives of successive solves go DOWN and the enumeration stops although
# SCIP and HiGHS find a point inside the gap on the final model.
WITNESS_CN = {"gene": "aldy.resources.genes/cyp2d6.yml", "gap": 0.5,
              "cov": {"e1": (3.0, 2.3), "i1": (2.4, 1.8), "e2": (2.6, 2.5), "i2": (1.0, 2.1), "e3": (2.8, 2.0), "e5": (3.0, 2.1),
                      "i5": (1.1, 1.9), "e6": (1.4, 1.8), "i6": (1.1, 1.9), "e9": (1.2, 1.6), "pce": (1.9, 1.9)}}


def recorded_stage_models(chk, n, witness=True):
    """copy-number models aldy builds (solve_cn_model) for the toy gene and for CYP2D6 on random region coverage"""
    from aldy.gene import Gene
    from aldy.common import script_path
    from aldy.profile import Profile
    from aldy.cn import solve_cn_model
    rng = chk.rng
    genes = [Gene(script_path("aldy.tests.resources/toy.yml")), Gene(script_path("aldy.resources.genes/cyp2d6.yml"))]
    jobs = []
    if witness:
        jobs.append((genes[1], WITNESS_CN["gap"], dict(WITNESS_CN["cov"])))
    for k in range(n):
        gene = genes[k % 2]
        gap = rng.choice([0, 0, 0.1, 0.1, 0.5]) if gene is genes[0] else rng.choice([0, 0, 0, 0.1])
        base = rng.choice([1, 2, 2, 3])
        jobs.append((gene, gap, {r: (max(0.0, base + rng.randint(-10, 10) / 10), max(0.0, 2 + rng.randint(-5, 5) / 10)) for r in gene.unique_regions}))
    snaps, gaps = [], []
    for gene, gap, cov in jobs:
        profile = Profile("c05")
        profile.gap = gap
        with ProtoRecorder(max_solves=400) as rec:
            try:
                solve_cn_model(gene, profile, cn_configs=gene.cn_configs, max_cn=profile.cn_max, region_coverage=cov, solver="cbc")
            except Exception as e:
                chk.count("recorded", f"stage-raised-{type(e).__name__}")
        snaps += rec.models
        gaps += [gap] * len(rec.models)
        chk.count("recorded", f"{gene.name}-gap={gap}")
        chk.count("recorded", "solves", sum(len(sn.solves) for sn in rec.models))
    nv = validate_recorded_models(chk, snaps, later_solves=True, gaps=gaps, sink=tagged_sink(chk, "cbc_suboptimal"))
    chk.count("recorded", "cn-models", nv)
    return nv


def recorded_aldy_models(chk):
    """every ILP aldy builds while genotyping shipped test data (thorough tier), validated against SCIP and HiGHS"""
    import io
    from aldy.common import script_path
    from aldy.genotype import genotype
    # as the project's own end-to-end tests call them (test_full.py), minor_phase_vars=10 included
    jobs = [("cyp2d6", "aldy.tests.resources/NA10860.bam", "illumina", {"minor_phase_vars": 10}),
            ("pharmacoscan/cyp2d6", "aldy.tests.resources/HARD.dump.tar.gz", "illumina", {"minor_phase_vars": 10}),
            ("pharmacoscan/cyp2d6", "aldy.tests.resources/INS.dump.tar.gz", "illumina", {"minor_phase_vars": 10, "max_minor_solutions": 1}),
            ("SLCO1B1", "aldy.tests.resources/NA07000_SLCO1B1.vcf.gz", "illumina", {"minor_phase_vars": 10, "max_minor_solutions": 1})]
    for gene, path, prof, kw in jobs:
        t0 = time.time()
        with ProtoRecorder() as rec:
            try:
                with contextlib.redirect_stdout(io.StringIO()), contextlib.redirect_stderr(io.StringIO()):
                    genotype(gene, script_path(path), prof, output_file=None, **kw)
            except Exception as e:
                chk.count("recorded", f"genotype-raised-{type(e).__name__}")
        t1 = time.time()
        sink = tagged_sink(chk, "cbc_suboptimal")
        small = [sn for sn in rec.models if len(sn.vars) <= 5000]
        big = [sn for sn in rec.models if len(sn.vars) > 5000][:2]          # the minor models (tens of thousands of variables)
        n = validate_recorded_models(chk, small, later_solves=True, sink=sink)
        n += validate_recorded_models(chk, big, max_vars=10 ** 6, sink=sink, time_limit_s=90)
        chk.count("recorded", "genotype-models", n)
        chk.notes.append(f"[C05] recorded {len(rec.models)} ILP models while genotyping {gene} on {os.path.basename(path)} "
                         f"(genotype {t1 - t0:.0f}s, SCIP/HiGHS {time.time() - t1:.0f}s), validated {n}; "
                         f"largest {max((len(s.vars) for s in rec.models), default=0)} variables")


def run(chk):
    chk.rule = ("enum: random aldy-shaped models (2-8 binaries incl. 0-2 product variables, 1-5 error terms each defined by an equality, "
                "cardinality/weighted/ordering rows, non-negative objective with abssum terms and optional constant; gap in {0,0.1,0.5}; "
                "limit in {None,0,1,2,3}); distinct = distinct model+gap+limit; non-trivial = at least two feasible assignments of the "
                "binaries and, for gap > 0, at least one assignment strictly between the optimum and the bound. helper-struct: random "
                "term lists for abssum (1-6 terms, coefficient dictionary with missing and foreign names, or None) and prod (0-5 factors, "
                "sometimes repeated). prod-/abssum-exhaustive: all assignments of 0-4 factors x {min,max}; all patterns {-,0,+}^k, k=1..4. "
                "near-tie: objective steps of 1e-6..9e-6. recorded: every ILP aldy builds while genotyping shipped test data")
    chk.extra_trusted = ["OR-Tools 9.15 read-back API (constraint bounds/coefficients) used by harness/lprec.py",
                         "SCIP and HiGHS (through OR-Tools) as independent witnesses of optimality; the harness' own exact enumeration over Fractions"]
    chk.assumptions = ["solver contract (C05_enum_* hypotheses): solve returns Infeasible only for infeasible models and otherwise a feasible point "
                       "of minimum objective with its objective value; validated, not proved, for CBC: against exhaustive enumeration on every "
                       "generated model, against SCIP/HiGHS (thorough tier and on recorded aldy models); proved for the reference solver Brute on "
                       "its syntactic class",
                       "objective coefficients of generated models lie on a decimal grid (steps >= 5e-4) except in the near-tie stream",
                       "abssum term lists without repeated variables (as aldy calls it); with a repeated variable the implementation creates a "
                       "second helper (ABS_x_2) where Lp.abssum_rows reuses abs_key x: same optimum, different structure"]
    chk.build()
    q = chk.tier == "quick"
    rng = chk.rng
    t0 = time.time()
    # corpus first
    corpus = os.path.join(common.VERIF, "corpus", "C05.json")
    pre = [from_json(c) for c in json.load(open(corpus))] if os.path.exists(corpus) else []
    tm = {"build": time.time() - chk.t0}
    t1 = time.time()
    # --- exhaustive helper values through real CBC
    exhaustive_helpers(chk)
    resolve_stream(chk, 60 if q else 600)
    # --- structural tie of the helpers
    hcases = [gen_helper_case(rng) for _ in range(150 if q else 1500)]
    hcases += [{"kind": "prod", "ts": []}, {"kind": "prod", "ts": [1]}, {"kind": "prod", "ts": [2, 2]}]
    snaps = [helper_impl(c) for c in hcases]
    if chk.model_available():
        hv = common.coq_eval(IMPORTS, [helper_term(c) for c in hcases])
        for c, sn, v in zip(hcases, snaps, hv):
            chk.case("helper-struct", to_json(c), nontrivial=len(c["ts"]) > 0, sample=to_json(c))
            chk.count("helper-struct", c["kind"])
            impl, model = helper_compare(c, sn, v)
            if impl != model:
                chk.mismatch(f"helper-{c['kind']}-rows", to_json(c), repr(model)[:1500], repr(impl)[:1500])
    tm["helpers"] = time.time() - t1
    t1 = time.time()
    # --- enumeration
    n_enum = 400 if q else 4000
    cases = pre + [gen_model(rng) for _ in range(n_enum)]
    B = 600
    for k in range(0, len(cases), B):
        evaluate_enum(chk, cases[k:k + B], thorough=not q)
    # --- the same with general integer variables (vtype="I") among the error equalities
    evaluate_enum(chk, [gen_int_model(rng) for _ in range(60 if q else 600)], stream="enum-int", thorough=not q)
    tm["enum"] = time.time() - t1
    t1 = time.time()
    # --- near ties (documented resolution of the back end)
    near_tie_stream(chk, 40 if q else 1000)
    tm["near-tie"] = time.time() - t1
    t1 = time.time()
    # --- models aldy builds itself
    recorded_stage_models(chk, 12 if q else 60)
    if not q:
        recorded_aldy_models(chk)
    tm["recorded"] = time.time() - t1
    flush_unregistered(chk)
    chk.notes.append("[C05] wall by stage (s): " + ", ".join(f"{k} {v:.1f}" for k, v in tm.items()))
    chk.exhaustive = {"prod": "all assignments of 0..4 binary factors, product variable minimised and maximised through real CBC",
                      "abssum": "all sign patterns {-,0,+}^k for k = 1..4 through real CBC"}


def replay(chk, path):
    r = json.load(open(path))
    chk.build()
    case = r["case"]
    if "nb" in case:
        c = from_json(case)
        evaluate_enum(chk, [c], stream="replay")
    elif "factors" in case:
        got = solved_prod(tuple(case["factors"]), case["sense"])
        if got is not all(case["factors"]):
            chk.fail("prod-exact", {}, case, all(case["factors"]), got)
    elif "values" in case:
        vals = [F(v) for v in case["values"]]
        coefs = [None if x is None else F(x) for x in case["coeffs"]]
        obj, hs = solved_abssum(vals, coefs)
        want = sum((F(1) if cf is None else cf) * abs(v) for cf, v in zip(coefs, vals))
        if obj == "infeasible" or not close(obj, want):
            chk.fail("abssum-exact", {}, case, float(want), obj)
    else:
        print("REPLAY: this replay names a recorded model or a broken obligation; re-run the tier instead:", r.get("how_to_run"))
    for f in chk.failures:
        print("still failing:", f["clause"], str(f["expected"])[:300], "observed", json.dumps(f["observed"], default=str)[:300])
    for k, n, d in chk.broken:
        print("broken:", k, n)
    bad = bool(chk.failures or chk.broken)
    print("REPLAY", "FAILS" if bad else "passes")
    return 1 if bad else 0
