"""C14 — genotyping is deterministic, isolated and leaves the database untouched.   (partial: see coq/props/C14.v)

What is PROVED is about coq/theories/Frame.v (frame theorem for the transcribed operations, set-order invariance, candidate
pool).  This harness carries the weight of the property on the implementation:

  histories      random sequences of 2-6 operations {genotype gene A / gene B / another sample, multi-gene run, multi-gene run with a
                 gene that fails, every stage call, every public accessor of Gene / Coverage / solution objects, both output
                 writers, query printing} on loaded objects; after EVERY operation a deep structural snapshot of Gene and of
                 Coverage+Sample is compared with the snapshot taken at load, at the end with a fresh load; every result is
                 compared with the result of a single run in a FRESH process
                 -> clauses repeat-same-process, after-other-genes, multi-gene, failing-gene-isolated, gene-immutable, coverage-immutable
  hash seeds     the same job list in fresh processes under PYTHONHASHSEED 0-7: full results and output files   -> clause hash-seed
  pools          all orderings / subsets of candidate major solutions with different structures handed to estimate_minor;
                 the refinement of each candidate is compared with its refinement alone                        -> clause candidate-independent

The correspondence with the Coq model is the variant detection: the frame witness of props/C14.v (SolvedAllele.mutations) and
the two pool witnesses (last-structure filter, pooled variant list) are replayed on the implementation and must behave as the
model variant says."""
import collections, contextlib, hashlib, io, itertools, json, os, random, re, subprocess, sys, tempfile, time, traceback
import common

IMPORTS = ["Base", "Consts", "Frame"]
TOL = 1e-6
SCORE_RESOLUTION = 0.009     # just below aldy.common.SOLUTION_PRECISION (checked at run time in run())
FORMATS = ("aldy", "vcf", "simple")


# ====================================================================================================================
# canonical forms and comparison
# ====================================================================================================================
def canon_allele(sa):
    return [sa.major, sa.minor, sorted([m.pos, m.op] for m in sa.added), sorted([m.pos, m.op] for m in sa.missing)]


def canon_cn(c):
    return {"score": c.score, "solution": sorted([k, v] for k, v in c.solution.items()), "region_cn": [sorted(d.items()) for d in c.region_cn]}


def canon_major(m):
    return {"score": m.score, "solution": sorted([canon_allele(sa), n] for sa, n in m.solution.items()),
            "cn": canon_cn(m.cn_solution), "added": sorted([x.pos, x.op] for x in m.added)}


def canon_minor(m, with_major=True):
    d = {"score": m.score, "alleles": sorted(canon_allele(sa) for sa in m.solution)}
    if hasattr(m, "diplotype"):
        # haplotypes as alleles, not as indices into m.solution (the list order is the variable order of the model)
        def name(i):
            if isinstance(i, (list, tuple)):
                return [name(j) for j in i]
            return "deletion" if i < 0 else canon_allele(m.solution[i])
        d["diplotype"] = [[name(i) for i in hap] for hap in m.diplotype]
        d["major_name"] = m.get_major_diplotype()
        d["minor_name"] = m.get_minor_diplotype()
    if with_major:
        d["major"] = canon_major(m.major_solution)
    return d


TIE_NOISE = [0]     # score differences between 1e-6 and the tie-breaker resolution seen in cross-seed / cross-pool comparisons


def same(a, b, path="", tol=TOL):
    """deep equality with a tolerance on floats; returns None or the path of the first difference.
    tol = 1e-6 within one process / hash seed.  Across hash seeds and across candidate pools the objective contains the
    construction-order tie-breaker `minor_add * cnt / 1000000` (minor.py:449), which aldy documents as below its score resolution
    SOLUTION_PRECISION (common.py:94-98, consts_wf): there scores are compared at that resolution and the noise is counted."""
    if isinstance(a, float) or isinstance(b, float):
        if isinstance(a, (int, float)) and isinstance(b, (int, float)):
            if abs(a - b) <= TOL + 1e-9 * max(abs(a), abs(b)):
                return None
            if abs(a - b) < tol:
                TIE_NOISE[0] += 1
                return None
        return f"{path}: {a!r} != {b!r}"
    if type(a) != type(b):
        return f"{path}: type {type(a).__name__} != {type(b).__name__}"
    if isinstance(a, dict):
        if list(a.keys()) != list(b.keys()):
            return f"{path}: keys {list(a.keys())[:6]} != {list(b.keys())[:6]}"
        for k in a:
            r = same(a[k], b[k], f"{path}/{k}", tol)
            if r:
                return r
        return None
    if isinstance(a, (list, tuple)):
        if len(a) != len(b):
            return f"{path}: length {len(a)} != {len(b)}"
        for i, (x, y) in enumerate(zip(a, b)):
            r = same(x, y, f"{path}[{i}]", tol)
            if r:
                return r
        return None
    return None if a == b else f"{path}: {a!r} != {b!r}"


# ====================================================================================================================
# deep structural snapshots
# ====================================================================================================================
def snap(o, skip=(), _stack=None):
    """JSON-able structural image: dict order kept (it decides iteration order), sets sorted, objects by class + __dict__"""
    import enum
    _stack = _stack or []
    if o is None or isinstance(o, (bool, int, str)):
        return o
    if isinstance(o, float):
        return ["f", repr(o)]
    if isinstance(o, enum.Enum):
        return ["enum", o.name]
    if id(o) in _stack:
        return ["cycle"]
    _stack = _stack + [id(o)]
    # fast paths for the bulk of the evidence (faithful: repr of builtin containers of numbers / strings)
    if type(o) is list and o and all(type(x) is tuple and len(x) == 2 and type(x[0]) in (int, float) and type(x[1]) in (int, float) for x in o):
        return ["pairs", repr(o)]
    if isinstance(o, dict) and o and all(type(k) is int and type(v) in (int, str, float) for k, v in o.items()):
        return ["dict", type(o).__name__, repr(list(o.items()))]
    if isinstance(o, dict):
        return ["dict", type(o).__name__, [[snap(k, skip, _stack), snap(v, skip, _stack)] for k, v in o.items()]]
    if isinstance(o, (set, frozenset)):
        return ["set", sorted((snap(x, skip, _stack) for x in o), key=lambda x: json.dumps(x, sort_keys=True))]
    if isinstance(o, (list, tuple)):
        return ["seq", type(o).__name__, [snap(x, skip, _stack) for x in o]]
    if hasattr(o, "__dict__"):
        return ["obj", type(o).__name__, [[k, snap(v, skip, _stack)] for k, v in o.__dict__.items() if k not in skip]]
    return ["repr", repr(o)]


def digest(x):
    return hashlib.sha1(json.dumps(x, sort_keys=False, default=str).encode()).hexdigest()


def first_diff(a, b, path=""):
    if type(a) != type(b):
        return f"{path}: {str(a)[:80]} -> {str(b)[:80]}"
    if isinstance(a, list):
        if len(a) != len(b):
            return f"{path}: length {len(a)} -> {len(b)}" + (f" e.g. {str(a[:4])[:120]} -> {str(b[:4])[:120]}" if len(a) < 8 else "")
        for i, (x, y) in enumerate(zip(a, b)):
            r = first_diff(x, y, f"{path}/{x[0] if isinstance(x, list) and x and isinstance(x[0], str) and len(x[0]) < 24 else i}")
            if r:
                return r
        return None
    return None if a == b else f"{path}: {str(a)[:80]} -> {str(b)[:80]}"


def snap_gene(g):
    return snap(g)


def snap_evidence(cov):
    """Coverage and its Sample (the gene is snapshotted separately)"""
    c = snap(cov, skip=("gene", "sam"))
    s = snap(cov.sam, skip=("gene", "coverage", "profile")) if cov.sam is not None else None
    return ["evidence", c, s]


# ====================================================================================================================
# the world: two generated genes + one that fails, two samples, one combined profile
# ====================================================================================================================
def merge_bams(out, paths, extra_sq=()):
    import pysam
    hs = [pysam.AlignmentFile(p) for p in paths]
    sq = []
    for h in hs:
        for s in h.header.to_dict()["SQ"]:
            if s["SN"] not in [x["SN"] for x in sq]:
                sq.append(s)
    for s in extra_sq:
        if s["SN"] not in [x["SN"] for x in sq]:
            sq.append(s)
    hdr = {"HD": {"VN": "1.0", "SO": "coordinate"}, "SQ": sq}
    idx = {s["SN"]: i for i, s in enumerate(sq)}
    recs = []
    for h in hs:
        for r in h.fetch(until_eof=True):
            recs.append((idx[r.reference_name], r.reference_start, r.to_dict()))
        h.close()
    recs.sort(key=lambda x: (x[0], x[1]))
    oh = pysam.AlignmentHeader.from_dict(hdr)
    with pysam.AlignmentFile(out, "wb", header=oh) as f:
        for _, _, dd in recs:
            f.write(pysam.AlignedSegment.from_dict(dd, oh))
    pysam.index(out)


class World:
    def __init__(self, d, seed):
        import gendb, simreads, yaml
        from aldy.gene import Gene, GRange
        from aldy.profile import Profile
        rng = random.Random(seed)
        self.d, self.seed = d, seed
        self.build = rng.choice(["hg19", "hg38"])
        self.L, self.step = rng.choice([(100, 5), (80, 4), (120, 6)])
        strands = rng.choice(["++", "+-", "-+", "--"])
        self.db, self.desc = {}, {}
        spec = {"A": dict(name="GA", chrom="5", pseudogene=True, deletion=True, fusions=(), n_alleles=rng.choice([5, 6, 7]), length=rng.choice([400, 500, 600])),
                "B": dict(name="GB", chrom="7", pseudogene=rng.random() < 0.5, deletion=rng.random() < 0.5, fusions=(), n_alleles=rng.choice([3, 4, 5]), length=rng.choice([300, 400])),
                "C": dict(name="GC", chrom="9", pseudogene=False, deletion=False, fusions=(), n_alleles=3, length=300)}
        for k, o in spec.items():
            for attempt in range(20):
                y, desc = gendb.write_db(d, rng, strands=strands, simulation_friendly=True, **o)
                norm = [a for a, v in desc["alleles"].items() if v["kind"] == "normal"]
                # gene A needs sub-alleles with silent variants (the allele-variant accessor is only visible on those)
                silent = [a for a in norm if any(f is None for _, _, _, f in desc["alleles"][a]["variants"])]
                if k != "A" or (len(norm) >= 4 and silent):
                    break
            assert not gendb.selfcheck(y, desc), "generated database inconsistent with aldy.gene.Gene"
            self.db[k], self.desc[k] = y, desc
        # samples: S1, S2 carry genes A and B; gene C has no reads at all
        self.plant, self.bam = {}, {}
        for sname in ("s1", "s2"):
            parts = []
            for k in ("A", "B"):
                desc = self.desc[k]
                norm = [a for a, v in desc["alleles"].items() if v["kind"] == "normal"]
                dele = [a for a, v in desc["alleles"].items() if v["kind"] == "deletion"]
                r = rng.random()
                if r < 0.6 or not dele:
                    al = [rng.choice(norm), rng.choice(norm)]
                elif r < 0.85:
                    al = [rng.choice(norm), dele[0]]
                else:
                    al = [rng.choice(norm), rng.choice(norm), rng.choice(norm)]
                self.plant[sname, k] = al
                p = os.path.join(d, f"{sname}_{k}.bam")
                simreads.simulate(desc, self.build, al, None, self.L, self.step, p, rng)
                parts.append(p)
            self.bam[sname] = os.path.join(d, f"{sname}.bam")
            # the contig of gene C is in the header (as in any real alignment file) but carries no read
            cb = self.desc["C"]["builds"][self.build]
            merge_bams(self.bam[sname], parts, extra_sq=[{"SN": cb["chr"], "LN": cb["chrom_len"]}])
        # combined profile: two-copy reference of A, B, C in one BAM, neutral region of gene A
        parts = []
        for k in ("A", "B", "C"):
            desc = self.desc[k]
            p = os.path.join(d, f"ref_{k}.bam")
            simreads.simulate(desc, self.build, ["1.001", "1.001"] if "1.001" in desc["alleles"] else [sorted(desc["alleles"])[0]] * 2,
                              None, self.L, self.step, p, rng)
            parts.append(p)
        ref = os.path.join(d, "ref.bam")
        merge_bams(ref, parts)
        regions = {}
        for k in ("A", "B", "C"):
            g = Gene(self.db[k], genome=self.build)
            for gi, gr in enumerate(g.regions):
                for r, rg in gr.items():
                    regions[g.name, r, gi] = rg
        self.neutral = self.desc["A"]["builds"][self.build]["neutral"]
        data = Profile.get_sam_profile_data(ref, regions=regions, cn_region=GRange(*self.neutral), genome=self.build)
        self.profile = os.path.join(d, "combined.profile.yml")
        open(self.profile, "w").write(yaml.dump(data, default_flow_style=None))

    def job(self, genes, sample, fmt, **params):
        return {"kind": "genotype", "genes": genes, "db": ",".join(self.db[k] for k in genes), "bam": self.bam[sample], "sample": sample,
                "profile": self.profile, "genome": self.build, "fmt": fmt, "params": params}


def job_key(j):
    return json.dumps({k: j[k] for k in sorted(j) if k not in ("db", "bam", "profile")}, sort_keys=True)


def run_genotype_job(job, d):
    from aldy.genotype import genotype
    from aldy.common import AldyException
    out_path = os.path.join(d, "out." + job["fmt"])
    res, err = {}, None
    with open(out_path, "w") as f:
        try:
            res = genotype(job["db"], job["bam"], job["profile"], f, genome=job["genome"], **job["params"])
        except AldyException as e:
            err = str(e).split("\n")[0]
    text = open(out_path).read()
    os.remove(out_path)
    return {"error": err, "result": {os.path.basename(k): [canon_minor(m) for m in v] for k, v in res.items()}, "file": text}


# ====================================================================================================================
# witnesses built by hand on the shipped TOY gene
# ====================================================================================================================
def toy_gene(extra_random=None):
    import yaml
    from aldy.gene import Gene
    from aldy.common import script_path
    y = yaml.safe_load(open(script_path("aldy.tests.resources/toy.yml")))
    if extra_random:
        y["alleles"]["random"] = extra_random
    return Gene(None, name="TOY", yml=yaml.dump(y), genome="hg19")


def table_coverage(gene, table, phases=None, **params):
    from aldy.profile import Profile
    from aldy.coverage import Coverage
    from aldy.sam import Sample
    cov = collections.defaultdict(dict)
    for (pos, op), c in table:
        cov[pos][op] = [(60, 60)] * c
    c = Coverage(gene, Profile("test", **params), None, cov, None, {})
    if phases is not None:
        c.sam = Sample.__new__(Sample)
        c.sam.phases = phases
    return c


def major_candidate(gene, cn_list, majors, added=(), score=0):
    from aldy.solutions import CNSolution, MajorSolution, SolvedAllele
    from aldy.gene import Mutation
    cn = CNSolution(gene, 0, list(cn_list))
    return MajorSolution(score, collections.Counter({SolvedAllele(gene, m): c for m, c in majors}), cn, [Mutation(*m) for m in added])


def tie_witness():
    """DESIGN.md section 5 item 9: two sites, two non-reference bases each at 50%, no phase evidence: which pairing is reported?"""
    from aldy.minor import estimate_minor
    g = toy_gene([[121, "A>C", "rs1"], [121, "A>G", "rs2"], [137, "A>C", "rs3"], [137, "A>T", "rs4"]])
    p1, p2 = sorted({m.pos for m in g.random_mutations})
    cov = table_coverage(g, [((p1, "A>C"), 10), ((p1, "A>G"), 10), ((p2, "A>C"), 10), ((p2, "A>T"), 10)])
    sols = estimate_minor(g, cov, [major_candidate(g, ["1", "1"], [("1", 2)])], "any")
    return [canon_minor(s, with_major=False) for s in sols]


def novel_names():
    """three functional variants no allele carries, homozygous: both copies are *1 plus three additions; every name and diplotype
    string of the solution objects (the additions are listed in them) is part of the result"""
    from aldy.minor import estimate_minor
    from aldy.major import estimate_major
    from aldy.solutions import CNSolution
    g = toy_gene([[121, "A>C", "rs1", "X1Y"], [137, "A>T", "rs4", "X2Y"], [150, "A>G", "rs5", "X3Y"], [162, "A>C", "rs6", "X4Y"]])
    tab = [((m.pos, m.op), 20) for m in sorted(g.random_mutations)]
    cov = table_coverage(g, tab)
    majs = estimate_major(g, cov, CNSolution(g, 0, ["1", "1"]), "any")
    sols = estimate_minor(g, cov, majs, "any")
    out = []
    for s in sols:
        n = range(len(s.solution))
        out.append({"minor": canon_minor(s), "major_names": [s.get_major_name(i) for i in n], "minor_names": [s.get_minor_name(i) for i in n],
                    "major_diplotype": s.get_major_diplotype(), "minor_diplotype": s.get_minor_diplotype(), "str": s._solution_nice()})
    return out


# ====================================================================================================================
# worker: one fresh process per hash seed
# ====================================================================================================================
def stage_results(db, bam, profile, genome):
    """canonical results of the three stages on freshly loaded objects"""
    h = Held(db, bam, profile, genome)
    return h.stage_baseline()


def evidence_value(db, bam, profile, genome, held=None):
    """what a freshly loaded sample holds: digest of the Coverage / Sample snapshot plus the read-phasing table read through attribute
    lookup (so that state kept on the class or the module instead of the object is seen as well)"""
    h = held or Held(db, bam, profile, genome)
    ph = getattr(h.sample, "phases", None) or {}
    frags = sorted(json.dumps(sorted((int(p), str(o)) for p, o in v.items())) for v in ph.values())
    return {"evidence": h.he, "n_phases": len(ph), "phases": digest(frags),
            "indels": sorted((int(k[0]), str(k[1]), [int(x) for x in v]) for k, v in getattr(h.sample, "_indel_sites", {}).items())}


def worker_main(spec_path):
    common.quiet_aldy()
    spec = json.load(open(spec_path))
    out = {}
    with tempfile.TemporaryDirectory(dir=spec["scratch"]) as d:
        for j in spec["jobs"]:
            t = time.time()
            try:
                if j["kind"] == "genotype":
                    r = run_genotype_job(j, d)
                elif j["kind"] == "tie":
                    r = tie_witness()
                elif j["kind"] == "novel-names":
                    r = novel_names()
                elif j["kind"] == "stages":
                    r = stage_results(j["db"], j["bam"], j["profile"], j["genome"])
                elif j["kind"] == "evidence":
                    r = evidence_value(j["db"], j["bam"], j["profile"], j["genome"])
                else:
                    r = {"crash": "unknown job"}
            except Exception:
                r = {"crash": traceback.format_exc()[-800:]}
            out[job_key(j)] = {"value": r, "t": round(time.time() - t, 2)}
    json.dump(out, open(spec["out"], "w"))


def spawn_worker(spec, seed, repo):
    env = dict(os.environ, PYTHONHASHSEED=str(seed), PYTHONPATH=f"{repo}:{os.path.dirname(os.path.abspath(__file__))}", PYTHONWARNINGS="ignore")
    return subprocess.Popen([sys.executable, os.path.abspath(__file__), "--worker", spec], env=env,
                            stdout=subprocess.DEVNULL, stderr=subprocess.PIPE, text=True)


# ====================================================================================================================
# loaded objects and the operations of a history
# ====================================================================================================================
class Held:
    def __init__(self, db, bam, profile, genome):
        from aldy.gene import Gene
        from aldy.profile import Profile
        from aldy.sam import Sample
        self.args = (db, bam, profile, genome)
        self.gene = Gene(db, genome=genome)
        self.profile = Profile.load(self.gene, profile, None)
        self.sample = Sample(self.gene, self.profile, bam)
        self.cov = self.sample.coverage
        self.g0, self.e0 = snap_gene(self.gene), snap_evidence(self.cov)
        self.hg, self.he = digest(self.g0), digest(self.e0)
        self.cn = self.major = self.minor = None

    def fresh(self):
        return Held(*self.args)

    # ---- stages (results kept for later operations)
    def run_cn(self):
        from aldy.cn import estimate_cn
        self.cn = sorted(estimate_cn(self.gene, self.profile, self.cov, "any"), key=lambda c: (int(1000 * c.score), c._solution_nice()))
        return [canon_cn(c) for c in self.cn]

    def run_cn_direct(self):
        """solve_cn_model handed the catalogue's own configuration table (as aldy's tests do)"""
        from aldy.cn import solve_cn_model
        from math import ceil
        g, cov = self.gene, self.cov
        region_cov = {r: (cov.region_coverage(0, r), cov.region_coverage(1, r) if len(g.regions) > 1 else 0.0) for r in g.unique_regions}
        mx = 1 + max(ceil(cov.region_coverage(gi, r)) for gi, gr in enumerate(g.regions) for r in gr)
        sols = solve_cn_model(g, self.profile, g.cn_configs, mx, region_cov, "any")
        return [canon_cn(c) for c in sorted(sols, key=lambda c: (int(1000 * c.score), c._solution_nice()))]

    def run_major(self):
        from aldy.major import estimate_major
        if self.cn is None:
            self.run_cn()
        self.major = []
        for i, c in enumerate(self.cn):
            self.major += estimate_major(self.gene, self.cov, c, "any", identifier=i)
        self.major.sort(key=lambda m: (int(1000 * m.score), m._solution_nice()))
        return [canon_major(m) for m in self.major]

    def run_minor(self):
        from aldy.minor import estimate_minor
        if self.major is None:
            self.run_major()
        self.minor = estimate_minor(self.gene, self.cov, self.major, "any") if self.major else []
        self.minor.sort(key=lambda m: (int(1000 * m.score), m._solution_nice()))
        return [canon_minor(m) for m in self.minor]

    def run_diplotype(self):
        from aldy.diplotype import estimate_diplotype
        if self.minor is None:
            self.run_minor()
        return [[estimate_diplotype(self.gene, m), json.loads(json.dumps(m.diplotype))] for m in self.minor]

    def run_writers(self):
        from aldy.diplotype import write_decomposition, write_vcf
        if self.minor is None:
            self.run_minor()
        a, v = io.StringIO(), io.StringIO()
        for i, m in enumerate(self.minor):
            write_decomposition(self.sample.name, self.gene, self.cov, i + 1, m, a)
        if self.minor:
            write_vcf(self.sample.name, self.gene, self.cov, self.minor, v)
        return {"decomposition": a.getvalue(), "vcf": v.getvalue()}

    def run_query(self):
        from aldy.query import query
        g = self.gene
        qs = [""] + list(g.cn_configs)[:3] + list(g.alleles)[:4] + [m for a in g.alleles.values() for m in a.minors][:4]
        buf = io.StringIO()
        n = 0
        with contextlib.redirect_stdout(buf), contextlib.redirect_stderr(buf):
            for q in qs:
                try:
                    query(g, q)
                    n += 1
                except SystemExit:
                    pass
        return n

    def stage_baseline(self):
        return {"cn": self.run_cn(), "cn_direct": self.run_cn_direct(), "major": self.run_major(), "minor": self.run_minor(),
                "diplotype": self.run_diplotype(), "writers": self.run_writers()}

    # ---- accessors: name -> thunk; every public method of the classes, found by introspection
    def accessors(self, rng):
        import inspect
        from aldy.gene import Gene, Mutation, MajorAllele, MinorAllele, CNConfig
        from aldy.coverage import Coverage
        from aldy.solutions import CNSolution, SolvedAllele, MajorSolution, MinorSolution
        g, cov = self.gene, self.cov
        if self.minor is None:
            self.run_minor()
        muts = [Mutation(*m) for m in g.mutations]
        mut = rng.choice(muts) if muts else Mutation(min(g.chr_to_ref), "A>C")
        pos_in = rng.choice(sorted(g.chr_to_ref))
        novel = Mutation(pos_in, f"{g[pos_in]}>{'A' if g[pos_in] != 'A' else 'C'}")
        major = rng.choice(list(g.alleles))
        minor = rng.choice(list(g.alleles[major].minors))
        cn = self.cn[0] if self.cn else CNSolution(g, 0, ["1", "1"])
        reg = rng.choice([(gi, r) for gi, gr in enumerate(g.regions) for r in gr])
        solved = []
        for ms in self.minor:
            solved += list(ms.solution)
        # synthetic solved alleles: a sub-allele with silent variants, and one with added / missing variants
        for a, al in g.alleles.items():
            for mi, mal in al.minors.items():
                if mal.neutral_muts - al.func_muts:
                    solved.append(SolvedAllele(g, a, mi))
                    break
        extra = [m for m in muts if m not in g.alleles[major].func_muts][:1]
        solved.append(SolvedAllele(g, major, minor, list(extra), list(g.alleles[major].func_muts)[:1]))
        args = {
            ("Gene", "region_at"): lambda: [g.region_at(pos_in), g.region_at(-5)],
            ("Gene", "get_functional"): lambda: [g.get_functional(mut), g.get_functional(novel), g.get_functional(novel, False)],
            ("Gene", "is_functional"): lambda: [g.is_functional(mut), g.is_functional(novel, False)],
            ("Gene", "get_rsid"): lambda: [g.get_rsid(mut), g.get_rsid(mut.pos, mut.op), g.get_rsid(novel, default=False)],
            ("Gene", "get_allele"): lambda: [str(g.get_allele(minor)), g.get_allele("nope")],
            ("Gene", "get_refseq"): lambda: [g.get_refseq(mut), g.get_refseq(mut, from_atg=True), g.get_refseq(novel)],
            ("Gene", "deletion_allele"): lambda: g.deletion_allele(),
            ("Gene", "has_coverage"): lambda: [g.has_coverage(major, pos_in), g.has_coverage(major, -1)],
            ("Gene", "get_wide_region"): lambda: g.get_wide_region(),
            ("Gene", "__contains__"): lambda: [pos_in in g, -1 in g],
            ("Gene", "__getitem__"): lambda: [g[pos_in], g[pos_in - 3:pos_in + 3], g[-10]],
            ("Gene", "__str__"): lambda: str(g), ("Gene", "__repr__"): lambda: repr(g),
            ("MajorAllele", "get_minor_mutations"): lambda: sorted(g.alleles[major].get_minor_mutations(minor)),
            ("MinorAllele", "__str__"): lambda: str(g.alleles[major].minors[minor]),
            ("CNConfig", "vector"): lambda: [c.vector for c in g.cn_configs.values()],
            ("CNConfig", "__str__"): lambda: [str(c) for c in g.cn_configs.values()],
            ("Coverage", "__getitem__"): lambda: [cov[mut], cov[novel]],
            ("Coverage", "coverage"): lambda: [cov.coverage(m) for m in muts[:8]],
            ("Coverage", "total"): lambda: [cov.total(mut), cov.total(pos_in), cov.total(-7)],
            ("Coverage", "percentage"): lambda: [cov.percentage(m) for m in muts[:8]],
            ("Coverage", "single_copy"): lambda: [cov.single_copy(mut, cn), cov.single_copy(pos_in, cn)],
            ("Coverage", "region_coverage"): lambda: cov.region_coverage(*reg),
            ("Coverage", "average_coverage"): lambda: cov.average_coverage(),
            ("Coverage", "diploid_avg_coverage"): lambda: cov.diploid_avg_coverage(),
            ("Coverage", "dump"): lambda: cov.dump(out=lambda s: None),
            ("Coverage", "filtered"): lambda: [len(cov.filtered(Coverage.quality_filter)._coverage),
                                               len(cov.filtered(lambda c, m: c.basic_filter(m, cn=2))._coverage)],
            ("Coverage", "basic_filter"): lambda: [cov.basic_filter(mut), cov.basic_filter(mut, cn=3, thres=0.3)],
            ("Coverage", "quality_filter"): lambda: len(cov.quality_filter(mut)),
            ("CNSolution", "position_cn"): lambda: [c.position_cn(pos_in) for c in (self.cn or [])] + [cn.position_cn(-3)],
            ("CNSolution", "max_cn"): lambda: cn.max_cn(),
            ("CNSolution", "_solution_nice"): lambda: cn._solution_nice(),
            ("CNSolution", "__str__"): lambda: str(cn), ("CNSolution", "__hash__"): lambda: hash(cn) and 0,
            ("SolvedAllele", "mutations"): lambda: [sorted(sa.mutations()) for sa in solved],
            ("SolvedAllele", "major_repr"): lambda: [sa.major_repr() for sa in solved],
            ("SolvedAllele", "__str__"): lambda: [str(sa) for sa in solved],
            ("SolvedAllele", "__hash__"): lambda: [hash(sa) and 0 for sa in solved],
            ("MajorSolution", "_solution_nice"): lambda: [m._solution_nice() for m in self.major],
            ("MajorSolution", "__str__"): lambda: [str(m) for m in self.major],
            ("MajorSolution", "__hash__"): lambda: [hash(m) and 0 for m in self.major],
            ("MinorSolution", "_solution_nice"): lambda: [m._solution_nice() for m in self.minor],
            ("MinorSolution", "__str__"): lambda: [str(m) for m in self.minor],
            ("MinorSolution", "get_diplotype"): lambda: [m.get_diplotype() for m in self.minor],
            ("MinorSolution", "set_diplotype"): lambda: [m.set_diplotype(m.get_diplotype()) for m in self.minor],
            ("MinorSolution", "get_major_name"): lambda: [m.get_major_name(i) for m in self.minor for i in [-1] + list(range(len(m.solution)))],
            ("MinorSolution", "get_minor_name"): lambda: [m.get_minor_name(i, legacy) for m in self.minor for i in [-1] + list(range(len(m.solution))) for legacy in (False, True)],
            ("MinorSolution", "get_major_diplotype"): lambda: [m.get_major_diplotype() for m in self.minor],
            ("MinorSolution", "get_minor_diplotype"): lambda: [m.get_minor_diplotype(True) for m in self.minor],
            ("MinorSolution", "get_mutation_coverages"): lambda: [len(m.get_mutation_coverages(cov)) for m in self.minor],
        }
        public, unknown = [], []
        for cls in (Gene, MajorAllele, MinorAllele, CNConfig, Coverage, CNSolution, SolvedAllele, MajorSolution, MinorSolution):
            for name, member in cls.__dict__.items():
                if not (inspect.isfunction(member) or isinstance(member, property)):
                    continue
                if name in ("__init__", "__eq__", "__post_init__", "__dataclass_fields__", "__match_args__") or (name.startswith("_") and (cls.__name__, name) not in args):
                    continue
                if (cls.__name__, name) in args:
                    public.append((f"{cls.__name__}.{name}", args[cls.__name__, name]))
                else:
                    unknown.append(f"{cls.__name__}.{name}")
        return public, unknown


STAGE_OPS = {"estimate_cn": "run_cn", "solve_cn_model(gene.cn_configs)": "run_cn_direct", "estimate_major": "run_major",
             "estimate_minor": "run_minor", "estimate_diplotype": "run_diplotype", "writers": "run_writers", "query": "run_query"}
STAGE_KEY = {"estimate_cn": "cn", "solve_cn_model(gene.cn_configs)": "cn_direct", "estimate_major": "major", "estimate_minor": "minor",
             "estimate_diplotype": "diplotype", "writers": "writers"}


def gen_history(rng, jobs=None):
    """operations of one history; genotype / multi-gene operations are drawn from the job list the fresh processes run"""
    singles = [f"genotype:{j['genes'][0]}:{j['sample']}:{j['fmt']}" for j in (jobs or []) if j["kind"] == "genotype" and len(j["genes"]) == 1 and j["genes"][0] != "C"]
    multis = [f"multi:{','.join(j['genes'])}:{j['sample']}:{j['fmt']}" for j in (jobs or []) if j["kind"] == "genotype" and len(j["genes"]) > 1]
    n = rng.randint(2, 6)
    ops = []
    for _ in range(n):
        r = rng.random()
        if r < 0.30 and singles:
            ops.append(rng.choice(singles))
        elif r < 0.42 and multis:
            ops.append(rng.choice(multis))
        elif r < 0.70:
            ops.append("stage:" + rng.choice(list(STAGE_OPS)))
        else:
            ops.append("accessors:" + rng.choice(["Gene", "Coverage", "solutions", "all"]))
    return ops


def op_job(world, op):
    kind, genes, sample, fmt = op.split(":")
    return world.job(genes.split(","), sample, fmt)


def all_jobs(world, quick=True):
    jobs = []
    for g in ("A", "B"):
        for smp in ("s1", "s2"):
            for fmt in (FORMATS if (g == "A" or not quick) else ("simple", "aldy")):
                jobs.append(world.job([g], smp, fmt))
    for genes, smp in ((["A", "B"], "s1"), (["B", "A"], "s1"), (["A", "C", "B"], "s1"), (["C", "A"], "s2"), (["A", "B"], "s2")):
        for fmt in (("simple",) if (quick and genes[0] != "A") else ("simple", "aldy")):
            jobs.append(world.job(genes, smp, fmt))
    for smp in ("s1", "s2"):
        for fmt in (("simple",) if quick else ("simple", "aldy")):
            jobs.append(world.job(["C"], smp, fmt))
    jobs.append({"kind": "stages", "db": world.db["A"], "bam": world.bam["s1"], "profile": world.profile, "genome": world.build})
    jobs.append({"kind": "tie"})
    jobs.append({"kind": "novel-names"})
    for smp in ("s1", "s2"):
        jobs.append({"kind": "evidence", "sample": smp, "db": world.db["A"], "bam": world.bam[smp], "profile": world.profile, "genome": world.build})
    return jobs


# ====================================================================================================================
# histories
# ====================================================================================================================
def check_snapshots(chk, held, opname, history, k, world, detail=None):
    """after an operation: loaded gene / evidence must equal their image at load; returns a fresh Held if something changed"""
    changed = False
    sg = snap_gene(held.gene)
    if digest(sg) != held.hg:
        changed = True
        chk.fail("gene-immutable", {"op": detail or opname, "what": "catalogue changed"}, {"world_seed": world.seed, "history": history, "step": k},
                 "Gene compares equal to its image at load", first_diff(held.g0, sg))
    se = snap_evidence(held.cov)
    if digest(se) != held.he:
        changed = True
        chk.fail("coverage-immutable", {"op": detail or opname, "what": "coverage/sample changed"}, {"world_seed": world.seed, "history": history, "step": k},
                 "Coverage and Sample compare equal to their image at load", first_diff(held.e0, se))
    return changed


KNOWN_CULPRITS = set()      # accessors already seen to modify the loaded objects (learned at run time, never assumed)


def run_accessors(chk, held, group, rng, history, k, world):
    """call every public accessor of the group; snapshots after the group; an accessor that was seen to modify the loaded
    objects is afterwards called on its own (with its own snapshot check) so that the others stay observable"""
    seed = rng.randrange(2 ** 30)

    def select(h):
        public, unknown = h.accessors(random.Random(seed))
        sel = [(n, f) for n, f in public if group == "all"
               or (group == "solutions" and n.split(".")[0] in ("CNSolution", "SolvedAllele", "MajorSolution", "MinorSolution"))
               or n.startswith(group + ".") or (group == "Gene" and n.split(".")[0] in ("MajorAllele", "MinorAllele", "CNConfig"))]
        return sel, unknown

    def call(n, f):
        try:
            f()
            chk.count("accessors", "called:" + n)
        except Exception as e:
            chk.count("accessors", f"raised:{n}:{type(e).__name__}")

    def clean(h):
        return digest(snap_gene(h.gene)) == h.hg and digest(snap_evidence(h.cov)) == h.he

    sel, unknown = select(held)
    for u in unknown:
        chk.count("accessors", "no-argument-recipe:" + u)
    for n, f in sel:
        if n not in KNOWN_CULPRITS:
            call(n, f)
    if not clean(held):
        # find the accessor: one by one on fresh objects, snapshot after each
        h = held.fresh()
        sel2, _ = select(h)
        found = False
        for n, f in sel2:
            if n in KNOWN_CULPRITS:
                continue
            call(n, f)
            if not clean(h):
                found = True
                KNOWN_CULPRITS.add(n)
                check_snapshots(chk, h, "accessors:" + group, history, k, world, detail=n)
                h = held.fresh()
                sel2b, _ = select(h)      # continue with fresh objects (thunks are bound to the objects)
                rest = [x for x in sel2b if x[0] not in KNOWN_CULPRITS and [y[0] for y in sel2b].index(x[0]) > [y[0] for y in sel2b].index(n)]
                for n2, f2 in rest:
                    call(n2, f2)
                    if not clean(h):
                        KNOWN_CULPRITS.add(n2)
                        check_snapshots(chk, h, "accessors:" + group, history, k, world, detail=n2)
                        h = held.fresh()
                break
        if not found:
            check_snapshots(chk, held, "accessors:" + group, history, k, world, detail="accessors:" + group + " (combination)")
        held = held.fresh()
        sel, _ = select(held)
    for n, f in sel:
        if n in KNOWN_CULPRITS:
            call(n, f)
            if check_snapshots(chk, held, "accessors:" + group, history, k, world, detail=n):
                held = held.fresh()
                sel_new, _ = select(held)
                sel = sel_new
    return held


FRESH_CACHE = {}


def run_histories(chk, world, n_hist, baseline, d):
    rng = chk.rng
    pending = []      # (clause, desc, case, in-process value, baseline key)
    held = None
    # fixed histories first: the same gene with two DIFFERENT samples one after the other (state kept per class / module instead of per
    # object shows here: the second sample inherits what the first one left), both orders, and a repeat with another gene in between
    fixed = [["genotype:A:s1:aldy", "genotype:A:s2:aldy", "genotype:A:s1:aldy"], ["genotype:A:s2:aldy", "genotype:A:s1:aldy"],
             ["genotype:B:s1:simple", "genotype:B:s2:simple", "genotype:A:s1:simple", "genotype:B:s1:simple"],
             # an earlier call on the same database under a profile alias that switches copy-number calling off (exome / wes): whatever
             # that call does, the next ordinary call must be the fresh-process call
             ["alias:A:s1:aldy:exome", "genotype:A:s1:aldy"], ["genotype:A:s2:aldy", "alias:A:s2:aldy:wes", "genotype:A:s2:aldy", "genotype:B:s1:simple"]]
    # two different samples of one gene loaded one after the other, both orders: what the second Sample holds must be what a fresh
    # process loads for it
    for order in (("s1", "s2"), ("s2", "s1"), ("s1", "s1")):
        vals = []
        for smp in order:
            h = Held(world.db["A"], world.bam[smp], world.profile, world.build)
            vals.append((smp, evidence_value(None, None, None, None, held=h)))
        smp, val = vals[-1]
        chk.case("history", {"world": world.seed, "ops": ["load:" + x for x in order]}, nontrivial=True, sample={"ops": ["load:" + x for x in order]})
        pending.append(("after-other-genes" if order[0] != order[1] else "repeat-same-process",
                        {"op": "load", "compare": "fresh-process load of the sample", "order": ",".join(order)},
                        {"world_seed": world.seed, "history": ["load:" + x for x in order], "step": 1}, val,
                        job_key({"kind": "evidence", "sample": smp, "db": "", "bam": "", "profile": "", "genome": world.build}), None))
    for hno in range(n_hist):
        history = fixed[hno] if hno < len(fixed) else gen_history(rng, baseline)
        if held is None or digest(snap_gene(held.gene)) != held.hg or digest(snap_evidence(held.cov)) != held.he:
            held = Held(world.db["A"], world.bam["s1"], world.profile, world.build)
        held.cn = held.major = held.minor = None
        seen_jobs = []
        chk.case("history", {"world": world.seed, "ops": history, "n": hno}, nontrivial=True, sample={"ops": history})
        for k, op in enumerate(history):
            chk.count("history-ops", op.split(":")[0] + ":" + op.split(":")[1])
            chk.case("history-op", {"world": world.seed, "prefix": history[:k + 1]}, nontrivial=True)
            case = {"world_seed": world.seed, "history": history, "step": k}
            if op.startswith("alias:"):
                _, gk, smp, fmt, alias = op.split(":")
                try:
                    run_genotype_job(dict(world.job([gk], smp, fmt), profile=alias), d)      # outcome irrelevant: only a history
                except Exception:   # noqa
                    pass
                continue
            if op.startswith("genotype:") or op.startswith("multi:"):
                job = op_job(world, op)
                val = run_genotype_job(job, d)
                if op.startswith("genotype:"):
                    clause = "repeat-same-process" if job_key(job) in seen_jobs else "after-other-genes"
                    pending.append((clause, {"op": op.split(":")[0], "compare": "fresh-process single run"}, case, val, job_key(job), None))
                else:
                    genes = job["genes"]
                    clause = "failing-gene-isolated" if "C" in genes else "multi-gene"
                    pending.append((clause, {"op": "multi", "genes": ",".join(genes), "compare": "fresh-process multi-gene run"}, case, val, job_key(job), None))
                    # and against the single-gene runs of a fresh process
                    for gk in genes:
                        pending.append((clause, {"op": "multi", "genes": ",".join(genes), "compare": "fresh-process single run of " + gk}, case, val,
                                        job_key(world.job([gk], job["sample"], job["fmt"])), gk))
                seen_jobs.append(job_key(job))
                name = op
            elif op.startswith("stage:"):
                name = op[6:]
                try:
                    val = getattr(held, STAGE_OPS[name])()
                except Exception:
                    val = {"crash": traceback.format_exc()[-500:]}
                if name in STAGE_KEY:
                    pending.append(("repeat-same-process", {"op": name, "compare": "fresh-process stage call"}, case, val, "stages", STAGE_KEY[name]))
            else:
                name = op
                held = run_accessors(chk, held, op.split(":")[1], rng, history, k, world)
                continue
            if check_snapshots(chk, held, name, history, k, world):
                held = held.fresh()
        # end of history: compare with a fresh load (a real one every 4th history, its image is reused in between)
        if hno % 4 == 0 or "fresh" not in FRESH_CACHE:
            FRESH_CACHE["fresh"] = held.fresh()
            chk.count("history", "fresh-loads")
        fresh = FRESH_CACHE["fresh"]
        if digest(snap_gene(held.gene)) != fresh.hg:
            chk.fail("gene-immutable", {"op": "history-end", "what": "differs from a fresh load"}, {"world_seed": world.seed, "history": history}, "equal to a fresh load",
                     first_diff(fresh.g0, snap_gene(held.gene)))
        if digest(snap_evidence(held.cov)) != fresh.he:
            chk.fail("coverage-immutable", {"op": "history-end", "what": "differs from a fresh load"}, {"world_seed": world.seed, "history": history}, "equal to a fresh load",
                     first_diff(fresh.e0, snap_evidence(held.cov)))
    return pending


def run_alias_multi(chk, d, quick):
    """shipped genes, the shipped NA10860 alignment (reads over CYP2D6 only) and a profile ALIAS (exome / wes / wxs / wgs are rewritten by
    genotype() itself): a gene's result inside a multi-gene run must be its result when it is run alone with the same arguments"""
    from aldy.common import script_path
    bam = script_path("aldy.tests.resources/NA10860.bam")
    params = {"minor_phase_vars": 10, "max_minor_solutions": 1}
    for prof in (("wes",) if quick else ("wes", "exome", "wgs")):
        for genes in (("cyp2c19", "cyp2d6"),) if quick else (("cyp2c19", "cyp2d6"), ("cyp2d6", "cyp2c8")):
            job = lambda g: {"db": ",".join(g), "bam": bam, "profile": prof, "genome": None, "fmt": "aldy", "params": params}
            single = run_genotype_job(job(("cyp2d6",)), d)
            multi = run_genotype_job(job(genes), d)
            case = {"history": [f"genotype:{','.join(genes)}:NA10860:{prof}"], "profile": prof}
            chk.case("alias-multi", case, nontrivial=bool(single["result"]), sample={"single": {k: v[:1] for k, v in single["result"].items()}})
            diff = same(single["result"].get("cyp2d6.yml") or single["result"].get("cyp2d6"),
                        multi["result"].get("cyp2d6.yml") or multi["result"].get("cyp2d6"), "result")
            if not diff and single["file"] not in multi["file"]:
                diff = "file: the single-run output of the gene is not a contiguous part of the multi-gene output"
            if diff:
                chk.fail("multi-gene", {"op": "multi", "genes": ",".join(genes), "compare": "in-process single run of cyp2d6", "profile": prof},
                         case, "the gene's result equals its single run with the same arguments", diff)


def settle(chk, world, pending, base):
    """compare the in-process values with those of the fresh process (hash seed 0)"""
    stages_key = job_key({"kind": "stages", "db": "", "bam": "", "profile": "", "genome": world.build})
    for clause, desc, case, val, key, sub in pending:
        val = json.loads(json.dumps(val))        # the fresh-process values went through JSON (tuples -> lists)
        if key == "stages":
            want = base[stages_key]["value"]
            if "crash" in want:
                chk.mismatch("fresh-process-baseline", case, None, want)
                continue
            diff = same(want[sub], val)
            if diff:
                chk.fail(clause, desc, case, "equal to the stage result of a fresh process", diff)
            continue
        if key not in base:
            chk.count("history", "comparison-without-fresh-baseline-skipped")
            continue
        want = base[key]["value"]
        if "crash" in want:
            chk.mismatch("fresh-process-baseline", case, None, want)
            continue
        if sub is None:
            diff = same(want, val)
        else:
            # single-gene baseline against the gene's part of a multi-gene run: results per gene; files: the gene's lines
            gname = os.path.basename(world.db[sub])
            diff = same(want["result"].get(gname), val["result"].get(gname), "result")
            if not diff and want["file"] not in val["file"]:
                diff = "file: the single-run output of the gene is not a contiguous part of the multi-gene output"
            if clause == "failing-gene-isolated" and sub == "C":
                diff = None if gname not in val["result"] else "failing gene has a result"
        if diff:
            chk.fail(clause, desc, case, "equal to the fresh-process value", diff)


# ====================================================================================================================
# candidate pools
# ====================================================================================================================
def pooled_variants(gene, cands):
    s = set()
    for c in cands:
        for sa in c.solution:
            s |= set(gene.alleles[sa.major].func_muts)
            for mi in gene.alleles[sa.major].minors.values():
                s |= set(mi.neutral_muts)
        s |= set(c.added)
    return s


def refine(gene, cov, pool):
    from aldy.minor import estimate_minor
    sols = estimate_minor(gene, cov, list(pool), "any")
    mn = min(c.score for c in pool)
    out = {}
    for c in pool:
        mine = [s for s in sols if s.major_solution is c]
        out[id(c)] = [dict(canon_minor(s, with_major=False), score=s.score - (c.score - mn)) for s in mine]
    return out


def check_pool(chk, gene, cov, cands, labels, dbname, case, max_size=3):
    alone = {}
    for c in cands:
        alone[id(c)] = refine(gene, cov, [c])[id(c)]
    n_checked = 0
    for size in range(2, min(max_size, len(cands)) + 1):
        for sub in itertools.permutations(range(len(cands)), size):
            pool = [cands[i] for i in sub]
            res = refine(gene, cov, pool)
            for i in sub:
                c = cands[i]
                n_checked += 1
                diff = same(alone[id(c)], res[id(c)], tol=SCORE_RESOLUTION)
                structures = "different" if len({str(sorted(x.cn_solution.solution.items())) for x in pool}) > 1 else "same"
                pool_same = pooled_variants(gene, pool) == pooled_variants(gene, [c])
                last_same = sorted(pool[-1].cn_solution.solution.items()) == sorted(c.cn_solution.solution.items())
                chk.count("pool", f"structures-{structures}/pool-{'same' if pool_same else 'different'}")
                if diff:
                    strip = lambda l: [{k: v for k, v in s.items() if k not in ("diplotype", "major_name", "minor_name")} for s in l]
                    kind = "refinement" if same(strip(alone[id(c)]), strip(res[id(c)]), tol=SCORE_RESOLUTION) else "diplotype-arrangement"
                    if kind == "refinement":
                        # the same number of refinements with the same scores (at aldy's resolution) but other sub-alleles / placements:
                        # an exact tie of the minor objective broken by construction order, which follows the pooled list
                        sa, sb = [x["score"] for x in alone[id(c)]], [x["score"] for x in res[id(c)]]
                        if len(sa) == len(sb) and all(abs(u - v) <= SCORE_RESOLUTION for u, v in zip(sa, sb)):
                            kind = "tie-refinement"
                    # does the candidate, refined in the pool, LOSE a variant of its own pooled list (its alleles' definitions and its
                    # own additions) that every refinement of it alone carries?  The two pool findings explain variants that OTHER
                    # candidates bring or another structure's filter removes from the evidence of a smaller structure; a candidate's
                    # own variant, carried alone with full evidence, going missing is neither
                    def carried_of(al):       # al = [major, minor, added, missing]
                        ma = gene.alleles[al[0]]
                        d = {(m.pos, m.op) for m in ma.func_muts} | {(m.pos, m.op) for m in ma.minors[al[1]].neutral_muts}
                        return (d | {tuple(x) for x in al[2]}) - {tuple(x) for x in al[3]}
                    def carried_all(refs):
                        sets = [set().union(*[carried_of(al) for al in r["alleles"]]) if r["alleles"] else set() for r in refs]
                        return set.intersection(*sets) if sets else set()
                    def carried_any(refs):
                        return set().union(*[carried_of(al) for r in refs for al in r["alleles"]]) if refs else set()
                    own = {(m.pos, m.op) for m in pooled_variants(gene, [c])}
                    lost = sorted((carried_all(alone[id(c)]) & own) - carried_any(res[id(c)])) if res[id(c)] else []
                    chk.fail("candidate-independent",
                             {"db": dbname, "structures": structures, "pool": "same" if pool_same else "different",
                              "last_has_own_structure": last_same, "difference": kind, "loses_own_variant": bool(lost)},
                             dict(case, order=[labels[j] for j in sub], candidate=labels[i]),
                             {"alone": alone[id(c)]}, {"in_pool": res[id(c)], "diff": diff})
    return n_checked


def toy_pool_cases(rng, n):
    """hand-built depth tables on the shipped TOY gene with candidates of different structures (proto-minor-spec recipe)"""
    g = toy_gene()
    sites = sorted(g.mutations)
    shapes = [(["1", "1"], [("1", 2)]), (["1", "1", "1"], [("1", 3)]), (["1", "1"], [("1", 1), ("1C", 1)]), (["1", "1"], [("1", 1), ("3", 1)]),
              (["1", "1"], [("2", 1), ("3", 1)]), (["1", "6"], [("3", 1), ("6", 1)]), (["1", "1", "1"], [("1", 2), ("3", 1)]),
              (["1", "1", "1"], [("1", 1), ("1C", 1), ("3", 1)]), (["1"], [("1", 1)]), (["1", "1"], [("3", 2)]), (["1", "1", "1"], [("1C", 3)]),
              # structures WITHOUT a full gene copy: some regions have copy number 0 on every copy
              (["4"], [("4#1", 1)]), (["5"], [("5", 1)]), (["4", "6"], [("4#3", 1), ("6", 1)]),
              # the same pattern of copy counts (one default copy + one fusion), different copy numbers per region
              (["1", "4"], [("1", 1), ("4#1", 1)]), (["1", "5"], [("1", 1), ("5", 1)])]
    out = []
    # DESIGN.md section 5 item 8: A = 2x*1, B = 3x*1, T>A (sub-allele 1.002) on 5 of 30 reads
    p = [m for m in sites if m[1] == "T>A" and g.get_rsid(m) == "rs28371732"][0]
    out.append({"id": "w-last-structure", "table": [[list(p), 5], [[p[0], "_"], 25]], "shapes": [0, 1]})
    # pooled variant list: 2x*1 alone vs next to *1,*3 with C>T on 10 of 20 reads
    q = [m for m in sites if m[1] == "C>T"][0]
    out.append({"id": "w-pooled-variants", "table": [[list(q), 10], [[q[0], "_"], 10]], "shapes": [0, 3]})
    # a candidate with two full copies next to candidates whose structure lacks whole regions: every variant on all reads of a site
    for j, m in enumerate(sites):
        if not (m[1].startswith("ins") or m[1].startswith("del")) and j % 2 == 0:
            out.append({"id": f"w-regionless-{j}", "table": [[list(m), 20]], "shapes": [3, 11, 12]})
            out.append({"id": f"w-regionless-b-{j}", "table": [[list(m), 20]], "shapes": [0, 13]})
            # a variant on 12 of 40 reads: above the single-copy threshold of two copies (0.2), below that of one copy (0.33)
            out.append({"id": f"w-same-pattern-{j}", "table": [[list(m), 12], [[m[0], "_"], 28]], "shapes": [14, 15]})
            out.append({"id": f"w-same-pattern-b-{j}", "table": [[list(m), 7], [[m[0], "_"], 33]], "shapes": [15, 14]})
    for k in range(n):
        d = rng.choice([10, 20, 30])
        table = []
        for (pos, op) in sites:
            if rng.random() < 0.55:
                c = int(d * rng.choice([0.2, 0.5, 1, 1, 2]) * rng.uniform(0.8, 1.2))
                if c > 0:
                    table.append([[pos, op], c])
        for pos in sorted({p for p, _ in sites}):
            if rng.random() < 0.9:
                table.append([[pos, "_"], int(d * rng.choice([0, 1, 2, 3]) * rng.uniform(0.8, 1.2))])
        out.append({"id": f"t{k}", "table": [t for t in table if t[1] > 0], "shapes": rng.sample(range(len(shapes)), rng.choice([2, 3, 3]))})
    return g, shapes, out


def run_pools(chk, world, n_toy, quick):
    rng = chk.rng
    g, shapes, cases = toy_pool_cases(rng, n_toy)
    results = {}
    for c in cases:
        cov = table_coverage(g, [((t[0][0], t[0][1]), t[1]) for t in c["table"]])
        cands = [major_candidate(g, shapes[i][0], shapes[i][1]) for i in c["shapes"]]
        labels = [f"{','.join(shapes[i][0])}|{shapes[i][1]}" for i in c["shapes"]]
        before = len(chk.failures)
        n = check_pool(chk, g, cov, cands, labels, "TOY", {"pool_case": c})
        chk.evaluations += n
        chk.count("pool-toy", "candidate-in-pool comparisons", n)
        results[c["id"]] = len(chk.failures) - before
        chk.case("pool-toy", c, nontrivial=True, sample=c if len(chk.samples) < 9 else None)
    # generated gene A, evidence of sample s1, candidates = major solutions under several structures
    from aldy.major import estimate_major
    from aldy.solutions import CNSolution
    held = Held(world.db["A"], world.bam["s1"], world.profile, world.build)
    dele = held.gene.deletion_allele()
    structs = [["1", "1"], ["1", "1", "1"], ["1"]] + ([["1", dele]] if dele else [])
    cands, labels = [], []
    for st in structs:
        try:
            ms = estimate_major(held.gene, held.cov, CNSolution(held.gene, 0, st), "any")
        except Exception:
            ms = []
        for m in sorted(ms, key=lambda m: (int(1000 * m.score), m._solution_nice()))[:(1 if quick else 2)]:
            cands.append(m)
            labels.append(",".join(st) + "|" + m._solution_nice())
    if len(cands) >= 2:
        chk.evaluations += check_pool(chk, held.gene, held.cov, cands[:4], labels[:4], "generated", {"world_seed": world.seed, "pool_case": {"id": "gen-A-s1", "structures": structs}}, max_size=3)
        chk.case("pool-generated", {"world": world.seed, "labels": labels[:4]}, nontrivial=True, sample={"candidates": labels[:4]})
        check_snapshots(chk, held, "estimate_minor(pool)", ["pool"], 0, world)
    return results



# ====================================================================================================================
# indel tables: stage calls on a Coverage that HAS a read-support table for catalogued indels (Coverage._indels)
# ====================================================================================================================
def indel_table_coverage(gene, table, indels, **params):
    """Coverage over the TOY gene with an explicit indel table {(pos, op): (reads without, reads with)} (what the realigner gives)"""
    from aldy.profile import Profile
    from aldy.coverage import Coverage
    cov = collections.defaultdict(dict)
    for (pos, op), c in table:
        cov[pos][op] = [(60, 60)] * c
    return Coverage(gene, Profile("test", **params), None, cov, {k: list(v) for k, v in indels.items()}, {})


def run_indel_tables(chk, n):
    """the stage calls (estimate_major / estimate_minor under several structures, in several orders) on one Coverage object must leave
    the evidence untouched (coverage-immutable) and give what they give on a freshly built equal Coverage (stage-order-independent):
    the filters of the stages work on copies, and a copy that shares the indel table with the original must not be written through."""
    from aldy.major import estimate_major
    from aldy.minor import estimate_minor
    from aldy.solutions import CNSolution
    rng = chk.rng
    g = toy_gene()
    sites = sorted(g.mutations)
    indel_keys = [m for m in sites if m[1][:3] in ("ins", "del")]
    structs = [["1", "1"], ["1", "1", "1"], ["1", "1", "1", "1"], ["1"]]
    for k in range(n):
        d = rng.choice([20, 30, 40])
        table, indels = [], {}
        for (pos, op) in sites:
            if op[:3] in ("ins", "del"):
                continue
            if rng.random() < 0.4:
                c = int(d * rng.choice([0.15, 0.3, 0.5, 1]) * rng.uniform(0.8, 1.2))
                if c > 0:
                    table.append(((pos, op), c))
        for pos in sorted({p for p, _ in sites}):
            table.append(((pos, "_"), int(d * rng.uniform(0.8, 1.2))))
        for key in indel_keys:
            # support anywhere between "a few reads" and "every read": fractions between the thresholds of 2, 3 and 4 copies included
            frac = rng.choice([0.0, 0.08, 0.14, 0.2, 0.3, 0.5, 1.0])
            y = int(d * frac)
            indels[key] = (d - y, y)
        order = rng.sample(range(len(structs)), rng.choice([2, 3]))
        case = {"id": f"i{k}", "table": [[list(t[0]), t[1]] for t in table], "indels": [[list(a), list(b)] for a, b in indels.items()],
                "order": [structs[i] for i in order]}

        def build():
            return indel_table_coverage(g, table, indels)

        cov = build()
        e0 = snap_evidence(cov)
        h0 = digest(e0)
        chk.case("indel-table", case, nontrivial=any(0 < v[1] < d for v in indels.values()), sample=case if k < 2 else None)
        for i in order:
            st = structs[i]

            def stage(c):
                try:
                    ms = estimate_major(g, c, CNSolution(g, 0, st), "any")
                    out = {"major": sorted((canon_major(m) for m in ms), key=lambda x: json.dumps(x, sort_keys=True, default=str))}
                    if ms:
                        best = sorted(ms, key=lambda m: (int(1000 * m.score), m._solution_nice()))[:1]
                        out["minor"] = [canon_minor(x, with_major=False) for x in estimate_minor(g, c, best, "any")]
                    return out
                except Exception as e:  # noqa
                    return {"error": f"{type(e).__name__}: {str(e)[:120]}"}
            got = stage(cov)
            chk.evaluations += 1
            se = snap_evidence(cov)
            if digest(se) != h0:
                chk.fail("coverage-immutable", {"op": "estimate_major/estimate_minor", "what": "indel-table coverage changed"},
                         {"indel_case": case, "structure": st}, "Coverage compares equal to its image at construction", first_diff(e0, se))
                cov = build()
            want = stage(build())
            diff = same(want, got, tol=SCORE_RESOLUTION)
            if diff:
                chk.fail("stage-order-independent", {"op": "estimate_major/estimate_minor", "after": "stage calls under other structures"},
                         {"indel_case": case, "structure": st}, {"fresh": want}, {"after_other_calls": got, "diff": diff})



# ====================================================================================================================
# call order: cheap public calls with varying arguments, each compared with the same call made in a pristine process image
# ====================================================================================================================
def _call_specs():
    """(kind, arguments) of calls whose result must not depend on what was called before (loading a profile, with or without a custom
    neutral region / parameters; loading a gene database for either build)"""
    specs = []
    for prof in ("illumina", "pgx1", "pgx2", "10x"):
        specs.append(["profile", "cyp2d6", prof, None, {}])
        specs.append(["profile", "cyp2d6", prof, None, {"gap": 0.1, "phase": False}])
    # a custom neutral region is accepted with the illumina profile only: different lengths, either half of the default region
    for frac in ((0.0, 0.5), (0.5, 1.0), (0.25, 0.5)):
        specs.append(["profile", "cyp2d6", "illumina", list(frac), {}])
    specs.append(["profile", "cyp2c19", "illumina", None, {}])
    specs.append(["profile", "cyp2c19", "illumina", [0.0, 0.5], {"min_coverage": 3}])
    for g in ("nudt15", "cyp2c19"):
        for genome in ("hg19", "hg38"):
            specs.append(["gene", g, genome])
    return specs


_GENES = {}


def _do_call(spec):
    from aldy.gene import Gene, GRange
    from aldy.common import script_path
    from aldy.profile import Profile
    common.quiet_aldy()
    if spec[0] == "gene":
        g = Gene(script_path(f"aldy.resources.genes/{spec[1]}.yml"), genome=spec[2])
        return {"digest": digest(snap_gene(g))}
    _, gname, prof, frac, params = spec
    key = (gname, "hg19")
    if key not in _GENES:
        _GENES[key] = Gene(script_path(f"aldy.resources.genes/{gname}.yml"), genome="hg19")
    g = _GENES[key]
    cn = None
    if frac is not None:
        import yaml
        d = yaml.safe_load(open(script_path("aldy.resources.profiles/illumina.yml")))
        c, s0, e0 = d["neutral"]["hg19"]
        cn = GRange(c, s0 + int((e0 - s0) * frac[0]), s0 + int((e0 - s0) * frac[1]))
    try:
        p = Profile.load(g, prof, cn, **params)
    except Exception as e:  # noqa
        return {"error": f"{type(e).__name__}: {str(e)[:100]}"}
    return {"cn_region": [p.cn_region.chr, p.cn_region.start, p.cn_region.end] if p.cn_region else None, "neutral_value": p.neutral_value,
            "options": {k: repr(v) for k, v in sorted(p.__dict__.items()) if k not in ("data", "cn_region", "cn_solution")},
            "data": digest(snap(p.data.get(g.name))), "neutral_in_data": snap(p.data.get("neutral"))}


def run_call_order(chk, n_hist):
    """every call's result in a random in-process sequence equals its result in a pristine image of this process (forked before the
    first call): nothing a call does may leak into a later call with other arguments"""
    import e2e
    specs = _call_specs()
    base = e2e.run_pool(_do_call, specs, jobs=8, timeout=120)
    rng = chk.rng
    for h in range(n_hist):
        seq = [rng.randrange(len(specs)) for _ in range(rng.randint(6, 12))]
        # make sure a custom-region load comes before a default load of the same profile at least once
        if h % 2 == 0:
            seq = [rng.choice([8, 9, 10, 12])] + seq + [0, 11]
        chk.case("call-order", {"sequence": seq, "n": h}, nontrivial=True, sample={"sequence": [specs[i][:4] for i in seq[:6]]} if h < 2 else None)
        for k, i in enumerate(seq):
            got = _do_call(specs[i])
            chk.evaluations += 1
            b = base[i]
            if b.get("timeout") or b.get("crash"):
                chk.count("call-order", "baseline-unavailable")
                continue
            if got != b:
                diff = {x: [b.get(x), got.get(x)] for x in set(b) | set(got) if b.get(x) != got.get(x)}
                chk.fail("after-other-calls", {"op": specs[i][0], "what": "result depends on earlier calls in the process"},
                         {"call_order": [specs[j] for j in seq[:k + 1]]}, {"pristine": {x: v[0] for x, v in diff.items()}},
                         {"after_sequence": {x: v[1] for x, v in diff.items()}})
                return


# ====================================================================================================================
# entry points
# ====================================================================================================================
def detect_variants(chk, world):
    """replay the witnesses of props/C14.v on the implementation"""
    from aldy.solutions import SolvedAllele
    h = Held(world.db["A"], world.bam["s1"], world.profile, world.build)
    g = h.gene
    acc = "AccFixed"
    for a, al in g.alleles.items():
        for mi, mal in al.minors.items():
            if mal.neutral_muts - al.func_muts:
                before = set(al.func_muts)
                SolvedAllele(g, a, mi).mutations()
                if set(al.func_muts) != before:
                    acc = "AccShipped"
    return acc


def model_agrees(chk, acc, pool_results):
    """the model's witnesses, evaluated in Coq, against what the implementation did on the same witnesses"""
    if not chk.model_available():
        return
    terms = [f"o_list OZ (content (exec (op_mutations {acc}) catalogue_state) r_func)",
             "o_list (fun np => o_bool (is_safe (snd np))) (ops AccShipped)",
             "o_list (fun np => o_bool (is_safe (snd np))) (ops AccFixed)"]
    vals = common.coq_eval(IMPORTS, terms, preamble="Import List.")
    model_mutates = vals[0] != [10]
    if model_mutates != (acc == "AccShipped"):
        chk.mismatch("frame-witness", {"accessor_variant": acc}, vals[0], "implementation: " + acc)
    if not all(vals[2]):
        chk.mismatch("frame-ops-safe", {}, vals[2], None)
    chk.notes.append(f"[C14] allele-variant accessor implemented by the tree: {acc}; model programs safe (shipped/fixed): "
                     f"{sum(vals[1])}/{len(vals[1])}, {sum(vals[2])}/{len(vals[2])}")
    chk.notes.append(f"[C14] pool witnesses on the implementation: last-structure filter "
                     f"{'reproduced' if pool_results.get('w-last-structure') else 'absent'}, pooled variant list "
                     f"{'reproduced' if pool_results.get('w-pooled-variants') else 'absent'}")


def na10860_spec(scratch, seed):
    from aldy.common import script_path
    return {"scratch": scratch, "out": os.path.join(scratch, f"na_{seed}.json"),
            "jobs": [{"kind": "genotype", "genes": ["cyp2d6"], "db": "cyp2d6", "bam": script_path("aldy.tests.resources/NA10860.bam"), "sample": "NA10860",
                      "profile": "illumina", "genome": None, "fmt": "aldy", "params": {"gap": 0, "max_minor_solutions": 3, "minor_phase_vars": 10}}]}


def _solutions(j, val):
    """list of reported solutions (canonical minor solutions) of a job value, or None"""
    if j["kind"] == "tie":
        return val
    if j["kind"] == "genotype":
        return [s for _, sols in sorted(val["result"].items()) for s in sols]
    if j["kind"] == "stages":
        return val["minor"]
    return None


def classify_difference(j, a, b):
    """copy-order: same solutions (allele multisets, names, scores at resolution), only the listing order of gene copies in a file differs;
    tie-assignment: same number of solutions with scores equal at aldy's resolution but variants assigned to copies differently;
    different-result: anything else"""
    sa, sb = _solutions(j, a), _solutions(j, b)
    if sa is None or sb is None:
        return "different-result"
    if j["kind"] == "genotype" and (a["error"] != b["error"] or sorted(a["result"]) != sorted(b["result"])):
        return "different-result"
    if j["kind"] == "stages" and (same(a["cn"], b["cn"], tol=SCORE_RESOLUTION) or same(a["major"], b["major"], tol=SCORE_RESOLUTION)):
        return "different-result"
    if not same(sa, sb, tol=SCORE_RESOLUTION):
        return "copy-order"
    if len(sa) == len(sb) and all(abs(x["score"] - y["score"]) < SCORE_RESOLUTION for x, y in zip(sa, sb)) and \
            all(sorted(al[0] for al in x["alleles"]) == sorted(al[0] for al in y["alleles"]) for x, y in zip(sa, sb)):
        return "tie-assignment"
    return "different-result"


def compare_seeds(chk, outs, label, world_seed):
    base = outs.get(0)
    if base is None:
        chk.mismatch("hash-seed-worker", {"seed": 0, "input": label}, None, "no output")
        return
    for seed, o in sorted(outs.items()):
        if seed == 0:
            continue
        for key, v in o.items():
            j = json.loads(key)
            if "crash" in (v["value"] if isinstance(v["value"], dict) else {}):
                chk.mismatch("hash-seed-worker", {"seed": seed, "job": j}, None, v["value"])
                continue
            chk.evaluations += 1
            diff = same(base[key]["value"], v["value"], tol=SCORE_RESOLUTION)
            if diff:
                inp = "exact-tie-witness" if j["kind"] == "tie" else "novel-additions-names" if j["kind"] == "novel-names" else label
                chk.fail("hash-seed", {"input": inp, "job": j["kind"], "genes": ",".join(j.get("genes", [])),
                                       "difference": classify_difference(j, base[key]["value"], v["value"])},
                         {"world_seed": world_seed, "job": j, "seeds": [0, seed]}, {"seed 0": str(base[key]["value"])[:600]},
                         {"seed": seed, "diff": diff, "value": str(v["value"])[:600]})


def run(chk):
    chk.rule = ("histories = random sequences of 2-6 operations over a generated world (genes A, B, failing gene C, samples s1, s2, one "
                "combined profile; world drawn from VERIF_SEED); distinct = distinct operation sequence; every history is non-trivial "
                "(>= 2 operations, snapshots after each).  hash seeds = the full job list (12 single-gene x format jobs, 10 multi-gene "
                "jobs, failing gene, stage results, exact-tie witness) in fresh processes under PYTHONHASHSEED 0-7 (+ NA10860/CYP2D6 "
                "under two seeds).  pools = two witnesses + random TOY depth tables x 2-3 candidates of different structures, all "
                "ordered sub-pools, + major solutions of the generated gene under 3-4 structures.  indel tables = random TOY depth tables WITH "
                "a read-support table for the catalogued indels (fractions between the thresholds of 2-4 copies), stage calls under 2-3 "
                "structures in random order on ONE Coverage object, evidence snapshot and comparison with a fresh equal Coverage after each.  "
                "call order = random sequences of 6-14 cheap public calls (Profile.load of shipped profiles with / without a custom neutral "
                "region and parameters, Gene loads for both builds), each result compared with the same call in a pristine forked image")
    chk.extra_trusted = ["harness/gen_frame.py: translator of 21 operations of /repo into the aliasing programs of gen/Frame_here.v (classification of "
                         "Python expressions into fresh containers / aliases / in-place writes, linearisation of branches and loops, constructor "
                         "and log-sink lists); C14_tie_ops_here_frame is about those programs",
                         "gendb.py / simreads.py generators; deep-snapshot code (dict order kept, sets sorted); PYTHONHASHSEED handling of CPython",
                         "the programs written in Frame.v itself are hand transcriptions (documented reference); the regenerated ones are tied by translation, both are accompanied by the snapshot differential"]
    chk.assumptions = ["scores compared to 1e-6 abs + 1e-9 rel, everything else (names, variant lists, output files) exactly"]
    chk.build()
    quick = chk.tier == "quick"
    from aldy.common import SOLUTION_PRECISION
    assert SCORE_RESOLUTION < SOLUTION_PRECISION, "score resolution of the tree changed"
    os.makedirs(common.SCRATCH, exist_ok=True)
    with tempfile.TemporaryDirectory(dir=common.SCRATCH, prefix="c14_") as d:
        world_seed = chk.rng.randrange(2 ** 31)
        world = World(d, world_seed)
        chk.notes.append(f"[C14] world seed {world_seed}: build {world.build}, planted {dict((f'{k[0]}/{k[1]}', v) for k, v in world.plant.items())}")
        # ---- fresh processes under hash seeds 0..7 (run while the in-process part works)
        jobs = all_jobs(world, quick)
        seeds = list(range(8))
        specs = {}
        for sd in seeds:
            sp = os.path.join(d, f"spec_{sd}.json")
            json.dump({"scratch": d, "out": os.path.join(d, f"out_{sd}.json"), "jobs": jobs}, open(sp, "w"))
            specs[sd] = sp
        procs, queue = {}, list(seeds)

        def start_next():
            if queue:
                sd_ = queue.pop(0)
                procs[sd_] = spawn_worker(specs[sd_], sd_, common.REPO)

        for _ in range(4):
            start_next()
        na_seeds = [0, 5] if quick else [0, 1, 2, 5]
        na_procs = {}
        for sd in na_seeds:
            sp = os.path.join(d, f"na_spec_{sd}.json")
            json.dump(na10860_spec(d, sd), open(sp, "w"))
            na_procs[sd] = spawn_worker(sp, sd, common.REPO)
        # ---- in-process part
        t0 = time.time()
        run_call_order(chk, 4 if quick else 40)
        acc = detect_variants(chk, world)
        pool_results = run_pools(chk, world, 8 if quick else 120, quick)
        run_indel_tables(chk, 10 if quick else 150)
        t1 = time.time()
        pending = run_histories(chk, world, 24 if quick else 300, jobs, d)
        run_alias_multi(chk, d, quick)
        chk.notes.append(f"[C14] in-process: pools {t1 - t0:.0f}s, histories {time.time() - t1:.0f}s")
        # ---- collect
        outs = {}
        for sd in seeds:
            p = procs[sd]
            try:
                _, err = p.communicate(timeout=900)
            except subprocess.TimeoutExpired:
                p.kill()
                err = "timeout"
            start_next()
            op = os.path.join(d, f"out_{sd}.json")
            if os.path.exists(op):
                outs[sd] = json.load(open(op))
            else:
                chk.mismatch("hash-seed-worker", {"seed": sd}, None, (err or "")[-600:])
        if 0 in outs:
            settle(chk, world, pending, outs[0])
        compare_seeds(chk, outs, "simulated", world_seed)
        na_outs = {}
        for sd, p in na_procs.items():
            try:
                p.communicate(timeout=600 if quick else 1500)
                op = os.path.join(d, f"na_{sd}.json")
                if os.path.exists(op):
                    na_outs[sd] = json.load(open(op))
            except subprocess.TimeoutExpired:
                p.kill()
                chk.notes.append(f"[C14] NA10860 worker under hash seed {sd} timed out (not counted)")
        if len(na_outs) >= 2:
            compare_seeds(chk, na_outs, "NA10860/CYP2D6", world_seed)
            chk.count("hash-seed", "NA10860-seeds", len(na_outs))
        chk.count("hash-seed", "score-differences-below-tie-breaker-resolution", TIE_NOISE[0])
        chk.count("hash-seed", "seeds", len(outs))
        chk.count("hash-seed", "jobs-per-seed", len(jobs))
        model_agrees(chk, acc, pool_results)


def replay(chk, path):
    r = json.load(open(path))
    chk.build()
    case = r["case"]
    os.makedirs(common.SCRATCH, exist_ok=True)
    with tempfile.TemporaryDirectory(dir=common.SCRATCH, prefix="c14_") as d:
        if "pool_case" in case and "world_seed" not in case:
            g, shapes, _ = toy_pool_cases(random.Random(0), 0)
            c = case["pool_case"]
            cov = table_coverage(g, [((t[0][0], t[0][1]), t[1]) for t in c["table"]])
            cands = [major_candidate(g, shapes[i][0], shapes[i][1]) for i in c["shapes"]]
            labels = [f"{','.join(shapes[i][0])}|{shapes[i][1]}" for i in c["shapes"]]
            check_pool(chk, g, cov, cands, labels, "TOY", {"pool_case": c})
        else:
            world = World(d, case["world_seed"])
            if "history" in case:
                jobs = all_jobs(world, False)
                sp = os.path.join(d, "spec_0.json")
                json.dump({"scratch": d, "out": os.path.join(d, "out_0.json"), "jobs": jobs}, open(sp, "w"))
                p = spawn_worker(sp, 0, common.REPO)
                rng = chk.rng
                held_hist = case["history"]
                # run exactly the stored history
                global gen_history
                orig = gen_history
                gen_history = lambda _rng, _jobs=None: list(held_hist)
                try:
                    pending = run_histories(chk, world, 1, jobs, d)
                finally:
                    gen_history = orig
                p.communicate(timeout=900)
                settle(chk, world, pending, json.load(open(os.path.join(d, "out_0.json"))))
            elif "job" in case:
                outs = {}
                for sd in case["seeds"]:
                    sp = os.path.join(d, f"spec_{sd}.json")
                    json.dump({"scratch": d, "out": os.path.join(d, f"out_{sd}.json"), "jobs": [case["job"] if case["job"]["kind"] in ("tie", "novel-names") else
                               [j for j in all_jobs(world, False) if job_key(j) == job_key(case["job"])][0]]}, open(sp, "w"))
                    spawn_worker(sp, sd, common.REPO).communicate(timeout=900)
                    outs[0 if sd == case["seeds"][0] else sd] = json.load(open(os.path.join(d, f"out_{sd}.json")))
                compare_seeds(chk, outs, "simulated", case["world_seed"])
            else:
                run_pools(chk, world, 0, True)
    bad = [f for f in chk.failures if f["clause"] == r["clause"]]
    for f in bad[:5]:
        print("still failing:", f["clause"], json.dumps(f["desc"]), str(f["observed"])[:400])
    print("REPLAY", "FAILS" if bad else "passes")
    return 1 if bad else 0


if __name__ == "__main__" and len(sys.argv) >= 3 and sys.argv[1] == "--worker":
    worker_main(sys.argv[2])
