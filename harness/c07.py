"""C07 — copy-number signal is depth-normalised: a two-copy reference reads as 2.0.

Implementation driven: Profile.get_sam_profile_data, Profile.load (BAM route and written-profile-file route), Sample(...) ->
Coverage._normalize_coverage, on small BAMs written with pysam over generated genes (harness/gendb.py: with/without pseudogene,
either strand, two builds).
Correspondence: (a) get_sam_profile_data  vs  Norm.profile_of (Norm.pileup reads)      — exact integers
                (b) Coverage._region_coverage  vs  Norm.normalize on aldy's own per-position depths (Coverage.total, _cnv_coverage)
                (c) rejection outcomes  vs  Norm.normalize
Predicate (on the implementation's numbers only): k-fold duplication invariance, gene-only multiplication linearity,
self-profile == exactly 2.0 (and 0.0 where the profile has no depth), empty neutral region rejected."""
import json, os, random, tempfile
from fractions import Fraction as F
import common, gendb
from common import cz, cq, cstr, clist, cpair

IMPORTS = ["Base", "Consts", "Norm"]
REL = 1e-9
PRE = ("Definition R (s : Z) (c : cigar) : read := {| rd_start := s; rd_cigar := c |}.\n"
       "Definition G (g : Z) (n : str) (s e : Z) : nregion := {| nr_gene := g; nr_name := n; nr_start := s; nr_end := e |}.\n"
       "Definition expand (l : list (read * nat)) : list read := flat_map (fun rc => repeat (fst rc) (snd rc)) l.\n")


# ------------------------------------------------------------------ reads
def ref_len(cig):
    return sum(n for op, n in cig if op in (0, 2, 7, 8))


def gen_reads(rng, b, cn, uniform):
    """reads over the whole window of build `b`: a tiling (every base covered L/step times) plus, unless `uniform`, extra reads with
    insertions / deletions / soft clips / '=' operations and region-dependent multiplicity.  -> list of [start, cigar, multiplicity]"""
    ws, wl = b["win_start"], len(b["win_seq"])
    L = rng.choice([30, 40, 60])
    step = rng.choice([s for s in (5, 6, 10, 15) if L % s == 0 and L // s >= 4])
    reads = []
    for st in range(ws, ws + wl - L + 1, step):
        reads.append([st, [[0, L]], 1])
    if not uniform:
        for _ in range(rng.randint(20, 120)):
            st = rng.randint(ws, ws + wl - 130)
            cig = []
            if rng.random() < 0.25:
                cig.append([4, rng.randint(1, 8)])
            for j in range(rng.randint(1, 3)):
                cig.append([rng.choice([0, 0, 0, 7]), rng.randint(5, 35)])
                r = rng.random()
                if r < 0.3:
                    cig.append([2, rng.randint(1, 6)])
                    cig.append([0, rng.randint(3, 20)])
                elif r < 0.55:
                    cig.append([1, rng.randint(1, 5)])
                    cig.append([0, rng.randint(3, 20)])
            if rng.random() < 0.25:
                cig.append([4, rng.randint(1, 8)])
            # merge adjacent equal operations (htslib accepts them, but keep the CIGAR canonical)
            m = []
            for op, n in cig:
                if m and m[-1][0] == op:
                    m[-1][1] += n
                else:
                    m.append([op, n])
            over = st + sum(n for op, n in m if op in (0, 2, 7, 8)) - (ws + wl)
            if over > 0:          # the read would run past the generated window (up to 183 reference bases per read): move it left
                st -= over
            reads.append([st, m, rng.choice([1, 1, 2, 3])])
    # hard-clipped records inside the copy-number-neutral region (e.g. the secondary hits `bwa mem -M` writes): the neutral depth of the
    # sample (sam.py:_load_cn_region) and of the profile builder (profile.py:get_sam_profile_data) both count them
    lo, hi = cn[1], cn[2]
    if hi - lo > 40:
        for _ in range(rng.randint(2, 10)):
            ln = rng.randint(8, min(30, hi - lo - 4))
            st = rng.randint(lo + 1, hi - ln - 1)
            reads.append([st, [[5, rng.randint(3, 40)], [0, ln]], rng.choice([1, 2])])
    return reads, L // step


def classify(reads, b, cn, margin=5):
    """split into reads touching the locus (gene + pseudogene), reads touching the neutral region, others; reads touching both are dropped"""
    ls, le = b["locus"]
    g, n, o = [], [], []
    for st, cig, k in reads:
        en = st + ref_len(cig)
        tg = st < le + margin and en > ls - margin
        tn = st < cn[2] + margin and en > cn[1] - margin
        if tg and tn:
            continue
        (g if tg else n if tn else o).append([st, cig, k])
    return g, n, o


def write_bam(path, b, reads, rng):
    import pysam, random as _random
    ws, seq = b["win_start"], b["win_seq"]
    # catalogued multi-base substitutions of the database: half of the reads show all their bases (the loader then merges the
    # per-base observations into one and has to keep one observation per covered base: depth must not change)
    mnps = sorted({(pos, op) for vs in b.get("alleles", {}).values() for pos, op in vs if ">" in op and len(op.split(">")[0]) >= 2}) if b.get("mnp_reads") else []

    def with_mnps(st0, p0, n0, text):
        if not mnps:
            return text
        t = list(text)
        for pos, op in mnps:
            alt = op.split(">")[1]
            if _random.Random(st0 * 7919 + pos).random() < 0.5:
                for j, ch in enumerate(alt):
                    k = pos + j - (ws + p0)
                    if ch != "." and 0 <= k < n0:
                        t[k] = ch
        return "".join(t)
    hdr = {"HD": {"VN": "1.0", "SO": "coordinate"}, "SQ": [{"SN": b["chr"], "LN": b["chrom_len"]}]}
    recs = []
    for st, cig, k in reads:
        q, p = [], st - ws
        for op, n in cig:
            if op in (0, 7, 8):
                q.append(with_mnps(st, p, n, seq[p:p + n]) if op == 0 else seq[p:p + n])
                p += n
            elif op == 2:
                p += n
            elif op == 5:
                pass
            else:
                q.append("".join(rng.choice("ACGT") for _ in range(n)))
        qs = "".join(q)
        for j in range(k):
            recs.append((st, qs, tuple((op, n) for op, n in cig)))
    recs.sort(key=lambda r: r[0])
    with pysam.AlignmentFile(path, "wb", header=hdr) as f:
        for i, (st, qs, cig) in enumerate(recs):
            a = pysam.AlignedSegment()
            a.query_name = f"r{i}"
            a.query_sequence = qs
            a.flag = 0
            a.reference_id = 0
            a.reference_start = st
            a.mapping_quality = 60
            a.cigar = cig
            a.query_qualities = pysam.qualitystring_to_array("I" * len(qs))
            f.write(a)
    pysam.index(path)
    return path


def mult(reads, k):
    return [[st, cig, n * k] for st, cig, n in reads]


# ------------------------------------------------------------------ implementation adapters
def load_sample(g, prof, bam):
    """-> ('ok', {(gi, region): value}, sample) | ('neutral-empty',) | ('bad-profile',) | ('low-depth',) | ('raise', msg)"""
    from aldy.sam import Sample
    from aldy.common import AldyException
    try:
        s = Sample(g, prof, bam)
    except AldyException as e:
        m = str(e)
        if "has no reads" in m:
            return ("neutral-empty",)
        if "Invalid CN-neutral region" in m:
            return ("bad-profile",)
        if "average coverage of the sample is too low" in m:
            return ("low-depth",)
        return ("raise", m[:200])
    except Exception as e:
        return ("raise", type(e).__name__ + ": " + str(e)[:200])
    return ("ok", dict(s.coverage._region_coverage), s)


def profile_from_bam(g, bam, cn):
    from aldy.profile import Profile
    from aldy.common import GRange
    return Profile.load(g, bam, GRange(*cn))


def profile_from_file(g, bam, cn, d, genome):
    """what `aldy profile` prints (yaml.dump of get_sam_profile_data), written to a file and loaded back"""
    import yaml
    from aldy.profile import Profile
    from aldy.common import GRange
    regions = {(g.name, r, gi): rng for gi, gr in enumerate(g.regions) for r, rng in gr.items()}
    data = Profile.get_sam_profile_data(bam, regions=regions, cn_region=GRange(*cn), genome=genome)
    path = os.path.join(d, "written.profile.yml")
    with open(path, "w") as f:
        f.write(yaml.dump(data, default_flow_style=None))
    return Profile.load(g, path), data


# ------------------------------------------------------------------ Coq terms
def c_reads(reads):
    return "(expand " + clist(reads, lambda r: cpair(f"R {cz(r[0])} " + clist(r[1], lambda c: cpair(cz(c[0]), cz(c[1]))), f"{int(r[2])}%nat")) + ")"


def c_regions(g):
    return clist([(gi, r, rg) for gi, gr in enumerate(g.regions) for r, rg in gr.items()],
                 lambda x: f"G {x[0]} {cstr(x[1])} {cz(x[2].start)} {cz(x[2].end)}")


def c_regions_p(g, prof):
    return clist([(gi, r, rg) for gi, gr in enumerate(g.regions) for r, rg in gr.items()],
                 lambda x: cpair(f"G {x[0]} {cstr(x[1])} {cz(x[2].start)} {cz(x[2].end)}", cq(F(prof.data[g.name][x[1]][x[0]]))))


def c_contrib(d):
    return clist([(p, n) for p, n in d if n], lambda pn: cpair(cz(pn[0]), cz(pn[1])))


def d_nres(v):
    if v[0] == 0:
        return ("ok", {(e[0], common.dstr(e[1])): common.dq(e[2]) for e in v[1]})
    return ("neutral-empty",) if v[0] == 1 else ("bad-profile",)


def approx(a, b):
    return abs(a - b) <= REL * max(1.0, abs(a), abs(b))


# ------------------------------------------------------------------ one case
def gen_case(rng):
    return {"seed": rng.getrandbits(48), "length": rng.choice([300, 400, 500]), "pseudogene": rng.random() < 0.65,
            "strands": rng.choice(["++", "+-", "-+", "--"]), "build": rng.choice(["hg19", "hg38"]),
            "ks": rng.sample([2, 3, 4, 5], 2), "uniform": rng.random() < 0.2, "custom_neutral": rng.random() < 0.5,
            # a neutral region NARROWER than the reads: every read that touches it runs across one or both of its borders
            "narrow_neutral": rng.random() < 0.4,
            # a catalogue WITHOUT insertions / deletions: Coverage.__init__ then keeps the insertion observations of the reads in the
            # table (it strips them only when the gene has indel variants), and the depth of a position must still exclude them
            "no_indels": rng.random() < 0.4,
            # a catalogue with multi-base substitutions, and reads that show them completely
            "mnp_reads": rng.random() < 0.5}


def run_case(chk, case, terms, post):
    """runs the implementation on one generated gene, evaluates the predicate, and queues the model terms"""
    import random
    from aldy.gene import Gene
    rng = random.Random(case["seed"])
    desc_ = {"pseudogene": case["pseudogene"], "strands": case["strands"], "build": case["build"], "custom_neutral": case["custom_neutral"],
             "narrow_neutral": bool(case["custom_neutral"] and case.get("narrow_neutral")), "no_indels": bool(case.get("no_indels"))}
    with tempfile.TemporaryDirectory(dir=common.SCRATCH) as d:
        extra = {"kinds": {"snp": 6, "mnp": 1}} if case.get("no_indels") else {}
        if case.get("mnp_reads"):
            extra = {"kinds": {"snp": 5, "mnp": 4}} if case.get("no_indels") else {"kinds": {"snp": 5, "mnp": 4, "ins": 2, "del": 2}}
        yp, desc = gendb.write_db(d, rng, name="GEN", length=case["length"], pseudogene=case["pseudogene"], strands=case["strands"], **extra)
        build = case["build"]
        b = desc["builds"][build]
        b["mnp_reads"] = bool(case.get("mnp_reads"))
        g = Gene(yp, genome=build)
        cn = list(b["neutral"])
        if case["custom_neutral"]:
            ws = b["win_start"]
            lo, hi = ws + 80, b["locus"][0] - 120
            if hi - lo > 150:
                ln = rng.randint(8, 28) if case.get("narrow_neutral") else rng.randint(60, min(400, hi - lo))
                st = rng.randint(lo, hi - ln)
                cn = [b["chr"], st, st + ln]
        sample_reads, depth = gen_reads(rng, b, cn, case["uniform"])
        prof_reads, _ = gen_reads(rng, b, cn, case["uniform"])
        sg, sn, so = classify(sample_reads, b, cn)
        base = sg + sn + so
        case["n_reads"] = sum(k for _, _, k in base)
        bam_s = write_bam(os.path.join(d, "s.bam"), b, base, rng)
        bam_p = write_bam(os.path.join(d, "p.bam"), b, prof_reads, rng)
        stream = "gene:" + ("with-pseudogene" if case["pseudogene"] else "single") + ":" + case["strands"]
        # ---- profile generation (both routes)
        prof = profile_from_bam(g, bam_p, cn)
        prof_f, data = profile_from_file(g, bam_p, cn, d, build)
        same = (prof.neutral_value == prof_f.neutral_value and prof.data[g.name] == prof_f.data[g.name]
                and tuple(prof_f.cn_region) == tuple(prof.cn_region))
        if not same:
            chk.mismatch("profile-file-vs-bam", case, None, {"bam": str(prof.data[g.name])[:300], "file": str(prof_f.data[g.name])[:300]})
        # ---- baseline sample
        r0 = load_sample(g, prof, bam_s)
        chk.case(stream, case, nontrivial=r0[0] == "ok", sample={"case": case, "neutral": cn, "outcome": r0[0],
                                                                 "values": {f"{k[0]}:{k[1]}": v for k, v in list(r0[1].items())[:4]} if r0[0] == "ok" else None})
        chk.count(stream, "outcome:" + r0[0])
        if r0[0] != "ok":
            chk.mismatch("baseline-sample", case, "a normalised sample", r0)
            return
        v0, s0 = r0[1], r0[2]
        # model terms: profile generation from the reads the harness wrote; normalisation on aldy's own per-position depths
        terms.append(f"o_profile (profile_of {c_regions(g)} ({cz(cn[1])}, {cz(cn[2])}) (pileup {c_reads(prof_reads)}))")
        want = (F(data["neutral"]["value"]), {(gi, r): F(data[g.name][r][gi]) for gi, gr in enumerate(g.regions) for r in gr})
        post.append(("profile", case, want))
        dg = [(i, int(s0.coverage.total(i))) for gr in g.regions for rg in gr.values() for i in range(rg.start, rg.end)]
        dn = [(i, int(n)) for i, n in s0.coverage._cnv_coverage.items()]
        terms.append(f"o_nres (normalize {cq(F(prof.neutral_value))} {c_regions_p(g, prof)} ({cz(cn[1])}, {cz(cn[2])}) {c_contrib(dg)} {c_contrib(dn)})")
        post.append(("normalize", case, ("ok", v0)))
        # depth conservation for eligible reads: the sample's own pileups (Coverage.total, _cnv_coverage) against the reads written
        terms.append(f"o_profile (profile_of {c_regions(g)} ({cz(cn[1])}, {cz(cn[2])}) (pileup {c_reads(base)}))")
        cnv = s0.coverage._cnv_coverage
        post.append(("sample-pileup", case, (F(sum(cnv.get(i, 0) for i in range(cn[1], cn[2]))),
                                             {(gi, r): F(int(sum(s0.coverage.total(i) for i in range(rg.start, rg.end))))
                                              for gi, gr in enumerate(g.regions) for r, rg in gr.items()})))
        # ---- k-fold duplication: invariant
        for k in case["ks"]:
            rk = load_sample(g, prof, write_bam(os.path.join(d, f"s{k}.bam"), b, mult(base, k), rng))
            chk.count(stream, "dup-k")
            if rk[0] != "ok" or any(not approx(rk[1][key], v0[key]) for key in v0):
                chk.fail("scale-invariant", desc_, case, {"k": k, "baseline": {str(x): y for x, y in v0.items()}},
                         rk[:2] if rk[0] != "ok" else {str(x): y for x, y in rk[1].items()})
        # ---- only the gene reads multiplied: linear
        k = case["ks"][0]
        rg_ = load_sample(g, prof, write_bam(os.path.join(d, "sg.bam"), b, mult(sg, k) + sn + so, rng))
        if rg_[0] != "ok" or any(not approx(rg_[1][key], k * v0[key]) for key in v0):
            chk.fail("gene-linear", desc_, case, {"k": k, "baseline": {str(x): y for x, y in v0.items()}},
                     rg_[:2] if rg_[0] != "ok" else {str(x): y for x, y in rg_[1].items()})
        # ---- the sample against its own profile: exactly 2.0 (both profile routes)
        for route in ("bam", "file"):
            ps = profile_from_bam(g, bam_s, cn) if route == "bam" else profile_from_file(g, bam_s, cn, d, build)[0]
            rs = load_sample(g, ps, bam_s)
            chk.count(stream, "self:" + route)
            bad = None
            if rs[0] != "ok":
                bad = rs[:2]
            else:
                for (gi, r), v in rs[1].items():
                    exp = 2.0 if ps.data[g.name][r][gi] != 0 else 0.0
                    if not (v == exp):
                        bad = {"region": [gi, r], "value": repr(v), "expected": exp}
                        break
            if bad is not None:
                chk.fail("self-two", dict(desc_, route=route), case, "exactly 2.0 in every region the profile covers", bad)
        terms.append(f"(let d := pileup {c_reads(base)} in o_nres (normalize_against {c_regions(g)} ({cz(cn[1])}, {cz(cn[2])}) d d d))")
        post.append(("self", case, {(gi, r): (2 if ps.data[g.name][r][gi] != 0 else 0) for gi, gr in enumerate(g.regions) for r in gr}))
        # ---- no reads in the neutral region: rejected
        re_ = load_sample(g, prof, write_bam(os.path.join(d, "se.bam"), b, sg + so, rng))
        chk.count(stream, "empty-neutral:" + re_[0])
        if re_[0] != "neutral-empty":
            chk.fail("rejects-empty", desc_, case, "rejected: the neutral region has no reads", re_[:2])
        terms.append(f"o_nres (normalize {cq(F(prof.neutral_value))} {c_regions_p(g, prof)} ({cz(cn[1])}, {cz(cn[2])}) [] (pileup {c_reads(sg + so)}))")
        post.append(("outcome", case, re_[:1]))
        # ---- a profile whose sample had no neutral reads: rejected as an invalid profile
        pg, pn, po = classify(prof_reads, b, cn)
        pe = profile_from_bam(g, write_bam(os.path.join(d, "pe.bam"), b, pg + po, rng), cn)
        rb = load_sample(g, pe, bam_s)
        chk.count(stream, "empty-profile-neutral:" + rb[0])
        terms.append(f"o_nres (normalize {cq(F(pe.neutral_value))} [] ({cz(cn[1])}, {cz(cn[2])}) [] {c_contrib(dn)})")
        post.append(("outcome", case, rb[:1]))


def evaluate(chk, cases):
    terms, post = [], []
    for c in cases:
        run_case(chk, c, terms, post)
    if not chk.model_available():
        return
    vals = common.coq_eval(IMPORTS, terms, shard=6, jobs=10, preamble=PRE)
    for (kind, case, want), v in zip(post, vals):
        if kind in ("profile", "sample-pileup"):
            got = (common.dq(v[0]), {(e[0], common.dstr(e[1])): common.dq(e[2]) for e in v[1]})
            if got != want:
                chk.mismatch("profile-generation" if kind == "profile" else "sample-pileup", case, {"neutral": str(got[0]), "regions": {str(k): str(x) for k, x in got[1].items()}},
                             {"neutral": str(want[0]), "regions": {str(k): str(x) for k, x in want[1].items()}})
        elif kind == "normalize":
            m = d_nres(v)
            ok = m[0] == "ok" and set(m[1]) == set(want[1]) and all(approx(float(m[1][k]), want[1][k]) for k in m[1])
            if not ok:
                chk.mismatch("normalize", case, {str(k): float(x) for k, x in m[1].items()} if m[0] == "ok" else m,
                             {str(k): x for k, x in want[1].items()})
        elif kind == "self":
            m = d_nres(v)
            if m[0] != "ok" or {k: x for k, x in m[1].items()} != {k: F(x) for k, x in want.items()}:
                chk.mismatch("self-profile", case, {str(k): str(x) for k, x in m[1].items()} if m[0] == "ok" else m, {str(k): x for k, x in want.items()})
        else:
            m = d_nres(v)
            if m[:1] != tuple(want):
                chk.mismatch("rejection", case, m[:1], want)


def builtin_history(chk, case=None):
    """Profile.load of a SHIPPED profile by name (the route `aldy genotype -p illumina [-n region]` takes), as a history inside one
    process: default neutral region, custom regions, default again.  Every load must give the neutral value / region the YAML file and
    the arguments of THAT call determine (sam.py normalises with them): a custom region of an earlier call must not leak into a later
    one.  The default-profile normalisation of the shipped CYP2D6 sample is compared before and after the custom loads."""
    import yaml
    from aldy.gene import Gene
    from aldy.profile import Profile
    from aldy.common import GRange, script_path
    rng = random.Random(case["seed"]) if case else None
    if case is None:
        sd = chk.rng.randrange(1 << 30)
        rng = random.Random(sd)
        case = {"kind": "builtin-history", "seed": sd}
    for pname in ("illumina", "pgx1"):
        raw = yaml.safe_load(open(script_path(f"aldy.resources.profiles/{pname}.yml")))
        for genome in ("hg19", "hg38"):
            g = Gene(script_path("aldy.resources.genes/cyp2d6.yml"), genome=genome)
            dflt = raw["neutral"][genome]
            steps = [None]
            for _ in range(3):
                a = dflt[1] + rng.randint(-2000, 2000)
                steps += [[dflt[0], a, a + rng.choice([300, 786, 1500, 4000])], None]
            baseline_cov = None
            bam = os.path.join(common.REPO, "aldy", "tests", "resources", "NA10860.bam")
            for k, st in enumerate(steps):
                desc = {"stream": "builtin-history", "profile": pname, "genome": genome, "step": k, "custom": st is not None}
                try:
                    p = Profile.load(g, pname, GRange(*st) if st else None)
                except Exception as e:    # pgx profiles refuse a custom region: that is their documented behaviour
                    chk.count("builtin-history", "load-refused:" + type(e).__name__)
                    continue
                want_region = tuple(st) if st else tuple(dflt)
                want_value = (st[2] - st[1]) if (st and pname == "illumina") else raw["neutral"]["value"]
                got = (float(p.neutral_value), (p.cn_region.chr, p.cn_region.start, p.cn_region.end))
                chk.count("builtin-history", "loads")
                chk.case("builtin-history", [pname, genome, k, st], nontrivial=True, sample={"step": k, "custom": st, "observed": got})
                if got != (float(want_value), want_region):
                    chk.fail("history-independent", desc, dict(case, steps=steps, profile=pname, genome=genome),
                             {"neutral_value": want_value, "cn_region": want_region}, {"neutral_value": got[0], "cn_region": got[1]})
                if st is None and pname == "illumina" and genome == "hg19" and os.path.exists(bam) and k in (0, len(steps) - 1):
                    r = load_sample(g, p, bam)
                    cov = {str(x): y for x, y in r[1].items()} if r[0] == "ok" else r[:2]
                    if baseline_cov is None:
                        baseline_cov = cov
                    elif cov != baseline_cov:
                        chk.fail("history-independent", dict(desc, what="normalised depths of NA10860"), dict(case, steps=steps),
                                 "the same normalised region depths as before the custom-region loads",
                                 {"before": dict(list(baseline_cov.items())[:4]) if isinstance(baseline_cov, dict) else baseline_cov,
                                  "after": dict(list(cov.items())[:4]) if isinstance(cov, dict) else cov})


def run(chk):
    chk.rule = ("one case = one generated gene database (gendb: 300-500 bp gene, with/without pseudogene, strands ++ +- -+ --, build hg19/hg38), "
                "the generator's or a random custom neutral region, a tiled read set (depth >= 4) plus random reads with I/D/S/= operations and "
                "multiplicities; per case: profile from a second read set (BAM route and written-file route), baseline sample, two k in 2..5 "
                "duplications, gene-only multiplication, the sample against its own profile (both routes), sample without neutral reads, profile "
                "without neutral reads; non-trivial = the baseline sample is normalised; distinct = distinct case data")
    chk.extra_trusted = ["pysam/htslib BAM writing, indexing and fetch; harness/gendb.py (generated databases); PyYAML dump/safe_load"]
    chk.assumptions = ["all generated reads are eligible (primary, MAPQ 60, Q40, no hard clips): the eligibility rules are C06 / C15",
                       "float results are compared with the exact rationals at 1e-9 relative, except the self-profile case which is asserted == 2.0"]
    chk.build()
    n = 22 if chk.tier == "quick" else 400
    cases = []
    corpus = os.path.join(common.VERIF, "corpus", "C07.json")
    if os.path.exists(corpus):
        cases += json.load(open(corpus))
    cases += [gen_case(chk.rng) for _ in range(n)]
    builtin_history(chk)
    evaluate(chk, cases)


def replay(chk, path):
    r = json.load(open(path))
    chk.build()
    if r["case"].get("kind") == "builtin-history":
        builtin_history(chk, r["case"])
    else:
        evaluate(chk, [r["case"]])
    for f in chk.failures:
        print("still failing:", f["clause"], json.dumps(f["observed"], default=str)[:400], "expected", json.dumps(f["expected"], default=str)[:400])
    print("REPLAY", "FAILS" if chk.failures else "passes")
    return 1 if chk.failures else 0
