"""gendb.py - generator of CONSISTENT aldy gene databases (YAML text in aldy's format, two builds, optional pseudogene).

Shared by the end-to-end checks (C01, C10, C17, C13, C19, ...).  Nothing in this file imports aldy except `selfcheck`.

API
---
generate(rng, **opts) -> (yaml_text, desc)
write_db(dir, rng, **opts) -> (yaml_path, desc)       # file is <dir>/<name lower-case>.yml  (aldy lower-cases nothing in a path,
                                                      # but a gene_db path must not contain ',')
selfcheck(yaml_path, desc) -> list of problems         # loads aldy.gene.Gene for every build and compares it with desc ([] = consistent)
allele_genome_variants(desc, build, spec) -> [(chr_pos0, op_genome), ...]   # spec "2.001" or "F#B" (fusion allele F over base allele B)
rc(seq)                                                # reverse complement ('.' kept)

opts (every one optional; a missing/None option is drawn from rng):
  name="GEN"                gene name (pseudogene is name+"P")
  length=None               RefSeq length of the GENE part, 300..2000
  strands=None              "++", "+-", "-+", "--"  (hg19 strand, hg38 strand)
  pseudogene=None           bool
  refseq_span=None          "gene" (RefSeq covers the gene only, real-database layout, optional spacer between pseudogene and
                            gene) or "both" (TOY layout: RefSeq = pseudogene part followed by gene part); only with pseudogene
  n_exons=None              3..6
  n_alleles=None            3..10 sequence-defined alleles (structural alleles come on top)
  kinds=None                dict kind->weight over "snp","mnp","ins","del","delins"   (default: no delins; see NOTE)
  deletion=None             bool: add a whole-gene deletion allele
  fusions=None              subset of ("left","right") (only with pseudogene); fusion_core=None: bool, right/left fusion with own
                            core variants (a left fusion with own functional variants gets no partial alleles in aldy)
  simulation_friendly=True  indels >= 25 bp apart and >= 12 bp from region boundaries, not shiftable, outside homopolymers,
                            SNP/MNP >= 6 bp from any indel, one variant per site.  False = adversarial: same-site SNP+deletion,
                            indels 8 bp apart, shiftable indels in repeats are allowed and actively produced.
  chrom=None                chromosome name (never "1","10","22": aldy's genome detection looks at those)
  tandems=False             add structure.tandems [['1', <fusion or 2>]]
  union=False               bool (never drawn from rng): add a major allele whose functional variants are the union of two other majors' (so that two
                            different allele combinations explain the same evidence) and give two majors the same silent sub-allele

desc (JSON-serialisable, everything 0-based half-open unless called *_1based):
  name, pseudogene (str|None), refseq (str), exons [[s,e]..] (RefSeq), cn_regions [names], region_order [names in
  transcription order incl. introns], friendly (bool), opts (the resolved options)
  alleles: {minor_name: {"kind": "normal"|"deletion"|"left_fusion"|"right_fusion", "brk": region|None,
                         "variants": [[refseq_idx0, op_refseq, rsid, function|None], ...], "label": str|None}}
           minor_name is aldy's name ("2.001"); "major" (prefix) and "functional" (sorted list of [idx, op]) are given too
  variants: the pool [[idx0, op, rsid, function|None], ...]
  builds: {build: {chr, strand, map_start_1based, map_end_1based, chrom_len, win_start, win_seq (genome orientation),
                   regions: {name: [[gs,ge],[ps,pe]|None]}, gene_span [s,e], pseudo_span [s,e]|None, locus [s,e],
                   neutral [chr, s, e]  (pass as GRange(*neutral)), refmap_low (chr pos of the lowest mapped base),
                   alleles: {minor_name: [[chr_pos0, op_genome], ...]}}}      # database convention, as aldy stores them

Conventions (checked by selfcheck against aldy.gene.Gene): an insertion (p, insX) goes AFTER genome base p; on the minus
strand aldy anchors every multi-base variant at its lowest genome coordinate and reverse-complements the operation.

NOTE delins: aldy parses `delXXinsY` entries and realigns them, but the CIGAR walk can never observe one; they are generated only
when asked for through `kinds`.
"""
import json, os, random

COMP = {"A": "T", "C": "G", "G": "C", "T": "A", ".": ".", "N": "N"}
BUILDS = ("hg19", "hg38")


def rc(x):
    return "".join(COMP[c] for c in reversed(x))


def _rand_seq(rng, n, max_run=3):
    """random ACGT without homopolymer runs longer than max_run"""
    out = []
    for _ in range(n):
        while True:
            c = rng.choice("ACGT")
            if len(out) >= max_run and all(o == c for o in out[-max_run:]):
                continue
            out.append(c)
            break
    return "".join(out)


def _partition(rng, total, k, minimum):
    """k positive integers >= minimum summing to total"""
    assert total >= k * minimum, (total, k, minimum)
    rest = total - k * minimum
    w = [rng.random() + 0.15 for _ in range(k)]
    sw = sum(w)
    parts = [int(rest * x / sw) for x in w]
    parts[rng.randrange(k)] += rest - sum(parts)
    return [minimum + p for p in parts]


# ----------------------------------------------------------------------------------------------------------------------
# variants in RefSeq coordinates
# ----------------------------------------------------------------------------------------------------------------------
def _footprint(idx, op):
    """RefSeq interval [a,b) touched by a variant (insertion: the two neighbours)"""
    if ">" in op:
        return idx, idx + len(op.split(">")[0])
    if op.startswith("ins"):
        return idx, idx + 2
    body = op[3:].split("ins")[0]
    return idx, idx + len(body)


def _shiftable(seq, idx, op):
    if op.startswith("ins"):
        x = op[3:]
        return x[-1] == seq[idx] or (idx + 1 < len(seq) and x[0] == seq[idx + 1])
    if op.startswith("del") and "ins" not in op:
        k = len(op) - 3
        return seq[idx - 1] == seq[idx + k - 1] or (idx + k < len(seq) and seq[idx] == seq[idx + k])
    return False


def _draw_variant(rng, seq, kind, lo, hi):
    """one variant of the kind somewhere in RefSeq[lo:hi): (idx0, op)"""
    i = rng.randrange(lo, hi)
    if kind == "snp":
        return i, f"{seq[i]}>{rng.choice([c for c in 'ACGT' if c != seq[i]])}"
    if kind == "mnp":
        k = rng.choice([2, 2, 3])
        if i + k > hi:
            return None
        l = list(seq[i:i + k])
        r = [rng.choice([c for c in "ACGT" if c != x]) for x in l]
        if k == 3 and rng.random() < 0.5:  # gapped form A.C>T.G
            l[1] = r[1] = "."
        return i, "".join(l) + ">" + "".join(r)
    if kind == "ins":
        return i, "ins" + "".join(rng.choice("ACGT") for _ in range(rng.choice([1, 1, 2, 3, 4])))
    if kind == "del":
        k = rng.choice([1, 1, 2, 3, 5])
        if i + k > hi:
            return None
        return i, "del" + seq[i:i + k]
    if kind == "delins":
        k = rng.choice([2, 3, 4])
        if i + k > hi:
            return None
        z = "".join(rng.choice("ACGT") for _ in range(rng.choice([1, 2, 3])))
        if len(z) == k or z[0] == seq[i] or z[-1] == seq[i + k - 1]:
            return None
        return i, "del" + seq[i:i + k] + "ins" + z
    raise ValueError(kind)


def _is_indel(op):
    return op[:3] in ("ins", "del")


def _compatible(seq, cand, pool, friendly, boundaries):
    idx, op = cand
    a, b = _footprint(idx, op)
    if friendly:
        if _is_indel(op):
            if _shiftable(seq, idx, op):
                return False
            ctx = seq[max(0, a - 3):b + 3]
            if any(ctx[j] == ctx[j + 1] == ctx[j + 2] for j in range(len(ctx) - 2)):
                return False
            if any(abs(a - x) < 12 or abs(b - x) < 12 for x in boundaries):
                return False
        elif any(a < x < b for x in boundaries):
            return False
        for (j, o, *_rest) in pool:
            c, d = _footprint(j, o)
            gap = max(a, c) - min(b, d)  # >= 0 when disjoint
            need = 25 if (_is_indel(op) and _is_indel(o)) else 6 if (_is_indel(op) or _is_indel(o)) else 1
            if gap < need:
                return False
        return True
    # adversarial: only exact duplicates and clashing non-insertion variants of ONE allele are a problem (handled per allele)
    return all((j, o) != (idx, op) for (j, o, *_r) in pool)


def _to_genome(b, n, idx, op):
    """RefSeq (idx0, op) -> (chr_pos0, op) in the build's genome orientation, aldy's anchoring"""
    low = b["refmap_low"]
    if b["strand"] == "+":
        return low + idx, op
    chrpos = lambda i: low + (n - 1 - i)
    if ">" in op:
        l, r = op.split(">")
        return chrpos(idx + len(l) - 1), f"{rc(l)}>{rc(r)}"
    if op.startswith("ins"):
        return chrpos(idx + 1), "ins" + rc(op[3:])
    body = op[3:]
    if "ins" in body:
        pd, pi = body.split("ins")
        return chrpos(idx + len(pd) - 1), f"del{rc(pd)}ins{rc(pi)}"
    return chrpos(idx + len(body) - 1), "del" + rc(body)


# ----------------------------------------------------------------------------------------------------------------------
def generate(rng, **opts):
    o = dict(name="GEN", length=None, strands=None, pseudogene=None, refseq_span=None, n_exons=None, n_alleles=None,
             kinds=None, deletion=None, fusions=None, fusion_core=None, simulation_friendly=True, chrom=None, tandems=False,
             union=False)
    unknown = set(opts) - set(o)
    assert not unknown, f"unknown options {unknown}"
    o.update({k: v for k, v in opts.items() if v is not None})
    friendly = bool(o["simulation_friendly"])
    name = o["name"]
    n = o["length"] or rng.randint(300, 2000)
    strands = o["strands"] or rng.choice(["++", "+-", "-+", "--"])
    pseudo = rng.random() < 0.5 if o["pseudogene"] is None else bool(o["pseudogene"])
    span = (o["refseq_span"] or rng.choice(["gene", "gene", "both"])) if pseudo else "gene"
    k_ex = o["n_exons"] or rng.randint(3, 6)
    n_all = o["n_alleles"] or rng.randint(3, 10)
    kinds = o["kinds"] or {"snp": 5, "mnp": 1, "ins": 2, "del": 2}
    deletion = (rng.random() < 0.6) if o["deletion"] is None else bool(o["deletion"])
    if o["fusions"] is None:
        fusions = [f for f in ("left", "right") if pseudo and rng.random() < 0.4]
    else:
        fusions = [f for f in o["fusions"] if pseudo]
    fusion_core = (rng.random() < 0.3) if o["fusion_core"] is None else bool(o["fusion_core"])
    chrom = o["chrom"] or rng.choice(["2", "7", "12", "16", "20"])
    union = bool(o["union"])      # default off and NOT drawn from rng: databases of existing seeds stay what they were
    pname = name + "P" if pseudo else None

    # ---- regions in transcription orientation: up e1 i1 e2 ... eK down ------------------------------------------------
    reg_names = ["up"] + [x for e in range(1, k_ex + 1) for x in ((f"e{e}", f"i{e}") if e < k_ex else (f"e{e}",))] + ["down"]
    min_len = 14
    while len(reg_names) * min_len > n:
        n += 50
    g_len = _partition(rng, n, len(reg_names), min_len)
    if pseudo:
        p_len = [max(min_len, int(x * rng.choice([1.0, 1.0, 0.8, 1.25]))) for x in g_len] if rng.random() < 0.5 else list(g_len)
    else:
        p_len = []
    spacer = rng.choice([0, 0, 37, 150]) if (pseudo and span == "gene") else 0
    p_total = sum(p_len)
    g_t0 = p_total + spacer                 # transcription coordinate where the gene part starts
    T = g_t0 + n
    tr_regions = {}                          # name -> [(ga, gb), (pa, pb) | None] in transcription coordinates
    ga, pa = g_t0, 0
    for i, r in enumerate(reg_names):
        gr = (ga, ga + g_len[i])
        ga += g_len[i]
        pr = None
        if pseudo:
            pr = (pa, pa + p_len[i])
            pa += p_len[i]
        tr_regions[r] = [gr, pr]
    locus_seq = _rand_seq(rng, T)
    ref_t0 = 0 if span == "both" else g_t0
    refseq = locus_seq[ref_t0:T]
    N = len(refseq)
    g_off = g_t0 - ref_t0                    # RefSeq index where the gene part starts
    exons = [[tr_regions[f"e{e}"][0][0] - ref_t0, tr_regions[f"e{e}"][0][1] - ref_t0] for e in range(1, k_ex + 1)]
    boundaries = sorted({x - ref_t0 for r in reg_names for x in tr_regions[r][0]})
    cn_regions = [r for r in reg_names if r not in ("up", "down")]
    if rng.random() < 0.3 and len(cn_regions) > 4:
        cn_regions = cn_regions[:-1] if rng.random() < 0.5 else cn_regions[1:]

    # ---- variant pool -------------------------------------------------------------------------------------------------
    lo, hi = g_off + 8, N - 8               # variants live in the gene part, away from the RefSeq ends
    want_f = max(2, min(8, n_all))
    want_s = max(2, min(8, n_all))
    pool = []                                # [idx, op, rsid, function]
    kind_list = [k for k, w in kinds.items() for _ in range(int(w))]
    rs = 1000 + rng.randrange(9000)

    def add(kind, functional):
        nonlocal rs
        for _ in range(400):
            cand = _draw_variant(rng, refseq, kind, lo, hi)
            if cand is None or not _compatible(refseq, cand, pool, friendly, boundaries):
                continue
            rs += rng.randint(1, 50)
            rsid = f"rs{rs}" if rng.random() < 0.7 else "-"
            fn = rng.choice(["functional", "frameshift", "splicing defect", "S12T"]) if functional else None
            pool.append([cand[0], cand[1], rsid, fn])
            return True
        return False

    for j in range(want_f + want_s):
        functional = j < want_f
        kind = rng.choice(kind_list)
        if kind == "mnp" and not functional:
            kind = "snp"                     # aldy merges multi-base substitutions only when they are functional
        add(kind, functional)
    if not friendly:                         # adversarial extras: same-site SNP + deletion, indels 8 bp apart, repeat indel
        base = [v for v in pool if v[1].startswith("del") and "ins" not in v[1]]
        if base:
            i, op = base[0][0], base[0][1]
            pool.append([i, f"{refseq[i]}>{rng.choice([c for c in 'ACGT' if c != refseq[i]])}", "-", "functional"])
            j = i + 8
            if j + 3 < hi and not any(v[0] == j for v in pool):
                pool.append([j, "ins" + rng.choice(["TT", "AC", "G"]), "-", "functional"])
    functional_pool = [v for v in pool if v[3]]
    silent_pool = [v for v in pool if not v[3]]
    assert functional_pool, "no functional variant could be placed"

    def clash(vs):
        """aldy's minor model asserts at most one non-insertion variant per site in one allele; overlapping footprints make
        no haplotype"""
        spans = sorted(_footprint(v[0], v[1]) for v in vs if not v[1].startswith("ins"))
        return any(spans[i][1] > spans[i + 1][0] for i in range(len(spans) - 1)) or \
            len({(v[0]) for v in vs if v[1].startswith("ins")}) < len([v for v in vs if v[1].startswith("ins")])

    # ---- alleles ------------------------------------------------------------------------------------------------------
    majors = [[]]                            # functional sets; *1 is empty
    tries = 0
    n_major = max(2, min(len(functional_pool) + 1, (n_all + 1) // 2 + rng.randint(0, 1)))
    while len(majors) < n_major and tries < 200:
        tries += 1
        k = rng.choice([1, 1, 2, 3])
        vs = sorted(rng.sample(functional_pool, min(k, len(functional_pool))))
        if vs in majors or clash(vs):
            continue
        majors.append(vs)
    if union and len(majors) >= 3:
        for _ in range(20):
            a, b = rng.sample(majors[1:], 2)
            u = sorted([list(v) for v in {tuple(v) for v in a + b}])
            if u not in majors and not clash(u):
                majors.append(u)
                break
    alleles = {}
    count = 0
    shared_silent = sorted(rng.sample(silent_pool, 1)) if (union and silent_pool) else None
    for mi, fvs in enumerate(majors):
        n_minor = 1 + (1 if count + (len(majors) - mi) < n_all and rng.random() < 0.6 else 0) + \
                  (1 if count + (len(majors) - mi) + 1 < n_all and rng.random() < 0.3 else 0)
        if union and mi < 2:
            n_minor = max(n_minor, 2)
        seen = []
        for sub in range(n_minor):
            for _ in range(30):
                svs = [] if (sub == 0 and rng.random() < 0.7) else sorted(rng.sample(silent_pool, min(len(silent_pool), rng.choice([1, 1, 2]))))
                if shared_silent is not None and sub == 1 and mi < 2:
                    svs = shared_silent
                if svs in seen or clash(fvs + svs):
                    continue
                seen.append(svs)
                nm = f"{mi + 1}.{len(seen):03d}"
                alleles[nm] = {"kind": "normal", "brk": None, "variants": [list(v) for v in fvs + svs],
                               "label": (f"{mi + 1}{'ABCDEFG'[len(seen) - 1]}" if rng.random() < 0.5 else None)}
                count += 1
                break
    nxt = len(majors) + 1
    brk_choices = [r for r in reg_names if r not in ("up", "e1", "down")]

    def retained(kind, brk, idx, op):
        a, b = _footprint(idx, op)
        cut = tr_regions[brk][0][0] - ref_t0  # RefSeq index where region brk starts
        return a >= cut + 2 if kind == "left_fusion" else b <= cut - 2

    for f in fusions:
        kind = f + "_fusion"
        brk = rng.choice(brk_choices)
        vs = []
        if fusion_core:
            cands = [v for v in functional_pool if retained(kind, brk, v[0], v[1])]
            if cands:
                vs = [list(rng.choice(cands))]
        alleles[f"{nxt}.001"] = {"kind": kind, "brk": brk, "variants": vs, "label": None}
        nxt += 1
    if deletion:
        alleles[f"{nxt}.001"] = {"kind": "deletion", "brk": None, "variants": [], "label": f"{nxt}DEL" if rng.random() < 0.5 else None}
        nxt += 1
    for nm, a in alleles.items():
        a["major"] = nm.split(".")[0]
        a["functional"] = sorted([v[0], v[1]] for v in a["variants"] if v[3])

    # ---- builds -------------------------------------------------------------------------------------------------------
    builds = {}
    import zlib
    frng = random.Random(zlib.crc32(locus_seq.encode()))
    flanks = (_rand_seq(frng, 600), _rand_seq(frng, 600))
    for bi, build in enumerate(BUILDS):
        strand = strands[bi]
        neutral_len = rng.randint(300, 800)
        gap = rng.randint(700, 1500)
        before = rng.random() < 0.5
        locus_start = rng.randint(3000, 40000) + (neutral_len + gap if before else 0)
        locus_end = locus_start + T
        neutral = [locus_start - gap - neutral_len, locus_start - gap] if before else [locus_end + gap, locus_end + gap + neutral_len]
        win_start = min(neutral[0], locus_start) - 600
        win_end = max(neutral[1], locus_end) + 600
        chrom_len = win_end + rng.randint(1000, 5000)
        tr2chr = (lambda t: locus_start + t) if strand == "+" else (lambda t: locus_start + T - 1 - t)

        def iv(ab):
            if ab is None:
                return None
            a, b = ab
            return [locus_start + a, locus_start + b] if strand == "+" else [locus_start + T - b, locus_start + T - a]

        win = list(_rand_seq(rng, win_end - win_start))
        oriented = locus_seq if strand == "+" else rc(locus_seq)
        win[locus_start - win_start:locus_end - win_start] = list(oriented)
        # the 600 bases on either side of the locus are the SAME sequence in both builds (as they are in the real assemblies): reads
        # that run over the locus boundary, and the realigner's reference context of an indel near it, are then build-independent.
        # Drawn from a generator of their own so that the other draws of a database seed stay what they were
        fl_up, fl_down = flanks if strand == "+" else (rc(flanks[1]), rc(flanks[0]))
        win[locus_start - win_start - 600:locus_start - win_start] = list(fl_up)
        win[locus_end - win_start:locus_end - win_start + 600] = list(fl_down)
        regions = {r: [iv(tr_regions[r][0]), iv(tr_regions[r][1])] for r in reg_names}
        refmap_low = min(tr2chr(ref_t0), tr2chr(T - 1))
        b = {"chr": chrom, "strand": strand, "map_start_1based": refmap_low + 1, "map_end_1based": refmap_low + 1 + N,
             "chrom_len": chrom_len, "win_start": win_start, "win_seq": "".join(win), "regions": regions,
             "gene_span": iv((g_t0, T)), "pseudo_span": iv((0, p_total)) if pseudo else None, "locus": [locus_start, locus_end],
             "neutral": [chrom, neutral[0], neutral[1]], "refmap_low": refmap_low}
        b["alleles"] = {nm: [list(_to_genome(b, N, v[0], v[1])) for v in a["variants"]] for nm, a in alleles.items()}
        builds[build] = b

    desc = {"name": name, "pseudogene": pname, "refseq": refseq, "exons": exons, "cn_regions": cn_regions,
            "region_order": reg_names, "friendly": friendly, "alleles": alleles, "variants": pool, "builds": builds,
            "opts": {"length": n, "strands": strands, "pseudogene": pseudo, "refseq_span": span, "n_exons": k_ex, "n_alleles": n_all,
                     "kinds": kinds, "deletion": deletion, "fusions": fusions, "fusion_core": fusion_core,
                     "simulation_friendly": friendly, "chrom": chrom, "spacer": spacer, "union": union}}
    return _yaml(desc, o["tandems"]), desc


def _yaml(desc, tandems=False):
    name, pname = desc["name"], desc["pseudogene"]
    L = [f"name: {name}", "version: generated-1.0", "generated: '2026-09-26'", "alleles:"]
    for nm, a in desc["alleles"].items():
        L.append(f"   \"{name}*{nm}\":")
        if a["label"]:
            L.append(f"      label: \"{name}*{a['label']}\"")
        if nm == "1.001":
            L.append("      activity: normal function")
        muts = []
        if a["kind"] == "deletion":
            muts.append(f"[{name}, deletion]")
        elif a["kind"] == "left_fusion":
            muts.append(f"[{pname}, {a['brk']}-]")
        elif a["kind"] == "right_fusion":
            muts.append(f"[{pname}, {a['brk']}+]")
        for idx, op, rsid, fn in a["variants"]:
            muts.append(f"[{idx + 1}, '{op}', '{rsid}'" + (f", '{fn}']" if fn else "]"))
        if muts:
            L.append("      mutations:")
            L += [f"      - {m}" for m in muts]
        else:
            L.append("      mutations: []")
    L.append("structure:")
    L.append(f"   genes: [{name}{', ' + pname if pname else ''}]")
    L.append("   regions:")
    for build, b in desc["builds"].items():
        L.append(f"      {build}:")
        for r in desc["region_order"]:
            if r[0] == "i" and r[1:].isdigit():
                continue                     # introns are derived by aldy from the exon rows
            g, p = b["regions"][r]
            coords = [g[0] + 1, g[1] + 1] + ([p[0] + 1, p[1] + 1] if p else [])
            L.append(f"         {r}: [{', '.join(map(str, coords))}]")
    L.append(f"   cn_regions: [{', '.join(desc['cn_regions'])}]")
    if tandems:
        others = [a["major"] for nm, a in desc["alleles"].items() if a["major"] != "1"]
        if others:
            L.append(f"   tandems: [['1', '{others[-1]}']]")
    L.append("reference:")
    L.append("   name: NG_GENERATED")
    L.append("   mappings:")
    for build, b in desc["builds"].items():
        L.append(f"      {build}: ['{b['chr']}', {b['map_start_1based']}, {b['map_end_1based']}, '{b['strand']}', M{len(desc['refseq'])}]")
    L.append("   exons:")
    for s, e in desc["exons"]:
        L.append(f"   - [{s + 1}, {e + 1}]")
    L.append("   seq: |-")
    seq = desc["refseq"]
    ps = desc.get("patch_sites") or []
    if ps:
        # the same reference spelled as the shipped VKORC1 / NAT1 databases spell theirs: the written sequence differs from the
        # reference at the patched sites, and `patches` (1-based position, base) restores it
        w = list(seq)
        for i, base in ps:
            assert base != seq[i]
            w[i] = base
        seq = "".join(w)
    L += ["      " + seq[i:i + 80] for i in range(0, len(seq), 80)]
    if ps:
        L.append("   patches:")
        L += [f"   - [{i + 1}, {desc['refseq'][i]}]" for i, _ in ps]
    return "\n".join(L) + "\n"


def respell_with_patches(desc, yaml_path, rng, prefer=()):
    """rewrite the database file with 2-4 reference patches (no change of its meaning): the single-base substitutions of the alleles
    named in `prefer` come first - the written base is the VARIANT base there, so a loader that loses the patch takes carriers for
    reference - and a site without any variant comes last; returns the number of patches"""
    subs = []
    for a in prefer:
        for part in a.split("#"):
            for v in desc["alleles"][part]["variants"]:
                if len(v[1]) == 3 and v[1][1] == ">" and (v[0], v[1][2]) not in subs and v[0] not in [x[0] for x in subs]:
                    subs.append((v[0], v[1][2]))
    subs = subs[:3]
    used = {v[0] for v in desc["variants"]} | {x[0] for x in subs}
    free = [i for i in range(len(desc["refseq"])) if all(abs(i - u) > 3 for u in used)]
    if not free:
        return 0
    i = rng.choice(free)
    subs.append((i, rng.choice([c for c in "ACGT" if c != desc["refseq"][i]])))
    if len(subs) < 2:
        j = rng.choice([k for k in free if k != i] or [i])
        if j != i:
            subs.insert(0, (j, rng.choice([c for c in "ACGT" if c != desc["refseq"][j]])))
    desc["patch_sites"] = subs
    open(yaml_path, "w").write(_yaml(desc))
    return len(subs)


def plant_edge_allele(desc, yaml_path, which, name="82.001", salt=0):
    """add an allele defined by ONE functional substitution on the last (which='last') or first (which='first') base of the RefSeq
    mapping - the outermost aligned genome base on one strand or the other - and rewrite the database file; returns the allele name
    or None when another variant of the pool sits within 3 bases of that border"""
    N = len(desc["refseq"])
    i = N - 1 if which == "last" else 0
    if any(abs(v[0] - i) < 4 for v in desc["variants"]):
        return None
    ref = desc["refseq"][i]
    sop = f"{ref}>{[c for c in 'ACGT' if c != ref][salt % 3]}"
    desc["alleles"][name] = {"kind": "normal", "brk": None, "variants": [[i, sop, "-", "functional"]], "label": None,
                             "major": name.split(".")[0], "functional": [[i, sop]]}
    for b in desc["builds"].values():
        b["alleles"][name] = [list(_to_genome(b, N, i, sop))]
    open(yaml_path, "w").write(_yaml(desc))
    return name


def plant_before_break_allele(desc, yaml_path, name="84.001", salt=0):
    """add an allele defined by ONE functional substitution on the LAST base (transcription order) of the region that precedes the break
    region of the database's left fusion, and rewrite the database file; returns (allele name, fusion name) or None.  That base
    belongs to a region the fusion does NOT retain: region labels of region-border bases decide the copy number there."""
    N = len(desc["refseq"])
    F = next((a for a, v in desc["alleles"].items() if v["kind"] == "left_fusion"), None)
    if F is None:
        return None
    brk = desc["alleles"][F]["brk"]
    b0 = desc["builds"]["hg19"]
    gs, ge = b0["regions"][brk][0]
    first = gs if b0["strand"] == "+" else ge - 1
    i = next((k for k in range(N) if _to_genome(b0, N, k, "A>C")[0] == first), None)
    if i is None or i < 1 or any(abs(v[0] - (i - 1)) < 4 for v in desc["variants"]):
        return None
    i -= 1
    ref = desc["refseq"][i]
    sop = f"{ref}>{[c for c in 'ACGT' if c != ref][salt % 3]}"
    desc["alleles"][name] = {"kind": "normal", "brk": None, "variants": [[i, sop, "-", "functional"]], "label": None,
                             "major": name.split(".")[0], "functional": [[i, sop]]}
    for b in desc["builds"].values():
        b["alleles"][name] = [list(_to_genome(b, N, i, sop))]
    open(yaml_path, "w").write(_yaml(desc))
    return name, F


def write_db(dir, rng, **opts):
    text, desc = generate(rng, **opts)
    path = os.path.join(dir, desc["name"].lower() + ".yml")
    with open(path, "w") as f:
        f.write(text)
    return path, desc


def allele_genome_variants(desc, build, spec):
    """genome-orientation variants carried by the GENE part of a copy described by `spec`:
    'A' -> variants of allele A; 'F#B' -> own variants of fusion allele F plus those of base allele B (the simulator keeps only
    what lies on retained pieces)"""
    b = desc["builds"][build]
    out = []
    for part in spec.split("#"):
        for v in b["alleles"][part]:
            if v not in out:
                out.append(v)
    return [tuple(v) for v in out]


def selfcheck(yaml_path, desc):
    """compare desc with what aldy.gene.Gene makes of the YAML; returns a list of discrepancies"""
    from aldy.gene import Gene
    problems = []
    for build, b in desc["builds"].items():
        try:
            g = Gene(yaml_path, genome=build)
        except Exception as e:  # noqa
            problems.append(f"{build}: Gene() failed: {e!r}")
            continue
        lo, hi = g._lookup_range
        if g._lookup_seq != b["win_seq"][lo - b["win_start"]:hi - b["win_start"]]:
            problems.append(f"{build}: genome-orientation RefSeq differs from window sequence")
        for r, (gr, pr) in b["regions"].items():
            have = g.regions[0].get(r)
            if have is None or [have.start, have.end] != gr:
                problems.append(f"{build}: gene region {r}: {have} vs {gr}")
            if pr is not None:
                have = g.regions[1].get(r)
                if have is None or [have.start, have.end] != pr:
                    problems.append(f"{build}: pseudogene region {r}: {have} vs {pr}")
        for nm, a in desc["alleles"].items():
            if a["kind"] == "left_fusion" and not a["functional"]:
                continue                       # replaced by partial alleles F#B
            hit = g.get_allele(nm)
            if hit is None:
                problems.append(f"{build}: allele {nm} not found")
                continue
            ma, mi = hit
            have = sorted((m.pos, m.op) for m in (ma.func_muts | mi.neutral_muts))
            want = sorted(tuple(v) for v in b["alleles"][nm])
            if have != want:
                problems.append(f"{build}: allele {nm}: aldy {have} vs desc {want}")
            havef = sorted((m.pos, m.op) for m in ma.func_muts)
            wantf = sorted(_to_genome(b, len(desc["refseq"]), i, op) for i, op in a["functional"])
            if havef != wantf:
                problems.append(f"{build}: allele {nm} functional: aldy {havef} vs desc {wantf}")
    return problems


if __name__ == "__main__":
    import sys, tempfile
    seed = int(sys.argv[1]) if len(sys.argv) > 1 else 1
    with tempfile.TemporaryDirectory() as d:
        bad = 0
        for s in range(seed, seed + 40):
            rng = random.Random(s)
            p, desc = write_db(d, rng, simulation_friendly=(s % 4 != 0))
            pr = selfcheck(p, desc)
            bad += bool(pr)
            print(s, desc["opts"]["strands"], desc["opts"]["pseudogene"], desc["opts"]["refseq_span"], len(desc["refseq"]),
                  len(desc["alleles"]), "OK" if not pr else pr[:3])
        print("bad:", bad)
