"""e2e.py - helpers shared by the end-to-end checks C01 / C10 / C17 (owned by the C01/C10/C17 builder).

run_pool(func, items, jobs, timeout)     fork one process per item (at most `jobs` at a time), kill it after `timeout` seconds;
                                         returns results in order ({"timeout": True} / {"crash": text} for lost ones)
StageRecorder                            context manager recording what estimate_cn / estimate_major / estimate_minor /
                                         solve_minor_model return during a genotype() call (module attributes, looked up at call
                                         time by genotype.py and minor.py); optional forced-empty stage
planted_variants / reported_variants     variant multisets of a planted sample / of a MinorSolution
consts_here()                            literals of the current tree as the translator wrote them (slack, precisions, sort scale)
"""
import collections, multiprocessing, os, re, time, traceback
from fractions import Fraction
import common


def _child(func, item, conn):
    try:
        conn.send(func(item))
    except BaseException:  # noqa
        conn.send({"crash": traceback.format_exc()[-3000:]})
    finally:
        conn.close()


def warm():
    """import everything a genotype() call needs BEFORE forking workers (children then start warm)"""
    common.quiet_aldy()
    import pysam, yaml, natsort  # noqa
    import aldy.genotype, aldy.sam, aldy.cn, aldy.major, aldy.minor, aldy.diplotype, aldy.profile  # noqa
    try:
        import ortools.linear_solver.pywraplp  # noqa
        from aldy.indelpost import Variant, VariantAlignment  # noqa
    except Exception:  # noqa
        pass


def run_pool(func, items, jobs=10, timeout=240):
    warm()
    ctx = multiprocessing.get_context("fork")
    results = [None] * len(items)
    pending = list(range(len(items)))
    running = {}
    while pending or running:
        while pending and len(running) < jobs:
            i = pending.pop(0)
            pc, cc = ctx.Pipe(duplex=False)
            p = ctx.Process(target=_child, args=(func, items[i], cc), daemon=True)
            p.start()
            cc.close()
            running[i] = (p, pc, time.time())
        done = []
        for i, (p, pc, t0) in running.items():
            if pc.poll(0):
                try:
                    results[i] = pc.recv()
                except EOFError:
                    results[i] = {"crash": "worker died without a result"}
                p.join(5)
                done.append(i)
            elif not p.is_alive():
                results[i] = {"crash": f"worker exited with code {p.exitcode}"}
                done.append(i)
            elif time.time() - t0 > timeout:
                p.kill()
                p.join(5)
                results[i] = {"timeout": True}
                done.append(i)
        for i in done:
            running.pop(i)
        if not done:
            time.sleep(0.05)
    return results


def consts_here():
    text = open(os.path.join(common.COQ, "gen", "Consts_here.v")).read()

    def q(field):
        m = re.search(field + r"\s*:=\s*\(\(?(-?\d+)\)?\s*#\s*(\d+)\)%Q", text)
        return Fraction(int(m.group(1)), int(m.group(2)))
    scale = [int(x) for x in re.search(r"c_sort_scale\s*:=\s*\[([^\]]*)\]", text).group(1).split(";")]
    return {"slack": q("c_slack"), "prec": q("c_solution_precision"), "solver_prec": q("c_solver_precision"), "scale": scale,
            "dump_min_avg": q("c_dump_min_avg")}


# ----------------------------------------------------------------------------------------------------------------------
class StageRecorder:
    """records stage outputs of one genotype() call.  force_empty in (None, "cn", "major", "minor")."""

    def __init__(self, force_empty=None, inject=None):
        self.force_empty = force_empty
        self.inject = inject      # [(copy delta, score offset)]: competing structures appended to what estimate_cn returns
        self.keep = []            # keeps every recorded object alive so that id() stays unique
        self.cn = None            # list of CNSolution as returned
        self.cn_scores = None
        self.major_calls = []     # (cn_sol, [MajorSolution], [raw scores])
        self.minor_in = None      # list of MajorSolution passed to estimate_minor (+ scores at that time)
        self.minor_in_scores = None
        self.minor_out = None     # list of MinorSolution returned by estimate_minor (+ scores at return)
        self.minor_out_scores = None
        self.solve_calls = []     # (major_sol, [MinorSolution], [raw scores])
        self.minor_kwargs = None
        self.coverage = None      # the Coverage object handed to the structure stage
        self.gene = None

    def __enter__(self):
        import aldy.cn, aldy.major, aldy.minor
        self._mods = (aldy.cn, aldy.major, aldy.minor)
        self._orig = (aldy.cn.estimate_cn, aldy.major.estimate_major, aldy.minor.estimate_minor, aldy.minor.solve_minor_model)
        o_cn, o_major, o_minor, o_solve = self._orig
        rec = self

        def estimate_cn(*a, **k):
            rec.coverage = a[2] if len(a) > 2 else k.get("coverage")
            rec.gene = a[0] if a else k.get("gene")
            r = o_cn(*a, **k)
            if rec.force_empty == "cn":
                r = []
            if rec.inject and r:
                # competing gene structures: the best real structure with one default copy more / less, scored a little worse.
                # The later stages run for real on them, so candidates of several structures with different scores reach the selection
                from aldy.solutions import CNSolution
                from aldy.gene import CNConfigType
                gene_ = a[0] if a else k.get("gene")
                best = min(r, key=lambda x: x.score)
                default = [n for n, c in gene_.cn_configs.items() if c.kind == CNConfigType.DEFAULT][0]
                base = [n for n, v in best.solution.items() for _ in range(v)]
                have = {tuple(sorted(x.solution.items())) for x in r}
                r = list(r)
                for ent in rec.inject:
                    delta, off = ent[0], ent[1]
                    swap = len(ent) > 2 and ent[2]
                    lst = list(base)
                    if delta > 0:
                        lst += [default] * delta
                    elif default in lst and len(lst) > 2:
                        lst.remove(default)
                    else:
                        continue
                    c = CNSolution(gene_, best.score + (0 if swap else off), lst)
                    if tuple(sorted(c.solution.items())) not in have:
                        have.add(tuple(sorted(c.solution.items())))
                        r.append(c)
                        if swap:
                            # the structure stage "prefers" the competing structure by `off`: the structure the evidence really fits
                            # is now the worse-scored one, so the rescaling by the structure score can reorder the refined candidates
                            r[r.index(best)] = CNSolution(gene_, best.score + off, list(base))
                            best = r[-1]
            rec.cn = list(r)
            rec.cn_scores = [float(x.score) for x in r]
            rec.keep += list(r)
            return r

        def estimate_major(gene, coverage, cn_sol, *a, **k):
            r = o_major(gene, coverage, cn_sol, *a, **k)
            if rec.force_empty == "major":
                r = []
            rec.major_calls.append((cn_sol, list(r), [float(x.score) for x in r]))
            rec.keep += list(r)
            return r

        def estimate_minor(gene, coverage, major_sols, *a, **k):
            rec.minor_in = list(major_sols)
            rec.minor_in_scores = [float(x.score) for x in major_sols]
            rec.keep += list(major_sols)
            rec.minor_kwargs = {"args": len(a), **{kk: vv for kk, vv in k.items() if kk == "max_solutions"}}
            r = o_minor(gene, coverage, major_sols, *a, **k)
            if rec.force_empty == "minor":
                r = []
            rec.minor_out = list(r)
            rec.minor_out_scores = [float(x.score) for x in r]
            rec.keep += list(r)
            return r

        def solve_minor_model(gene, coverage, major_sol, *a, **k):
            r = o_solve(gene, coverage, major_sol, *a, **k)
            rec.solve_calls.append((major_sol, list(r), [float(x.score) for x in r]))
            rec.keep += list(r)
            return r

        aldy.cn.estimate_cn = estimate_cn
        aldy.major.estimate_major = estimate_major
        aldy.minor.estimate_minor = estimate_minor
        aldy.minor.solve_minor_model = solve_minor_model
        return self

    def __exit__(self, *exc):
        cn, major, minor = self._mods
        cn.estimate_cn, major.estimate_major, minor.estimate_minor, minor.solve_minor_model = self._orig
        return False


# ----------------------------------------------------------------------------------------------------------------------
class ScoreStubs:
    """replays the CANDIDATES of a recorded genotype() run with SYNTHETIC scores: estimate_cn, estimate_major and solve_minor_model are
    replaced by stubs that return copies of the recorded solutions (same structures / alleles / diplotypes) scored by `rng`; the
    selection logic between the stages (genotype.py, estimate_minor's carry-over) runs for real on them.  Use around a StageRecorder."""

    def __init__(self, rec, rng, cn_scores=(0.0, 0.0, 0.1, 0.35, 0.7, 1.2), raw=(0.0, 0.0, 0.3, 0.5, 0.9, 1.0, 1.4, 2.2), designed=False):
        self.rec, self.rng, self.cn_scores, self.raw = rec, rng, cn_scores, raw
        # designed assignment: structure scores increase with the structure's index, every major scores 0, and the refinements of
        # the WORST structure get the smallest raw score: the candidate that is best before the structure scores are folded in is not
        # the best afterwards (what a selection relying on the order or the scores of an earlier stage gets wrong)
        self.designed = designed

    def __enter__(self):
        import aldy.cn, aldy.major, aldy.minor
        from aldy.solutions import CNSolution, MajorSolution, MinorSolution
        rec, rng = self.rec, self.rng
        self._mods = (aldy.cn, aldy.major, aldy.minor)
        self._orig = (aldy.cn.estimate_cn, aldy.major.estimate_major, aldy.minor.solve_minor_model)
        ckey = lambda c: tuple(sorted(c.solution.items()))
        mkey = lambda m: (ckey(m.cn_solution), tuple(sorted((sa.major, v) for sa, v in m.solution.items())), tuple(sorted((x.pos, x.op) for x in m.added)))
        majors_of = {ckey(c): sols for c, sols, raws in rec.major_calls}
        minors_of = {mkey(m): sols for m, sols, raws in rec.solve_calls}

        designed = self.designed         # False, or the gap g > 0 of the run the assignment is designed for
        self.n_first = 0

        def estimate_cn(gene, *a, **k):
            # designed: structure 0 scores 0, structure 1 scores g (still inside the gap), every other one is far outside
            ladder = lambda i: 0.0 if i == 0 else (float(designed) if i == 1 else float(designed) + 5.0)
            out = [CNSolution(gene, (ladder(i) if designed else rng.choice(self.cn_scores)), [x for x, v in c.solution.items() for _ in range(v)])
                   for i, c in enumerate(rec.cn)]
            self.keep = list(out)
            self.second = out[1] if len(out) > 1 else None
            return out

        def estimate_major(gene, coverage, cn_sol, *a, **k):
            out = [MajorSolution((0.0 if designed else rng.choice(self.raw)), m.solution, cn_sol, list(m.added)) for m in majors_of.get(ckey(cn_sol), [])]
            self.keep += out
            return out

        def solve_minor_model(gene, coverage, major_sol, *a, **k):
            out = []
            for s_ in minors_of.get(mkey(major_sol), []):
                sc = rng.choice(self.raw)
                if designed:
                    # (needs g > 1.1)  refinements of structure 1 score 0: carried g, rescaled with SLACK = 1: g(1+g); refinements of
                    # structure 0 score (g + g^2)/2: larger than g, so structure 1's refinement is the best BEFORE the structure scores are
                    # folded in, and more than g below g(1+g), so that refinement is outside the gap of the true best afterwards
                    g = float(designed)
                    sc = 0.0 if (self.second is not None and ckey(major_sol.cn_solution) == ckey(self.second)) else (g + g * g) / 2
                n = MinorSolution(sc, s_.solution, major_sol)
                n.set_diplotype(s_.get_diplotype())
                out.append(n)
            self.keep += out
            return out

        aldy.cn.estimate_cn, aldy.major.estimate_major, aldy.minor.solve_minor_model = estimate_cn, estimate_major, solve_minor_model
        return self

    def __exit__(self, *exc):
        cn, major, minor = self._mods
        cn.estimate_cn, major.estimate_major, minor.solve_minor_model = self._orig
        return False


# ----------------------------------------------------------------------------------------------------------------------
def _span(pos, op):
    if op.startswith("del"):
        return pos, pos + len(op[3:].split("ins")[0])
    if ">" in op:
        return pos, pos + len(op.split(">")[0])
    return pos, pos + 1


def planted_variants(desc, build, alleles, info):
    """Counter {(chr_pos, op): copies} of what the simulated haplotypes carry (variants on pieces that exist)"""
    import gendb
    c = collections.Counter()
    for spec, pcs in zip(alleles, info["copies"]):
        for pos, op in gendb.allele_genome_variants(desc, build, spec):
            lo, hi = _span(pos, op)
            if any(a <= lo and hi <= b for a, b in pcs):
                c[(pos, op)] += 1
    return c


def reported_variants(sol):
    """Counter {(pos, op): copies} of a MinorSolution: allele definitions + added - missing"""
    c = collections.Counter()
    for sa in sol.solution:
        g = sa.gene
        ms = set(g.alleles[sa.major].func_muts) | set(g.alleles[sa.major].minors[sa.minor].neutral_muts)
        for m in ms:
            if m not in sa.missing:
                c[(m.pos, m.op)] += 1
        for m in sa.added:
            c[(m.pos, m.op)] += 1
    return c
