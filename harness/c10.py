"""C10 - reported solutions are the best candidates and are internally consistent.

Correspondence: the stage outputs recorded during a real aldy.genotype.genotype() run (estimate_cn, estimate_major, estimate_minor and
                solve_minor_model are wrapped as module attributes) are handed to coq/theories/Select.v (genotype_select), whose
                sorted structures, carried major scores, passed majors, minor processing order, combined scores and final list are
                compared with what genotype() did and returned.
Predicate     : evaluated in Python on the recorded objects, independently of the model:
                selected-exact, best-first, carry, chain-structure, chain-minor-refines-major, chain-diplotype, empty-stage-error.
A case is a seed: database, profile, planted sample, noise, gap and max_minor_solutions are all re-derived from it."""
import collections, json, os, random, tempfile, time
from fractions import Fraction
import common, e2e
from common import cz, cq, cstr, clist

IMPORTS = ["Base", "Consts", "Select", "Consts_here"]
TOL = 1e-6
ERRORS = {"cn": "No solutions found!", "major": "No major solutions found!", "minor": "Aldy could not phase any major solution."}


# ----------------------------------------------------------------------------------------------------------------------
# case generation and the worker (runs in a forked process)
# ----------------------------------------------------------------------------------------------------------------------
def gen_cases(rng, n, n_empty):
    cases = []
    for k in range(n):
        stream = ["clean", "noisy", "ambiguous", "noisy", "ambiguous"][k % 5]
        gap = rng.choice([0.0, 0.1, 0.3]) if stream != "ambiguous" else rng.choice([0.1, 0.3, 0.3])
        cases.append({"seed": rng.randrange(1 << 30), "stream": stream, "gap": gap, "mms": rng.choice([1, 1, 2, 3]), "force_empty": None})
    for k in range(n // 2):
        # real evidence, but the structure stage's answer is extended by competing structures (one default copy more / less) at a
        # small score offset and the gap is wide: candidates of SEVERAL structures with DIFFERENT scores reach both filters
        cases.append({"seed": rng.randrange(1 << 30), "stream": "injected-structures", "gap": rng.choice([0.5, 1.0, 2.0]), "mms": rng.choice([1, 2, 3]),
                      "force_empty": None, "inject": [[rng.choice([1, -1]), rng.choice([0.05, 0.2, 0.35, 0.6]), rng.random() < 0.4]
                                                      for _ in range(rng.choice([1, 2]))], "noisy": k % 2 == 1})
    for k in range(max(2, n // 6)):
        # the structure the evidence really fits is the WORSE-scored one, by more than the gap: its major candidates still pass the
        # major-stage filter when the better-scored structure's alleles fit badly (the filter is relative to the best inherited score)
        cases.append({"seed": rng.randrange(1 << 30), "stream": "injected-structures", "gap": rng.choice([0.0, 0.1, 0.1]), "mms": rng.choice([1, 2]),
                      "force_empty": None, "inject": [[rng.choice([1, -1]), rng.choice([0.2, 0.35, 0.6]), True]], "noisy": k % 2 == 1})
    for k in range(n // 2):
        # the candidates of a real run (several structures, majors, minors) replayed with SYNTHETIC stage scores: every relation between
        # structure, major and minor scores occurs (ties, reorderings by the rescaling, candidates exactly at the gap)
        cases.append({"seed": rng.randrange(1 << 30), "stream": "synthetic-scores", "gap": rng.choice([0.0, 0.1, 0.3, 0.5, 1.0]),
                      "mms": rng.choice([1, 2, 3]), "force_empty": None,
                      "inject": [[1, 0.2, False], [-1, 0.3, False]] if k % 2 else [[1, 0.1, False]], "noisy": k % 3 == 0})
    for k in range(n_empty):
        cases.append({"seed": rng.randrange(1 << 30), "stream": "forced-empty", "gap": rng.choice([0.0, 0.1]), "mms": 1,
                      "force_empty": ["cn", "major", "minor"][k % 3]})
    return cases


def plant(rng, desc):
    A = desc["alleles"]
    normal = [a for a, v in A.items() if v["kind"] == "normal"]
    dels = [a for a, v in A.items() if v["kind"] == "deletion"]
    lf = [a for a, v in A.items() if v["kind"] == "left_fusion"]
    rf = [a for a, v in A.items() if v["kind"] == "right_fusion"]
    kinds = ["two", "two"]
    if dels:
        kinds += ["del", "three", "three", "four"]
    if lf:
        kinds.append("lf")
    if rf:
        kinds.append("rf")
    k = rng.choice(kinds)
    pick = lambda: rng.choice(normal)
    if k == "two":
        return [pick(), pick()]
    if k == "del":
        return [pick(), dels[0]]
    if k == "three":
        return [pick(), pick(), pick()]
    if k == "four":
        return [pick(), pick(), pick(), pick()]
    if k == "lf":
        base = pick() if not A[lf[0]]["functional"] else "1.001"
        return [pick(), lf[0] + "#" + base]
    return [pick(), rf[0]]


def build_sample(case, d):
    """database + profile + BAM from the case seed; returns (yml, desc, build, prof, bam, planted, info, L, step)"""
    import gendb, simreads
    rng = random.Random(case["seed"])
    amb = case["stream"] == "ambiguous"
    if case["stream"] in ("injected-structures", "synthetic-scores"):
        case = dict(case, stream="noisy" if case.get("noisy") else "clean")
    yml, desc = gendb.write_db(d, rng, length=rng.randint(300, 900), n_alleles=rng.randint(4, 8),
                               deletion=(True if amb else rng.random() < 0.8), simulation_friendly=True, union=amb)
    build = rng.choice(["hg19", "hg38"])
    L = rng.choice([100, 150])
    step = rng.choice([4, 5])
    prof = simreads.make_profile(desc, yml, build, L, step, d, rng, kind=rng.choice(["yaml", "bam"]))
    alleles = plant(rng, desc)
    noise = None
    gs, ge = desc["builds"][build]["gene_span"]
    if amb:
        # fractional copy number (an extra copy at reduced depth) and/or allele combinations that explain the same evidence
        normal = [a for a, v in desc["alleles"].items() if v["kind"] == "normal"]
        if rng.random() < 0.75:
            alleles = [rng.choice(normal) for _ in range(3)]
            noise = {"skew": [(gs - L, ge, rng.choice([0.8, 0.85, 0.88, 0.9, 0.92]))], "drop_frac": 0.0}
        else:
            alleles = [rng.choice(normal) for _ in range(rng.choice([2, 2, 3]))]
            noise = {"drop_frac": rng.choice([0.0, 0.1])}
    elif case["stream"] != "clean":
        a = rng.randint(gs, ge - 40)
        noise = {"drop_frac": rng.choice([0.05, 0.15, 0.3]), "sub_rate": rng.choice([0.0, 0.001, 0.003]),
                 "lowq_frac": 0.02, "lowmapq_frac": 0.03, "softclip_frac": 0.05,
                 "skew": [(a - 100, a + rng.randint(60, 400), rng.choice([0.5, 0.7, 0.85]))]}
    bam = os.path.join(d, f"S{case['seed']}.bam")
    info = simreads.simulate(desc, build, alleles, None, L, step, bam, rng, noise=noise)
    return yml, desc, build, prof, bam, alleles, info, L, step


def chain_checks(gene, sol):
    """the three chain clauses on one reported MinorSolution; returns {clause: problem text}"""
    bad = {}
    cn = sol.major_solution.cn_solution
    dele = gene.deletion_allele()
    want = collections.Counter({k: v for k, v in cn.solution.items() if v and k != dele})
    have = collections.Counter(gene.alleles[sa.major].cn_config for sa in sol.solution)
    if want != have:
        bad["chain-structure"] = f"structure {dict(want)} vs allele configurations {dict(have)}"
    mj = collections.Counter()
    for k, v in sol.major_solution.solution.items():
        mj[k.major] += v
    mn = collections.Counter(sa.major for sa in sol.solution)
    probs = []
    if mj != mn:
        probs.append(f"majors {dict(mj)} vs minors' majors {dict(mn)}")
    for sa in sol.solution:
        if sa.minor not in gene.alleles[sa.major].minors:
            probs.append(f"minor {sa.minor} is not a sub-allele of {sa.major}")
        lost = [str(m) for m in sa.missing if m in gene.alleles[sa.major].func_muts]
        if lost:
            probs.append(f"{sa.minor} drops defining variants {lost} of its major allele")
    for m in sol.major_solution.added:
        if not any(m in sa.added for sa in sol.solution):
            probs.append(f"novel variant {m} of the major solution is on no allele")
    if probs:
        bad["chain-minor-refines-major"] = "; ".join(probs)
    dip = sol.get_diplotype()
    flat = [i for side in dip for i in side]
    n = len(sol.solution)
    real = sorted(i for i in flat if i >= 0)
    holes = sum(1 for i in flat if i < 0)
    if len(dip) != 2 or real != list(range(n)) or holes != (max(0, 2 - n) if dele else 0):
        bad["chain-diplotype"] = f"diplotype {dip} over {n} alleles"
    return bad


def run_case(case):
    """one case; a synthetic-scores case is expanded inside the worker into several score assignments over ONE harvest"""
    if case["stream"] == "synthetic-scores" and "score_seed" not in case:
        outs = []
        _HARVEST.clear()
        for j in range(case.get("repeats", 6)):
            c2 = dict(case, score_seed=j, gap=[0.0, 0.1, 0.3, 0.5, 2.0, 1.5][j % 6], mms=[1, 2, 3][j % 3])
            outs.append((c2, _run_case(c2)))
        _HARVEST.clear()
        return {"multi": outs}
    return _run_case(case)


_HARVEST = {}


def _run_case(case):
    common.quiet_aldy()
    from aldy.genotype import genotype
    from aldy.common import AldyException
    from aldy.gene import Gene
    import simreads
    t0 = time.time()
    with tempfile.TemporaryDirectory(dir=common.SCRATCH) as d:
        yml, desc, build, prof, bam, alleles, info, L, step = build_sample(case, d)
        out = {"planted": alleles, "build": build, "strand": desc["builds"][build]["strand"], "pseudogene": bool(desc["pseudogene"]),
               "L": L, "depth": L // step, "error": None}
        stubs = None
        if case["stream"] == "synthetic-scores":
            # pass 1: a real run (with competing structures injected and a wide gap) whose only purpose is to harvest candidate objects
            rec1 = _HARVEST.get("rec")
            if rec1 is None:
                with e2e.StageRecorder(None, inject=case.get("inject")) as rec1:
                    try:
                        genotype(yml, bam, output_file=None, solver="any", gap=1.0, max_minor_solutions=2, **simreads.genotype_kwargs(desc, build, prof))
                    except AldyException:
                        pass
                _HARVEST["rec"] = rec1
            if rec1.cn and rec1.solve_calls:
                stubs = e2e.ScoreStubs(rec1, random.Random(case["seed"] + 7 + 1000 * case.get("score_seed", 0)),
                                       designed=(case["gap"] if case.get("score_seed", 0) in (4, 5) and case["gap"] > 1.1 else False))
            else:
                out["early"] = True
                return out
        import contextlib
        with (stubs or contextlib.nullcontext()), e2e.StageRecorder(case["force_empty"], inject=None if stubs else case.get("inject")) as rec:
            try:
                res = genotype(yml, bam, output_file=None, solver="any", gap=case["gap"], max_minor_solutions=case["mms"],
                               **simreads.genotype_kwargs(desc, build, prof))
                final = list(res.values())[0]
            except AldyException as ex:
                out["error"] = str(ex).split("\n")[0]
                final = None
        if rec.cn is None:            # failed before the structure stage (coverage guards): nothing to select
            out["early"] = True
            return out
        # ---- flatten the recorded objects into ids
        cn_idx = {id(c): i for i, c in enumerate(rec.cn)}
        out["cn"] = [{"id": i, "name": c._solution_nice(), "score": rec.cn_scores[i]} for i, c in enumerate(rec.cn)]
        majors, by_dict = [], {}
        out["major_call_order"] = []
        for cn_sol, sols, raws in rec.major_calls:
            out["major_call_order"].append(cn_idx[id(cn_sol)])
            for s, raw in zip(sols, raws):
                j = len(majors)
                by_dict[id(s.solution)] = j
                majors.append({"id": j, "cn": cn_idx[id(cn_sol)], "name": s._solution_nice(), "raw": raw, "rank": -1, "minors": [],
                               "carried": None})
        minor_ids, by_list = [], {}
        out["minor_in"] = []
        if rec.minor_in is not None:
            by_obj = {}
            for m, sc in zip(rec.minor_in, rec.minor_in_scores):
                j = by_dict[id(m.solution)]
                majors[j]["carried"] = sc
                by_obj[id(m)] = j
                out["minor_in"].append(j)
            out["solve_order"] = []
            for r, (msol, sols, raws) in enumerate(rec.solve_calls):
                j = by_obj[id(msol)]
                majors[j]["rank"] = r
                out["solve_order"].append(j)
                for s, raw in zip(sols, raws):
                    q = len(minor_ids)
                    by_list[id(s.solution)] = q
                    minor_ids.append(q)
                    majors[j]["minors"].append({"id": q, "name": s._solution_nice(), "raw": raw})
            out["minor_out"] = [{"id": by_list[id(s.solution)], "carried": sc} for s, sc in zip(rec.minor_out, rec.minor_out_scores)]
        if case["force_empty"] == "minor":
            for m in majors:      # the stage as a whole was forced to return nothing
                m["minors"] = []
        out["majors"] = majors
        # structures the structure stage returned but the run never handed to the major stage: what would the major stage have said?
        # (outside the recorder: the real estimate_major, on the same Coverage object)
        out["unvisited"] = []
        called = {cn_idx[id(c)] for c, _, _ in rec.major_calls}
        if not case["force_empty"] and rec.gene is not None and rec.coverage is not None:
            import aldy.major
            for i, c in enumerate(rec.cn):
                if i not in called:
                    try:
                        ms = aldy.major.estimate_major(rec.gene, rec.coverage, c, "any")
                        out["unvisited"].append({"cn": i, "raw": [float(m.score) for m in ms], "names": [m._solution_nice() for m in ms]})
                    except Exception as ex:     # noqa
                        out["unvisited"].append({"cn": i, "raw": [], "names": [], "error": str(ex)[:80]})
        out["final"] = None
        if final is not None:
            out["final"] = [{"id": by_list[id(s.solution)], "name": s._solution_nice(), "score": float(s.score),
                             "diplotype": s.get_major_diplotype()} for s in final]
            gene = final[0].major_solution.cn_solution.gene if final else Gene(yml, genome=build)
            out["chain"] = [chain_checks(gene, s) for s in final]
        out["wall"] = round(time.time() - t0, 2)
        return out


# ----------------------------------------------------------------------------------------------------------------------
# property predicate in Python (independent of the Coq model)
# ----------------------------------------------------------------------------------------------------------------------
def predicate(case, r, K):
    """returns list of (clause, expected, observed)"""
    fails = []
    slack, prec = float(K["slack"]), float(K["prec"])
    gap = case["gap"]
    cns = {c["id"]: c for c in r["cn"]}
    majors = r["majors"]
    stage_empty = None
    if not r["cn"]:
        stage_empty = "cn"
    elif not majors:
        stage_empty = "major"
    elif r.get("minor_out") is not None and not r["minor_out"]:
        stage_empty = "minor"
    if stage_empty:
        if r["error"] is None or not r["error"].startswith(ERRORS[stage_empty]) or r["final"] is not None:
            fails.append(("empty-stage-error", f"AldyException {ERRORS[stage_empty]!r} and no genotype", {"error": r["error"], "final": r["final"]}))
        return fails
    if r["error"] is not None:
        fails.append(("empty-stage-error", "a genotype (every stage returned candidates)", {"error": r["error"]}))
        return fails
    min_cn = min(c["score"] for c in r["cn"])
    # carried major scores and the major filter
    carried = {m["id"]: m["raw"] + (cns[m["cn"]]["score"] - min_cn) for m in majors}
    best_major = min(carried.values())
    must = {j for j, s in carried.items() if s - best_major - gap < prec - TOL}
    may = {j for j, s in carried.items() if s - best_major - gap < prec + TOL}
    # every structure the structure stage returned takes part: a structure that was never handed to the major stage although one of its
    # major solutions (real estimate_major, computed after the run) lies within the gap of the best inherited major score is a
    # candidate the statement requires and the run lost
    for u in r.get("unvisited", []):
        inh = [x + (cns[u["cn"]]["score"] - min_cn) for x in u["raw"]]
        if inh and min(inh) - min(best_major, min(inh)) - gap < prec - TOL:
            fails.append(("selected-exact", {"stage": "major", "structure": cns[u["cn"]]["name"], "its best inherited major score": min(inh),
                                             "best inherited major score of the visited structures": best_major, "gap": gap},
                          "the structure was never handed to the major stage"))
    passed = set(r["minor_in"])
    if not (must <= passed <= may):
        fails.append(("selected-exact", {"stage": "major", "must": sorted(must), "may": sorted(may)}, sorted(passed)))
    for j in r["minor_in"]:
        if abs(majors[j]["carried"] - carried[j]) > TOL + 1e-9 * abs(carried[j]):
            fails.append(("carry", {"major": j, "score": carried[j]}, majors[j]["carried"]))
    sc = [majors[j]["carried"] for j in r["minor_in"]]
    if any(sc[i] >= sc[k] + prec for i in range(len(sc)) for k in range(i + 1, len(sc))):
        fails.append(("best-first", "major candidates non-decreasing up to SOLUTION_PRECISION", sc))
    # combined minor scores
    min_major = min(carried[j] for j in r["minor_in"])
    comb, owner = {}, {}
    for j in r["minor_in"]:
        m = majors[j]
        c = cns[m["cn"]]["score"]
        for mi in m["minors"]:
            comb[mi["id"]] = (mi["raw"] + (carried[j] - min_major)) * ((c + slack) / (min_cn + slack))
            owner[mi["id"]] = j
    best = min(comb.values())
    must = {q for q, s in comb.items() if s - best - gap < prec - TOL}
    may = {q for q, s in comb.items() if s - best - gap < prec + TOL}
    got = [f["id"] for f in r["final"]]
    if not (must <= set(got) <= may) or len(got) != len(set(got)):
        fails.append(("selected-exact", {"stage": "final", "must": sorted(must), "may": sorted(may)}, got))
    for f in r["final"]:
        if abs(f["score"] - comb[f["id"]]) > TOL + 1e-9 * abs(comb[f["id"]]):
            fails.append(("carry", {"minor": f["id"], "score": comb[f["id"]]}, f["score"]))
    sc = [f["score"] for f in r["final"]]
    if any(sc[i] >= sc[k] + prec for i in range(len(sc)) for k in range(i + 1, len(sc))):
        fails.append(("best-first", "reported scores non-decreasing up to SOLUTION_PRECISION", sc))
    if sc and sc[0] >= best + prec:
        fails.append(("best-first", f"first reported score within SOLUTION_PRECISION of the best {best}", sc[0]))
    for i, bad in enumerate(r.get("chain", [])):
        for clause, text in bad.items():
            fails.append((clause, "consistent chain", {"solution": r["final"][i]["name"], "problem": text}))
    return fails


# ----------------------------------------------------------------------------------------------------------------------
# Coq side
# ----------------------------------------------------------------------------------------------------------------------
def qx(x):
    return cq(Fraction(float(x)))


def term(case, r):
    def minor(mi):
        return f"{{| mi_id := {cz(mi['id'])}; mi_name := {cstr(mi['name'])}; mi_raw := {qx(mi['raw'])} |}}"

    def major(m):
        return (f"{{| ma_id := {cz(m['id'])}; ma_name := {cstr(m['name'])}; ma_raw := {qx(m['raw'])}; ma_rank := {cz(m['rank'])}; "
                f"ma_minors := {clist(m['minors'], minor)} |}}")

    def cn(c):
        ms = [m for m in r["majors"] if m["cn"] == c["id"]]
        return f"{{| cn_id := {cz(c['id'])}; cn_name := {cstr(c['name'])}; cn_score := {qx(c['score'])}; cn_majors := {clist(ms, major)} |}}"
    return f"o_run here {qx(case['gap'])} {clist(r['cn'], cn)}"


def decode(v):
    status, fin = v[0]
    dm = lambda x: {"cn": x[0], "major": x[1], "score": common.dq(x[2])}
    dn = lambda x: {"cn": x[0], "major": x[1], "id": x[2], "score": common.dq(x[3])}
    return {"status": status, "final": [dn(x) for x in fin], "sorted_cn": v[1], "majors": [dm(x) for x in v[2]],
            "passed": [dm(x) for x in v[3]], "minor_order": [dm(x) for x in v[4]], "minors": [dn(x) for x in v[5]],
            "min_cn": common.dq(v[6]), "min_major_all": common.dq(v[7]), "min_major": common.dq(v[8]), "min_minor": common.dq(v[9])}


def order_admissible(seq, scale):
    """seq: [(exact scale-free score as Fraction, name)] in the implementation's order; is it sorted by (int(scale*score), name)
    for SOME reading of every score within 1e-6 of its exact value?"""
    import math
    feas = None
    for x, name in seq:
        v = float(x) * scale
        opts = {math.trunc(v - 1e-6), math.trunc(v + 1e-6)}
        if feas is None:
            feas = {(k, name) for k in opts}
        else:
            feas = {(k, name) for k in opts if any(p <= (k, name) for p in feas)}
        if not feas:
            return False
    return True


def correspond(chk, case, r, m, K):
    """compare what genotype() did with Select.v's run on the same stage outputs"""
    gap, prec = Fraction(float(case["gap"])), K["prec"]
    err_code = {None: 0, ERRORS["cn"]: 1, ERRORS["major"]: 2, ERRORS["minor"]: 3}
    impl_status = 0 if r["error"] is None else next((v for k, v in err_code.items() if k and r["error"].startswith(k)), -1)
    if impl_status != m["status"]:
        # a borderline major filter can turn into a different emptiness only through forced cases; report
        chk.mismatch("select-status", case, m["status"], {"status": impl_status, "error": r["error"]})
        return
    if m["status"] == 1:
        return
    if r["major_call_order"] != m["sorted_cn"]:
        exact = {c["id"]: Fraction(float(c["score"])) for c in r["cn"]}
        names = {c["id"]: c["name"] for c in r["cn"]}
        if not (sorted(r["major_call_order"]) == sorted(m["sorted_cn"]) and
                order_admissible([(exact[i], names[i]) for i in r["major_call_order"]], K["scale"][0])):
            chk.mismatch("select-structure-order", case, m["sorted_cn"], r["major_call_order"])
    if m["status"] == 2:
        return
    # majors: carried scores, passed set and order
    mm = {x["major"]: x["score"] for x in m["majors"]}
    best = m["min_major_all"]
    border = {j for j, s in mm.items() if abs(float(s - best - gap - prec)) < TOL}
    model_passed = [x["major"] for x in m["passed"]]
    names = {x["id"]: x["name"] for x in r["majors"]}
    if model_passed != r["minor_in"]:
        if (set(model_passed) ^ set(r["minor_in"])) - border:
            chk.mismatch("select-major-filter", case, model_passed, r["minor_in"])
            return
        if set(model_passed) != set(r["minor_in"]):
            chk.count("correspondence", "borderline-major-filter-skipped")
            return                     # the model saw a different candidate set for the minor stage: not comparable further
        if not order_admissible([(mm[j], names[j]) for j in r["minor_in"]], K["scale"][1]):
            chk.mismatch("select-major-order", case, model_passed, r["minor_in"])
            return
    for j in r["minor_in"]:
        have = next(x["carried"] for x in r["majors"] if x["id"] == j)
        if abs(have - float(mm[j])) > TOL + 1e-9 * abs(have):
            chk.mismatch("select-major-carry", case, float(mm[j]), have)
    if [x["major"] for x in m["minor_order"]] != r["solve_order"] and set(model_passed) == set(r["minor_in"]):
        chk.mismatch("select-minor-stage-order", case, [x["major"] for x in m["minor_order"]], r["solve_order"])
    if m["status"] == 3:
        return
    mn = {x["id"]: x["score"] for x in m["minors"]}
    best = m["min_minor"]
    border = {q for q, s in mn.items() if abs(float(s - best - gap - prec)) < TOL}
    model_final = [x["id"] for x in m["final"]]
    impl_final = [f["id"] for f in r["final"]]
    fnames = {f["id"]: f["name"] for f in r["final"]}
    if model_final != impl_final:
        if (set(model_final) ^ set(impl_final)) - border:
            chk.mismatch("select-final", case, model_final, impl_final)
            return
        if not order_admissible([(mn[q], fnames[q]) for q in impl_final], K["scale"][2]):
            chk.mismatch("select-final-order", case, model_final, impl_final)
            return
        chk.count("correspondence", "final-equal-up-to-tolerance")
    else:
        chk.count("correspondence", "final-identical")
    for f in r["final"]:
        if f["id"] in mn and abs(f["score"] - float(mn[f["id"]])) > TOL + 1e-9 * abs(f["score"]):
            chk.mismatch("select-final-score", case, float(mn[f["id"]]), f["score"])


# ----------------------------------------------------------------------------------------------------------------------
def evaluate(chk, cases, jobs=12, timeout=120):
    K = e2e.consts_here()
    results = e2e.run_pool(run_case, cases, jobs=jobs, timeout=timeout)
    usable = []
    flat = []
    for case, r in zip(cases, results):
        if isinstance(r, dict) and "multi" in r:
            flat += list(r["multi"])
        else:
            flat.append((case, r))
    for case, r in flat:
        if r.get("timeout"):
            chk.count(case["stream"], "timeout")
            continue
        if r.get("crash"):
            # an exception other than AldyException inside genotype() or the harness
            chk.broken.append(("correspondence", "harness-crash", {"case": case, "trace": r["crash"]}))
            continue
        if r.get("early"):
            chk.count(case["stream"], "rejected-before-structure-stage")
            continue
        usable.append((case, r))
    model = []
    if chk.model_available() and usable:
        vals = common.coq_eval(IMPORTS, [term(c, r) for c, r in usable], shard=4)
        model = [decode(v) for v in vals]
    for k, (case, r) in enumerate(usable):
        n_cn, n_major = len(r["cn"]), len(r["majors"])
        n_minor = sum(len(m["minors"]) for m in r["majors"])
        competing = n_cn > 1 or n_major > 1 or n_minor > 1 or case["force_empty"] is not None
        canon = {"cn": [(c["name"], round(c["score"], 6)) for c in r["cn"]],
                 "majors": [(m["cn"], m["name"], round(m["raw"], 6), [(x["name"], round(x["raw"], 6)) for x in m["minors"]]) for m in r["majors"]],
                 "gap": case["gap"], "force": case["force_empty"]}
        chk.case(case["stream"], canon, nontrivial=competing,
                 sample={"case": case, "planted": r["planted"], "structures": [c["name"] for c in r["cn"]],
                         "majors": n_major, "minor_candidates": n_minor,
                         "reported": [f["diplotype"] for f in (r["final"] or [])], "error": r["error"]})
        chk.count(case["stream"], f"structures={min(n_cn, 3)}{'+' if n_cn >= 3 else ''}")
        chk.count(case["stream"], f"majors={'1' if n_major <= 1 else '2-4' if n_major <= 4 else '5+'}")
        chk.count(case["stream"], f"reported={len(r['final'] or [])}" if r["error"] is None else "error:" + r["error"][:30])
        if model:
            correspond(chk, case, r, model[k], K)
        for clause, expected, observed in predicate(case, r, K):
            desc = {"clause": clause, "stream": case["stream"], "gap": case["gap"], "mms": case["mms"], "force_empty": case["force_empty"],
                    "build": r["build"], "strand": r["strand"], "pseudogene": r["pseudogene"], "copies": len(r["planted"])}
            chk.fail(clause, desc, case, expected, observed)


def load_corpus():
    p = os.path.join(common.VERIF, "corpus", "C10.json")
    return json.load(open(p)) if os.path.exists(p) else []


def run(chk):
    chk.rule = ("a case is a seed from which a simulation-friendly database (both strands, with/without pseudogene, deletion and fusion "
                "alleles), a two-copy profile, a planted 2-4 copy sample, read noise (thinning, regional depth skew, substitutions, low "
                "qualities, soft clips), gap in {0,0.1,0.3} and max_minor_solutions in 1..3 are derived; it counts as non-trivial when at "
                "least two candidates compete at some stage (structures, majors or minors) or a stage is forced empty; distinct = "
                "distinct recorded stage outputs (names and scores)")
    chk.build()
    n, n_empty = (36, 3) if chk.tier == "quick" else (260, 18)
    cases = load_corpus() + gen_cases(chk.rng, n, n_empty)
    evaluate(chk, cases)
    chk.assumptions = ["the order in which minor.py processes the major candidates of one structure (natsorted str(solution)) is an "
                       "input of the model (ma_rank), not modelled",
                       "stage outputs are taken as recorded; the stages themselves are the subject of C02-C04",
                       "scores are compared at 1e-6 abs + 1e-9 rel; candidates within 1e-6 of a filter threshold may be in or out"]


def replay(chk, path):
    r = json.load(open(path))
    chk.build()
    evaluate(chk, [r["case"]], jobs=1, timeout=900)
    for f in chk.failures:
        print("still failing:", f["clause"], json.dumps(f["observed"], default=str)[:400], "expected", json.dumps(f["expected"], default=str)[:400])
    print("REPLAY", "FAILS" if chk.failures else "passes")
    return 1 if chk.failures else 0
