"""usage: manifest_add.py Cxx "<level text>" "<level note>" "<technique>" [design_ref]  — integrator tool"""
import json, sys
p = "/verif/MANIFEST.json"
m = json.load(open(p))
cid, text, note, tech = sys.argv[1:5]
ref = sys.argv[5] if len(sys.argv) > 5 else f"DESIGN.md section 4 / {cid} and section 8"
m["checks"] = [c for c in m["checks"] if c["property_id"] != cid]
m["checks"].append({
    "property_id": cid, "quick_cmd": f"bin/check {cid} --tier quick", "thorough_cmd": f"bin/check {cid} --tier thorough",
    "evidence_file": f"evidence/{cid}.json", "replay_cmd_template": f"bin/check {cid} --replay {{path}}", "engine": "coq-model",
    "level_claimed": {"category": "proof", "text": text, "design_ref": ref}, "level_note": note, "technique": tech})
m["checks"].sort(key=lambda c: c["property_id"])
for e in m["engines"]:
    e["serves_properties"] = [c["property_id"] for c in m["checks"]]
m["not_applicable"] = [x for x in m.get("not_applicable", []) if x["property_id"] != cid]
json.dump(m, open(p, "w"), indent=1)
print("checks:", [c["property_id"] for c in m["checks"]])
