"""C03 — gene-structure (copy number) calls are well-formed and optimal.

(a) structural tie : the LP solve_cn_model hands to OR-Tools (lprec.Recorder)  vs  CnModel.gen evaluated in Coq
(b) behavioural tie: solve_cn_model / estimate_cn results (configuration multisets + scores)  vs  CnSpec in Coq
(c) predicate      : evaluated on the implementation's output only.  Well-formedness is recomputed from the reported
                     structure alone; scores / optimality / gap / completeness against an exhaustive exact (Fraction)
                     evaluation of every canonical internal form written here independently of the Gallina model
                     (and cross-checked against CnSpec.best_table on the small genes)."""
import itertools, json, os, math
from collections import Counter
from fractions import Fraction as F
import common, lprec
from common import cz, cq, cqf, cstr, clist, cpair, cbool, copt

IMPORTS = ["Base", "Consts", "Lp", "CnModel", "CnSpec", "CnProofs", "Consts_here"]
TOL = 1e-6
GENES = {
    "TOY": "aldy.tests.resources/toy.yml",
    "CYP2A6": "aldy.resources.genes/cyp2a6.yml",
    "CYP2D6": "aldy.resources.genes/cyp2d6.yml",
    "GSTM1": "aldy.resources.genes/gstm1.yml",
    "G6PD": "aldy.resources.genes/g6pd.yml",
    "CYP2C19": "aldy.resources.genes/cyp2c19.yml",
}
_G = {}


def gene(name):
    if name not in _G:
        from aldy.gene import Gene
        from aldy.common import script_path
        _G[name] = Gene(script_path(GENES[name]))
    return _G[name]


def kind_name(k):
    return {"DEFAULT": "CDefault", "LEFT_FUSION": "CLeft", "RIGHT_FUSION": "CRight", "DELETION": "CDeletion",
            "CUSTOM": "CCustom"}[k.name]


# ------------------------------------------------------------------ Coq text of aldy's own Gene facts
def c_config(name, cfg):
    cn = clist(cfg.cn, lambda m: clist(m.items(), lambda kv: cpair(cstr(kv[0]), cz(kv[1]))))
    return f"{{| cf_name := {cstr(name)}; cf_kind := {kind_name(cfg.kind)}; cf_cn := {cn} |}}"


def preamble(gnames):
    out = ["Definition pickl (ns : list str) (l : list config) : list config := "
           "flat_map (fun n => filter (fun c => str_eqb (cf_name c) n) l) ns.",
           "Definition mkp (a b c d e f g h : Q) : cn_params := {| p_cn_max := a; p_cn_diff := b; p_cn_fit := c; p_cn_pce := d; "
           "p_cn_pars := e; p_fus_left := f; p_fus_right := g; p_gap := h |}.",
           "Definition mki gc ng u cf mx cov fu pa : cn_inst := {| i_gene_configs := gc; i_ngenes := ng; i_unique := u; "
           "i_configs := cf; i_max_cn := mx; i_cov := cov; i_fusion := fu; i_par := pa |}."]
    for gn in gnames:
        g = gene(gn)
        out.append(f"Definition G_{gn} : list config := " + clist(g.cn_configs.items(), lambda kv: c_config(*kv)) + ".")
        out.append(f"Definition U_{gn} : list str := " + clist(g.unique_regions, cstr) + ".")
    return "\n".join(out)


PAR_KEYS = ["cn_max", "cn_diff", "cn_fit", "cn_pce_penalty", "cn_parsimony", "cn_fusion_left", "cn_fusion_right", "gap"]


def fus_q(v):
    """fusion support of a solve case: a short decimal, or an exact fraction 'a/b' (derived from an estimate case)"""
    return F(v) if isinstance(v, str) else F(repr(float(v)))


def c_params(par):
    return "(mkp " + " ".join(cq(F(repr(par[k]))) for k in PAR_KEYS) + ")"


def c_inst(case):
    gn = case["gene"]
    g = gene(gn)
    cov = clist(case["cov"], lambda rc: cpair(cstr(rc[0]), cpair(cqf(rc[1]), cqf(rc[2]))))
    fus = "None" if case["fusion"] is None else "(Some " + clist(case["fusion"], lambda kv: cpair(cstr(kv[0]), cq(fus_q(kv[1])))) + ")"
    return (f"(mki G_{gn} {len(g.regions)} U_{gn} (pickl {clist(case['configs'], cstr)} G_{gn}) {cz(case['max_cn'])} {cov} {fus} "
            f"{c_params(case['par'])})")


# ------------------------------------------------------------------ implementation adapters
def make_profile(par, **kw):
    from aldy.profile import Profile
    p = Profile("verif", **kw)
    for k in PAR_KEYS:
        setattr(p, k, par[k])
    return p


def default_par():
    from aldy.profile import Profile
    p = Profile("verif")
    return {k: getattr(p, k) for k in PAR_KEYS}


def run_solve(case, record):
    """-> (('ok', [(sorted names, score)]) | ('raise', type), snapshot or None)"""
    from aldy.cn import solve_cn_model
    g = gene(case["gene"])
    prof = make_profile(case["par"])
    configs = {n: g.cn_configs[n] for n in case["configs"]}
    cov = {r: (a, b) for r, a, b in case["cov"]}
    fus = None if case["fusion"] is None else {k: float(fus_q(v)) for k, v in case["fusion"]}
    snap = None
    if case.get("history"):
        # an earlier call in the same process, on the SAME dictionary of configurations, with a long-read fusion-support table: the call
        # that is judged (no table) must see every configuration the caller supplied
        try:
            solve_cn_model(g, prof, configs, case["max_cn"], cov, "any", None, {k: float(fus_q(v)) for k, v in case["history"]["fusion"]})
        except Exception:
            pass
    try:
        if record:
            with lprec.Recorder() as rec:
                sols = solve_cn_model(g, prof, configs, case["max_cn"], cov, "any", None, fus)
            snap = rec.models[0] if rec.models else None
        else:
            sols = solve_cn_model(g, prof, configs, case["max_cn"], cov, "any", None, fus)
    except Exception as e:  # the modelled domain excludes these (inst_ok); reported as a mismatch by the caller
        return ("raise", type(e).__name__ + ": " + str(e)[:200]), snap
    return ("ok", [(sorted(s.solution.elements()), float(s.score)) for s in sols]), snap


# ------------------------------------------------------------------ exact exhaustive evaluation (independent of the Gallina model)
def exact_forms(case):
    """every canonical internal form of the instance with its exact documented objective:
    -> list of (objective Fraction, frozenset of slots), deletion allele, gene object"""
    from aldy.gene import CNConfigType
    g = gene(case["gene"])
    par = {k: F(repr(case["par"][k])) for k in PAR_KEYS}
    max_cn = case["max_cn"]
    dele = g.deletion_allele()
    fus = None if case["fusion"] is None else {k: fus_q(v) for k, v in case["fusion"]}
    cfgs = {}
    for n in case["configs"]:
        if not fus or n == "1" or (dele and n == dele) or (n in fus and fus[n] >= F(1, 2 * max_cn)):
            cfgs[n] = g.cn_configs[n]
    slots = {}
    for n, c in cfgs.items():
        full = [dict(x) for x in c.cn]
        slots[(n, 0)] = full
        slots[(n, -1)] = full
        if c.kind == CNConfigType.DEFAULT:
            weak = [dict(full[0])] + [{r: v - 1 for r, v in x.items()} for x in full[1:]]
            for i in range(1, max_cn):
                slots[(n, i)] = weak
    if len(g.regions) > 1 and dele:
        for i in range(max_cn):
            slots[("PSEUDO", i + 1)] = [dict(x) for x in cfgs[dele].cn]
    U = len(g.unique_regions)
    PARS = F(10) / U * F(3, 4)
    pen = {}
    for (n, _) in slots:
        pen[n] = PARS
    for n, c in g.cn_configs.items():
        if n in pen and c.kind == CNConfigType.RIGHT_FUSION:
            pen[n] += PARS * par["cn_fusion_right"]
        if n in pen and c.kind == CNConfigType.LEFT_FUSION:
            pen[n] += PARS * par["cn_fusion_left"]
    regs = [(r, F(repr(a)), F(repr(b))) for r, a, b in case["cov"] if r in g.unique_regions]
    # per slot, per region: gene copies and pseudogene copies
    gco = {sl: [cn[0].get(r, 0) for r, _, _ in regs] for sl, cn in slots.items()}
    pco = {sl: [(cn[1].get(r, 0) if len(cn) > 1 else 0) for r, _, _ in regs] for sl, cn in slots.items()}
    wdiff = [par["cn_diff"] / U * (par["cn_pce_penalty"] if r == "pce" else 1) for r, _, _ in regs]
    wfit = par["cn_fit"] / U
    cmax = par["cn_max"]

    def objective(S):
        o = F(0)
        for k, (r, c0, c1) in enumerate(regs):
            eg = sum(gco[sl][k] for sl in S)
            ep = sum(pco[sl][k] for sl in S)
            errg = c0 - eg
            err = (c0 - c1 - (eg - ep)) / (max(c0, c1) + 1)
            if abs(errg) > cmax or abs(err) > cmax:
                return None
            o += wdiff[k] * abs(err) + wfit * abs(errg)
        return o + par["cn_parsimony"] * sum(pen[n] for n, _ in S)

    def feasible(S):
        if sum(1 for (_, i) in S if i <= 0) != 2:
            return False
        if dele and (dele, -1) in S and any(n != dele for n, _ in S):
            return False
        for (n, i) in S:
            if i == -1 and (n, 0) not in S:
                return False
            if i > 1 and (n, i - 1) not in S:
                return False
        return True

    keys = list(slots)
    comp = [k for k in keys if k[1] <= 0]
    defaults = [n for n, c in cfgs.items() if c.kind == CNConfigType.DEFAULT]
    extra_choices = [[[(n, i) for i in range(1, e + 1)] for e in range(0, max_cn)] for n in defaults]
    pseudo = sorted([k for k in keys if k[0] == "PSEUDO"], key=lambda k: k[1])
    out = []
    for c2 in itertools.combinations(comp, 2):
        for ex in itertools.product(*extra_choices):
            exs = [x for e in ex for x in e]
            for p in range(0, len(pseudo) + 1):
                S = frozenset(c2) | frozenset(exs) | frozenset(pseudo[:p])
                if feasible(S):
                    o = objective(S)
                    if o is not None:
                        out.append((o, S))
    return out, dele, g


def fold(S, dele):
    return tuple(sorted(n for n, _ in S if n != dele and n != "PSEUDO"))


def exact_table(case):
    forms, dele, g = exact_forms(case)
    t = {}
    for o, S in forms:
        k = fold(S, dele)
        if k not in t or o < t[k]:
            t[k] = o
    return t, forms, dele


def wellformed(case, names):
    """clause 'wellformed', from the reported structure and the gene's configuration kinds alone"""
    from aldy.gene import CNConfigType
    g = gene(case["gene"])
    cnt = Counter(names)
    if any(n not in g.cn_configs for n in cnt):
        return False, "unknown configuration name"
    kinds = {n: g.cn_configs[n].kind for n in cnt}
    D = sum(v for n, v in cnt.items() if kinds[n] == CNConfigType.DEFAULT)
    nondef = {n: v for n, v in cnt.items() if kinds[n] != CNConfigType.DEFAULT}
    if any(v > 2 for v in nondef.values()):
        return False, "a fusion/deletion configuration more than twice"
    Fn = sum(nondef.values())
    explicit_del = sum(v for n, v in nondef.items() if kinds[n] == CNConfigType.DELETION)
    has_del = g.deletion_allele() is not None
    for dc in range(0, min(D, 2) + 1):           # default copies that are complete haplotypes
        for di in range(0, (2 if has_del else 0) + 1):   # implicit whole-gene deletions
            if Fn + dc + di != 2:
                continue
            if D - dc > case["max_cn"] - 1:
                continue
            if explicit_del + di == 2 and (D > 0 or Fn - explicit_del > 0):
                continue                         # a double deletion combined with something else
            return True, ""
    return False, "not two complete haplotype configurations plus default extras"


def close(a, b):
    return abs(a - b) <= TOL + 1e-9 * max(abs(a), abs(b))


def predicate(chk, case, res, desc, snap=None):
    """property clauses on the implementation's result `res` = [(sorted names, score)]; `snap` = the recorded LP of this call (when a
    clause about scores fails, the same LP is solved by an independent solver: desc['cbc_suboptimal'] tells whether CBC itself
    answered 'optimal' with a non-optimal point on it)"""
    fails0 = len(chk.failures)
    table, forms, dele = exact_table(case)
    gap = F(repr(case["par"]["gap"]))
    seen = set()

    def cut_away(o, S):
        """could the exclusion cuts of solutions() have removed this form?  (it strictly contains a feasible form that scores no worse,
        which is yielded first and whose cut excludes every superset)"""
        return any(S2 < S and float(o2) <= float(o) + TOL for o2, S2 in forms)

    def by_superset_cuts(k, reported_score):
        """every explanation of structure k that scores below `reported_score` (None: below the gap bound) is removed by a superset cut,
        and (for a reported structure) the reported score is the objective of one of its other explanations"""
        mine = [(o, S) for o, S in forms if fold(S, dele) == k]
        limit = reported_score if reported_score is not None else float((1 + gap) * min(table.values())) + 1e-5
        better = [(o, S) for o, S in mine if float(o) < limit - 2 * TOL]
        if not better or not all(cut_away(o, S) for o, S in better):
            return False
        return reported_score is None or any(close(reported_score, float(o)) for o, _ in mine)

    for names, score in res:
        ok, why = wellformed(case, names)
        if not ok:
            chk.fail("wellformed", desc, case, why, res)
        k = tuple(names)
        if k in seen:
            chk.fail("no-repeat", desc, case, "each structure once", res)
        seen.add(k)
        if k not in table:
            chk.fail("score", desc, case, f"structure {k} has no feasible explanation", res)
        elif not close(score, float(table[k])):
            chk.fail("score", dict(desc, superset_cut=bool(gap > 0 and score > float(table[k]) and by_superset_cuts(k, score))), case,
                     {"structure": k, "best_explanation": float(table[k])}, res)
    if not table:
        if res:
            chk.fail("optimal", desc, case, "no admissible structure exists", res)
        _mark_solver_faults(chk, fails0, snap)
        return table
    best = min(table.values())
    if not res:
        chk.fail("optimal", desc, case, {"best_admissible": float(best), "reported": "nothing"}, res)
        _mark_solver_faults(chk, fails0, snap)
        return table
    rbest = min(s for _, s in res)
    if not close(rbest, float(best)):
        chk.fail("optimal", desc, case, {"best_admissible": float(best)}, res)
    if not close(res[0][1], rbest):
        chk.fail("optimal", desc, case, "best structure reported first", res)
    ub = float((1 + gap) * best) + 1e-5
    for names, score in res:
        if score > ub + TOL:
            chk.fail("within-gap", desc, case, {"bound": ub}, res)
    rep = [(Counter(n), s) for n, s in res]
    for k, t in table.items():
        if float(t) < ub - 2 * TOL and k not in seen:
            ck = Counter(k)
            if not any(all(ck[n] >= v for n, v in r.items()) and s <= float(t) + TOL for r, s in rep):
                chk.fail("complete", dict(desc, superset_cut=bool(gap > 0 and by_superset_cuts(k, None))), case,
                         {"missing": k, "objective": float(t)}, res)
    _mark_solver_faults(chk, fails0, snap)
    return table


def _mark_solver_faults(chk, start, snap):
    new = [f for f in chk.failures[start:] if f["clause"] in ("score", "optimal", "complete", "within-gap")]
    if not new:
        return
    faults = snap.solver_faults() if snap is not None else []
    for f in new:
        f["desc"] = dict(f["desc"], cbc_suboptimal=bool(faults))
        if faults:
            f["observed"] = {"reported": f["observed"], "cbc_vs_independent_solver (iteration, CBC, SCIP)": [list(map(str, x)) for x in faults[:4]]}


# ------------------------------------------------------------------ structural tie
def model_canon(lpo):
    vars_, rows, obj, const = lpo
    vs = {}
    for k, kd in vars_:
        key = tuple(k)
        if kd[0] == 0:
            vs[key] = ("B", F(0), F(1))
        elif kd[0] == 1:
            vs[key] = ("I", common.dq(kd[1]), common.dq(kd[2]))
        else:
            vs[key] = ("C", common.dopt(kd[1], common.dq), common.dopt(kd[2], common.dq))
    rs = set()
    for lin, rel, rhs in rows:
        coefs = {}
        for q, k in lin:
            coefs[tuple(k)] = coefs.get(tuple(k), F(0)) + common.dq(q)
        coefs = {k: v for k, v in coefs.items() if v != 0}
        b = common.dq(rhs)
        lb, ub = (None, b) if rel == 0 else ((b, None) if rel == 1 else (b, b))
        rs |= lprec.canon_rows(coefs, lb, ub)
    ob = {}
    for q, k in obj:
        ob[tuple(k)] = ob.get(tuple(k), F(0)) + common.dq(q)
    return vs, sorted(rs, key=repr), tuple(sorted((k, v) for k, v in ob.items() if v != 0)), common.dq(const)


def key_name(key):
    """role key of the model -> the name aldy gives the variable (through aldy's own escape_name)"""
    from aldy.lpinterface import escape_name
    dec = lambda t: "".join(chr(c) for c in t)
    if key[0] == 0:
        return escape_name(f"CN_{dec(key[2:])}_{key[1]}")
    if key[0] == 1:
        return escape_name("E_" + dec(key[1:]))
    if key[0] == 2:
        return escape_name("EG_" + dec(key[1:]))
    if key[0] == -1:
        return escape_name("ABS_" + key_name(key[1:]))
    return "?"


def feq(a, b):
    if a is None or b is None:
        return a is b
    return abs(float(a) - float(b)) <= 1e-9 * max(1.0, abs(float(a)), abs(float(b)))


def rows_match(ra, rb):
    """canonical rows equal up to 1e-9 relative on coefficients"""
    if len(ra) != len(rb):
        return False
    idx = {}
    for terms, rel, rhs in rb:
        idx.setdefault((tuple(k for k, _ in terms), rel), []).append((terms, rhs))
    for terms, rel, rhs in ra:
        cands = idx.get((tuple(k for k, _ in terms), rel), [])
        hit = None
        for j, (t2, r2) in enumerate(cands):
            if feq(rhs, r2) and all(feq(c, c2) for (_, c), (_, c2) in zip(terms, t2)):
                hit = j
                break
        if hit is None:
            return False
        cands.pop(hit)
    return True


def structural_diff(snap, lpo):
    """None if the recorded LP and CnModel.gen have the same canonical form, else a short description"""
    mv, mr, mo, mc = model_canon(lpo)
    names = {}
    for k in mv:
        n = key_name(k)
        if n in names:
            return f"two roles with one variable name {n}"
        names[n] = k
    iv, ir, io, ic = snap.canonical(lambda n: names.get(n, ("?", n)))
    if set(iv) != set(mv):
        return {"variables only in implementation": sorted(map(str, set(iv) - set(mv)))[:5],
                "variables only in model": sorted(map(str, set(mv) - set(iv)))[:5]}
    for k in mv:
        a, b = iv[k], mv[k]
        if a[0] != b[0] or not feq(a[1], b[1]) or not feq(a[2], b[2]):
            return {"variable": str(k), "implementation": str(a), "model": str(b)}
    if not snap.minimize:
        return "objective sense"
    if not rows_match(ir, mr):
        only_i = [r for r in ir if not any(rows_match([r], [x]) for x in mr)]
        only_m = [r for r in mr if not any(rows_match([r], [x]) for x in ir)]
        return {"rows only in implementation": [str(r)[:300] for r in only_i[:3]], "rows only in model": [str(r)[:300] for r in only_m[:3]],
                "n_impl": len(ir), "n_model": len(mr)}
    if len(io) != len(mo) or any(a[0] != b[0] or not feq(a[1], b[1]) for a, b in zip(sorted(io, key=repr), sorted(mo, key=repr))):
        return {"objective implementation": str(io)[:400], "objective model": str(mo)[:400]}
    if not feq(ic, mc):
        return "objective constant"
    return None


# ------------------------------------------------------------------ generators
def gen_solve_case(rng, stream=None):
    from aldy.gene import CNConfigType
    gn = rng.choices(["TOY", "GSTM1", "CYP2A6", "CYP2D6"], [12, 3, 2, 1.5])[0] if stream is None else stream
    g = gene(gn)
    names = list(g.cn_configs)
    dele = g.deletion_allele()
    default = [n for n in names if g.cn_configs[n].kind == CNConfigType.DEFAULT][0]
    max_cn = rng.choice([3, 4, 5, 6])
    has_p = len(g.regions) > 1
    # planted structure of 0-5 configurations
    k = rng.randint(0, 5)
    mode = rng.choice(["valid", "valid", "raw"])
    g0 = {r: 0 for r in g.regions[0]}
    g1 = {r: 0 for r in g.regions[0]}
    planted = []
    if mode == "valid" and k >= 2:
        comp = [rng.choice(names) for _ in range(2)]
        planted = comp + [default] * (k - 2)
        for j, c in enumerate(planted):
            for r in g0:
                g0[r] += g.cn_configs[c].cn[0][r]
                if has_p:
                    g1[r] += g.cn_configs[c].cn[1][r] - (1 if j >= 2 else 0)
    else:
        planted = [rng.choice(names) for _ in range(k)]
        for c in planted:
            for r in g0:
                g0[r] += g.cn_configs[c].cn[0][r]
                if has_p:
                    g1[r] += g.cn_configs[c].cn[1][r]
    if has_p and rng.random() < 0.25:
        # evidence no combination of configurations produces exactly: whole extra (or missing) copies of the pseudogene only, e.g. a
        # double deletion of the gene next to 3-4 pseudogene copies: the exclusivity / prefix rows decide what may be combined
        shift = rng.choice([1, 2, 2, -1])
        for r in g1:
            g1[r] += shift
    noise = rng.choice([0.5, 0.5, 0.3, 0.1, 0.0])
    regs = list(g.unique_regions)
    if rng.random() < 0.1:
        rng.shuffle(regs)
    if rng.random() < 0.1:
        extra = [r for r in g.regions[0] if r not in g.unique_regions]
        if extra:
            regs.insert(rng.randint(0, len(regs)), rng.choice(extra))
    cov = []
    for r in regs:
        a = max(0.0, round(g0[r] + rng.uniform(-noise, noise), 2))
        b = max(0.0, round(max(0, g1[r]) + rng.uniform(-noise, noise), 2)) if (has_p or rng.random() < 0.05) else 0.0
        cov.append([r, a, b])
    par = default_par()
    par["gap"] = rng.choice([0.0, 0.0, 0.1, 0.3])
    if rng.random() < 0.15:
        par["cn_max"] = rng.choice([1, 1, 2, 3])
    if rng.random() < 0.15:
        par["cn_diff"] = rng.choice([1.0, 5.0, 20.0])
        par["cn_fit"] = rng.choice([0.5, 2.0, 5.0])
        par["cn_parsimony"] = rng.choice([0.1, 0.25, 1.0])
        par["cn_pce_penalty"] = rng.choice([1.0, 3.0])
        par["cn_fusion_left"] = rng.choice([0.0, 0.25, 1.0])
        par["cn_fusion_right"] = rng.choice([0.0, 0.5, 1.0])
    configs = list(names)
    if rng.random() < 0.2:
        configs = [n for n in names if n in (default, dele) or rng.random() < 0.6]
    if rng.random() < 0.05:
        rng.shuffle(configs)
    fusion = None
    fus_names = [n for n in names if g.cn_configs[n].kind in (CNConfigType.LEFT_FUSION, CNConfigType.RIGHT_FUSION)]
    if fus_names and rng.random() < 0.3:
        fusion = [[n, rng.choice([0.0, 0.05, 0.08, 0.1, 0.13, 0.17, 0.2, 0.5, 1.0])] for n in fus_names if rng.random() < 0.7]
        if rng.random() < 0.1:
            fusion = []
    return {"kind": "solve", "gene": gn, "planted": planted, "max_cn": max_cn, "cov": cov, "par": par, "configs": configs,
            "fusion": fusion}


def gen_estimate_case(rng):
    """estimate_cn through its three branches"""
    from aldy.gene import CNConfigType
    r = rng.random()
    par = default_par()
    if r < 0.3:      # user-supplied list, with and without unknown names
        gn = rng.choice(["TOY", "CYP2D6", "CYP2A6", "GSTM1", "G6PD"])
        g = gene(gn)
        names = list(g.cn_configs)
        user = [rng.choice(names) for _ in range(rng.randint(1, 5))]
        if rng.random() < 0.4:
            user.insert(rng.randint(0, len(user)), rng.choice(["999", "x", "1A", "", "PSEUDO", " 1", "01", "5x"]))
        return {"kind": "estimate", "branch": "user", "gene": gn, "user": user, "male": rng.random() < 0.5, "do_cn": None, "par": par}
    if r < 0.55:     # no copy-number calling: genes without structural alleles, exome-style switch-off, male X-linked
        gn = rng.choice(["G6PD", "G6PD", "CYP2C19", "TOY", "CYP2D6"])
        do_cn = None if gn in ("G6PD", "CYP2C19") else False     # genotype.py sets gene.do_copy_number = False for exome profiles
        return {"kind": "estimate", "branch": "default", "gene": gn, "user": [], "male": rng.random() < 0.5, "do_cn": do_cn, "par": par}
    # coverage route
    base = gen_solve_case(rng, rng.choice(["TOY", "TOY", "TOY", "GSTM1", "CYP2A6"]))
    g = gene(base["gene"])
    base["cov"] = [rc for rc in base["cov"] if rc[0] in g.unique_regions]
    have = {rc[0] for rc in base["cov"]}
    regcov = []
    for gi, gr in enumerate(g.regions):
        m = []
        for reg in gr:
            hit = [rc for rc in base["cov"] if rc[0] == reg]
            if hit:
                v = hit[0][1 + gi]
            else:
                v = round(rng.uniform(0, 3.5), 2)
            m.append([reg, v])
        regcov.append(m)
    if rng.random() < 0.12:    # low depth
        sc = rng.choice([0.0, 0.05, 0.1, 0.2])
        regcov = [[[reg, round(v * sc, 2)] for reg, v in m] for m in regcov]
    # mutation support for _filter_configs: (coverage, total) per functional mutation of the alleles of each configuration
    muts = {}
    for an in g.cn_configs:
        if an not in g.alleles:
            continue
        for a in g.cn_configs[an].alleles:
            for m in g.alleles[a].func_muts:
                if (m.pos, m.op) not in muts:
                    tot = rng.choice([0, 10, 20, 40])
                    c = 0 if tot == 0 else rng.choice([0, 0, 1, 2, tot // 10, tot // 4, tot // 2, tot])
                    muts[(m.pos, m.op)] = [c, tot]
    fusion = []
    fus_names = [n for n in g.cn_configs if g.cn_configs[n].kind in (CNConfigType.LEFT_FUSION, CNConfigType.RIGHT_FUSION)]
    if fus_names and rng.random() < 0.3:
        fusion = [[n, rng.choice([0, 1, 2, 5, 10]), rng.choice([0, 10, 20, 60])] for n in fus_names if rng.random() < 0.8]
    thr = rng.choice([0.5, 0.5, 0.2])
    return {"kind": "estimate", "branch": "coverage", "gene": base["gene"], "user": [], "male": False, "do_cn": None,
            "par": base["par"], "regcov": regcov, "muts": [[p, o, c, t] for (p, o), (c, t) in muts.items()], "fusion": fusion,
            "threshold": thr, "min_coverage": rng.choice([2.0, 2.0, 5.0])}


class _SamStub:
    def __init__(self, fc):
        self._fusion_counter = fc
        self.name = "verif"


def build_coverage(case, prof):
    from aldy.coverage import Coverage
    g = gene(case["gene"])
    cov = {}
    for p, o, c, t in case.get("muts", []):
        d = cov.setdefault(p, {})
        if c:
            d[o] = [(60, 40)] * c
        if t - c > 0:
            d["_"] = d.get("_", []) + [(60, 40)] * (t - c)
    cv = Coverage(g, prof, _SamStub({n: [a, b] for n, a, b in case.get("fusion", [])}), cov, None, {})
    cv._region_coverage = {(gi, r): v for gi, m in enumerate(case["regcov"]) for r, v in m}
    return cv


def run_estimate(case):
    from aldy.cn import estimate_cn
    from aldy.common import AldyException
    import copy
    g = gene(case["gene"])
    if case["do_cn"] is not None:
        g = copy.copy(g)
        g.do_copy_number = case["do_cn"]
    kw = {"male": case["male"]}
    if case["user"]:
        kw["cn_solution"] = list(case["user"])
    prof = make_profile(case["par"], **kw)
    cv = None
    if case["branch"] == "coverage":
        prof.threshold = case["threshold"]
        prof.min_coverage = case["min_coverage"]
        cv = build_coverage(case, prof)
    try:
        sols = estimate_cn(g, prof, cv, "any")
    except AldyException as e:
        msg = str(e)
        if "unknown copy number configuration" in msg:
            return ("unknown", msg.split("configuration ")[1].split(". Please")[0])
        if "too low for copy number calling" in msg:
            return ("lowcov",)
        return ("raise", msg[:200])
    except Exception as e:
        return ("raise", type(e).__name__ + ": " + str(e)[:200])
    return ("ok", [(sorted(s.solution.elements()), float(s.score)) for s in sols])


def est_filter_facts(case):
    """what _filter_configs looks at, read through aldy's own accessors on the Coverage object the case builds"""
    g = gene(case["gene"])
    prof = make_profile(case["par"])
    cv = build_coverage(case, prof)
    from aldy.gene import Mutation
    out = []
    for an in g.cn_configs:
        if an not in g.alleles:
            continue
        als = []
        for a in sorted(g.cn_configs[an].alleles):
            als.append([[cv.coverage(m), cv.total(m)] for m in sorted(g.alleles[a].func_muts)])
        out.append([an, als])
    return out


def c_est(case):
    g = gene(case["gene"])
    gn = case["gene"]
    do_cn = g.do_copy_number if case["do_cn"] is None else case["do_cn"]
    if case["branch"] == "coverage":
        regcov = clist(case["regcov"], lambda m: clist(m, lambda rv: cpair(cstr(rv[0]), cqf(rv[1]))))
        als = clist(est_filter_facts(case), lambda e: cpair(cstr(e[0]), clist(e[1], lambda ms: clist(ms, lambda ct: cpair(cq(F(ct[0])), cq(F(ct[1])))))))
        fus = clist(case["fusion"], lambda e: cpair(cstr(e[0]), cpair(cq(F(e[1])), cq(F(e[2])))))
        thr, minc = cqf(case["threshold"]), cqf(case["min_coverage"])
    else:
        regcov, als, fus, thr, minc = "[]", "[]", "[]", "(1#2)%Q", "(2#1)%Q"
    return (f"{{| e_user := {clist(case['user'], cstr)}; e_do_cn := {cbool(do_cn)}; e_male := {cbool(case['male'])}; "
            f"e_chr := {cstr(g.chr)}; e_gene_configs := G_{gn}; e_ngenes := {len(g.regions)}; e_unique := U_{gn}; "
            f"e_regcov := {regcov}; e_alleles := {als}; e_threshold := {thr}; e_min_coverage := {minc}; e_fusion := {fus}; "
            f"e_par := {c_params(case['par'])} |}}")


def est_as_solve_case(case):
    """the solve instance estimate_cn derives on the coverage route (for the predicate), computed from aldy's own helpers"""
    from aldy.cn import _filter_configs
    g = gene(case["gene"])
    prof = make_profile(case["par"])
    prof.threshold = case["threshold"]
    prof.min_coverage = case["min_coverage"]
    cv = build_coverage(case, prof)
    configs = list(_filter_configs(g, cv))
    mx = 1 + max(math.ceil(v) for m in case["regcov"] for _, v in m)
    rc = {(gi, r): v for gi, m in enumerate(case["regcov"]) for r, v in m}
    cov = [[r, rc[0, r], rc[1, r] if len(g.regions) > 1 else 0.0] for r in g.unique_regions]
    fus = None
    if case["fusion"]:
        # the read-count ratio as an exact fraction "a/b": the code computes a / b in doubles and compares it with 1 / (2 * max_cn)
        # in doubles - for small integers the same verdict as the exact comparison, which a decimal rendering of a / b is not
        # (5/60 printed as 0.08333333333333333 is below 1/12)
        fus = [[n, f"{a}/{b}" if b else 0.0] for n, a, b in case["fusion"]]
    return {"kind": "solve", "gene": case["gene"], "max_cn": mx, "cov": cov, "par": case["par"], "configs": configs, "fusion": fus}


# ------------------------------------------------------------------ decoding
def d_sols(v):
    return [(sorted(common.dstr(n) for n in names), common.dq(q)) for names, q in v]


def d_res(v):
    if v[0] == 0:
        return ("ok", d_sols(v[1]))
    if v[0] == 1:
        return ("unknown", common.dstr(v[1]))
    if v[0] == 2:
        return ("lowcov",)
    return ("other",)


def sols_equal(impl, model):
    a = sorted((tuple(n), s) for n, s in impl)
    b = sorted((tuple(n), float(s)) for n, s in model)
    return len(a) == len(b) and all(x[0] == y[0] and close(x[1], y[1]) for x, y in zip(a, b))


def desc_of(case):
    return {"gene": case["gene"], "kind": case["kind"], "branch": case.get("branch", ""), "gap": case["par"]["gap"],
            "fusion_table": bool(case.get("fusion"))}


# ------------------------------------------------------------------ evaluation
def evaluate(chk, cases, n_struct_big=12, n_table=60):
    import threading
    solve_cases = [c for c in cases if c["kind"] == "solve"]
    est_cases = [c for c in cases if c["kind"] == "estimate"]
    gnames = sorted({c["gene"] for c in cases})
    pre = preamble(gnames)
    tol = cq(F(2, 10 ** 6))
    SMALL = ("TOY", "GSTM1")
    # ---- terms for the model (evaluated inside Coq in a background thread while the implementation runs)
    terms, flags = {}, []
    big = 0
    ntab = 0
    for k, c in enumerate(solve_cases):
        small = c["gene"] in SMALL
        in_coq = small or (big < n_struct_big and (c["max_cn"] <= 4 or c["gene"] != "CYP2D6"))
        if in_coq and not small:
            big += 1
        want_tab = small and ntab < n_table
        ntab += want_tab
        flags.append((in_coq, want_tab))
        if in_coq:
            terms[k] = (f"(let i := {c_inst(c)} in OL [o_bool (hyps_ok i); harness_eval here i {tol} {cbool(want_tab)}; "
                        f"o_lp (gen here i)])")
    eterms = []
    for c in est_cases:
        t = f"o_res (estimate_cn_fast here {c_est(c)})"
        if c["branch"] == "coverage":
            t = f"OL [{t}; (let i := {c_inst(est_as_solve_case(c))} in o_bool (ambiguous_from here i {tol} (scored_fast here i)))]"
        else:
            t = f"OL [{t}; OZ 0]"
        eterms.append(t)
    vals = [None] * len(solve_cases)
    evals = [None] * len(est_cases)
    err = []

    def coq_side():
        try:
            ks = [k for k in terms if solve_cases[k]["gene"] in SMALL]
            kb = [k for k in terms if solve_cases[k]["gene"] not in SMALL]
            rb = common.coq_eval(IMPORTS, [terms[k] for k in kb], shard=1, jobs=8, preamble=pre)
            rs = common.coq_eval(IMPORTS, [terms[k] for k in ks], shard=20, jobs=8, preamble=pre)
            for k, v in zip(kb + ks, rb + rs):
                vals[k] = v
            for k, v in enumerate(common.coq_eval(IMPORTS, eterms, shard=15, jobs=8, preamble=pre)):
                evals[k] = v
        except Exception as e:   # re-raised in the main thread
            err.append(e)

    th = None
    if chk.model_available():
        th = threading.Thread(target=coq_side)
        th.start()
    # ---- implementation + property predicate
    impl = [run_solve(c, True) for c in solve_cases]
    tables = []
    for c, (res, snap) in zip(solve_cases, impl):
        stream = "solve:" + c["gene"]
        if res[0] != "ok":
            tables.append(None)
            continue
        table = predicate(chk, c, res[1], desc_of(c), snap)
        tables.append(table)
        chk.case(stream, c, nontrivial=bool(table), sample={"case": c, "implementation": res[1]})
        chk.count(stream, f"structures:{min(len(res[1]), 4)}{'+' if len(res[1]) >= 4 else ''}")
        chk.count(stream, f"gap:{c['par']['gap']}")
        if c["fusion"] is not None:
            chk.count(stream, "with-fusion-table")
        if c["par"]["cn_max"] < 20:
            chk.count(stream, "tight-error-bounds")
    eimpl = [run_estimate(c) for c in est_cases]
    for c, res in zip(est_cases, eimpl):
        stream = "estimate:" + c["branch"]
        desc = desc_of(c)
        g = gene(c["gene"])
        chk.case(stream, c, nontrivial=True, sample={"case": c, "implementation": res})
        chk.count(stream, "outcome:" + res[0])
        if c["branch"] == "user":
            unknown = [n for n in c["user"] if n not in g.cn_configs]
            if unknown:
                if res[0] != "unknown":
                    chk.fail("unknown-rejected", desc, c, {"unknown": unknown}, res)
            elif res != ("ok", [(sorted(c["user"]), 0.0)]):
                chk.fail("user-verbatim", desc, c, [(sorted(c["user"]), 0.0)], res)
        elif c["branch"] == "default":
            from aldy.gene import CNConfigType
            d = [n for n, x in g.cn_configs.items() if x.kind == CNConfigType.DEFAULT][0]
            n = 1 if (c["male"] and g.chr in ("X", "Y")) else 2
            if res != ("ok", [([d] * n, 0.0)]):
                chk.fail("default-copies", desc, c, [([d] * n, 0.0)], res)
        else:
            tot = sum(F(repr(v2)) for m in c["regcov"] for r, v2 in m if r in g.unique_regions)
            mn = min(sum(sum(x.values()) for x in cf.cn) for cf in g.cn_configs.values())
            if tot < F(mn, 2):
                if res[0] != "lowcov":
                    chk.fail("low-depth-guard", desc, c, "rejected: coverage too low", res)
            elif res[0] == "ok":
                predicate(chk, est_as_solve_case(c), res[1], desc)
            else:
                chk.fail("low-depth-guard", desc, c, "a structure call", res)
    # ---- correspondence
    if th is not None:
        th.join()
        if err:
            raise err[0]
    for c, (res, snap), v, table, (in_coq, want_tab) in zip(solve_cases, impl, vals, tables, flags):
        stream = "solve:" + c["gene"]
        if res[0] != "ok":
            chk.count(stream, "raised")
            chk.mismatch("cn-solve-raises", c, None, res)
            continue
        if v is None:
            chk.count(stream, "predicate-only")
            continue
        ok_inst, msols, amb, tab, lpo = bool(v[0]), d_sols(v[1][0]), bool(v[1][1]), v[1][2], v[2]
        if not ok_inst:
            chk.mismatch("cn-hyps-ok", c, "hyps_ok = false: the instance is outside the hypotheses of the C03 theorems", res)
            continue
        if snap is not None:
            chk.count(stream, "structural-tie")
            d = structural_diff(snap, lpo)
            if d is not None:
                chk.mismatch("cn-lp-structure", c, d, "recorded LP differs from CnModel.gen")
        if amb:
            # must/may reading: what the implementation reports is still checked by the predicate (admissible, in the gap, complete)
            chk.count(stream, "ambiguous-within-tolerance")
        elif not sols_equal(res[1], msols):
            if snap is not None and snap.solver_faults():
                # the premise of the behavioural tie (CBC meets the solver contract of C05) fails on this model: known finding
                chk.count(stream, "cbc-fault:not-compared")
            else:
                chk.mismatch("cn-solve", c, [(n, float(s)) for n, s in msols], res[1])
        if want_tab:
            mt = {tuple(n): s for n, s in d_sols(tab)}
            if mt != table:
                chk.mismatch("cn-best-table", c, {str(k): str(x) for k, x in mt.items()}, {str(k): str(x) for k, x in table.items()})
    for c, res, v in zip(est_cases, eimpl, evals):
        stream = "estimate:" + c["branch"]
        if v is None:
            continue
        m, amb = d_res(v[0]), bool(v[1])
        if m[0] == "ok" and res[0] == "ok":
            if amb:
                chk.count(stream, "ambiguous-within-tolerance")
            elif not sols_equal(res[1], m[1]):
                chk.mismatch("cn-estimate", c, [(n, float(s)) for n, s in m[1]], res)
        elif m != res:
            chk.mismatch("cn-estimate", c, m, res)


def run(chk):
    chk.rule = ("solve cases = (gene in TOY/GSTM1/CYP2A6/CYP2D6, planted structure of 0-5 configurations, noise <= 0.5 on the 0.01 grid, "
                "max_cn 3-6, gap in {0,0.1,0.3}, optional fusion-support table, optional configuration subset, optional tight error "
                "bounds / other weights); estimate cases = user lists (with unknown names), genes without copy-number calling "
                "(G6PD male/female, CYP2C19, switched-off TOY/CYP2D6), coverage route through the low-depth guard, "
                "_filter_configs and the fusion counter; non-trivial = at least one admissible structure exists (solve) / every "
                "estimate case; distinct = distinct case data")
    chk.extra_trusted = ["harness/lprec.py read-back of the LP from OR-Tools; aldy.lpinterface.escape_name used to map variable names to roles",
                         "exact Fraction enumeration of canonical internal forms in harness/c03.py (cross-checked against CnSpec.best_table on TOY/GSTM1)"]
    chk.assumptions = ["CBC returns an optimal point of every model it is given (validated by the behavioural tie, C05)",
                       "cases whose outcome depends on differences below 2e-6 (objective ties between nested active sets, candidates at "
                       "the gap threshold, errors at the bound) are excluded from the set comparison, never from the predicate's "
                       "admissibility / gap clauses"]
    chk.build()
    if chk.model_available():
        common.build_reported(chk, "C03", ["proofs/CnEnumProofs.v", "proofs/CnRefSolverProofs.v"], "props/C03_reported.v")
    q = chk.tier == "quick"
    n_solve, n_est = (160, 90) if q else (4000, 1500)
    cases = []
    corpus = os.path.join(common.VERIF, "corpus", "C03.json")
    if os.path.exists(corpus):
        cases += json.load(open(corpus))
    cases += [gen_solve_case(chk.rng) for _ in range(n_solve)]
    hist = [c for c in cases if c.get("kind") == "solve" and c.get("fusion")]
    cases += [dict(c, fusion=None, history={"fusion": c["fusion"]}) for c in hist[:(12 if q else 200)]]
    cases += [gen_estimate_case(chk.rng) for _ in range(n_est)]
    evaluate(chk, cases, n_struct_big=12 if q else 150, n_table=60 if q else 600)


def replay(chk, path):
    r = json.load(open(path))
    chk.build()
    evaluate(chk, [r["case"]])
    for f in chk.failures:
        print("still failing:", f["clause"], json.dumps(f["observed"], default=str)[:400], "expected", json.dumps(f["expected"], default=str)[:400])
    print("REPLAY", "FAILS" if chk.failures else "passes")
    return 1 if chk.failures else 0
