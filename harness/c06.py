"""C06 — alignment evidence is a faithful pileup of the eligible reads.

Correspondence (three levels):
  parse     Sample._parse_read on a bare Sample object                      vs Pileup.parse_read / phases_add
  table     Sample._make_coverage + Coverage.coverage/total/_coverage       vs Pileup.make_coverage / cov_coverage / cov_total_*
  file      generated SAM/BAM (pysam) -> real Sample(gene, profile, path)   vs Pileup.sample_table / phases on the decoded records
Predicate (independent of the model): a position-indexed CIGAR interpreter written in Python recounts what the
property prescribes (clauses depth, subst-count, ineligible, quality, order-independent, split-independent,
phase-sound) and is compared with the implementation's tables."""
import array, collections, contextlib, json, os, random, sys, tempfile, time
from collections import Counter, defaultdict
from fractions import Fraction
import common
from common import cz, cq, cstr, clist, cpair, cbool, copt

IMPORTS = ["Base", "Consts", "Pileup", "Consts_here"]
CHROM, OTHER, CHRLEN = "20", "120", 30000     # the other contig's name ENDS with the gene's: only an exact comparison of names tells them apart
HEADER = {"HD": {"VN": "1.0", "SO": "unsorted"}, "SQ": [{"SN": CHROM, "LN": CHRLEN}, {"SN": OTHER, "LN": CHRLEN}]}
OPS = "MIDNSHP=X"


# ============================================================================================ generated genes
def revc(s):
    return s[::-1].translate(str.maketrans("ACGT", "TGCA"))


def gen_gene(rng, strand=None, with_indels=False, gapped=None, name="GENX", genome="hg19", extra=None):
    """A small consistent gene database modelled on aldy/tests/resources/toy.yml: gene + pseudogene, RefSeq window inside the
    gene's named regions (the wide region is larger than the window), either strand, optionally a gapped RefSeq alignment,
    SNPs, functional contiguous and gapped multi-substitutions, one neutral multi-substitution, optionally indels.
    Variants are consistent with the sequence.  Returns (yaml text, meta)."""
    import yaml
    strand = strand or rng.choice("+-")
    gapped = rng.random() < 0.5 if gapped is None else gapped
    if gapped:
        blocks = [("M", rng.randint(60, 110)), ("D", rng.randint(1, 6)), ("M", rng.randint(60, 110)), ("I", rng.randint(1, 5)),
                  ("M", rng.randint(60, 110))]
    else:
        blocks = [("M", rng.randint(220, 330))]
    L = sum(n for o, n in blocks if o in "MI")
    span = sum(n for o, n in blocks if o in "MD")
    seq = "".join(rng.choice("ACGT") for _ in range(L))
    P0 = rng.randint(3000, 3400)

    def parts(total):
        while True:
            cuts = sorted(rng.sample(range(6, total - 6), 6))
            ls = [b - a for a, b in zip([0] + cuts, cuts + [total])]
            if min(ls) >= 3:
                return ls
    plen, gap = rng.randint(120, 200), rng.randint(0, 60)
    lead, tail = rng.randint(0, 25), rng.randint(0, 25)
    G0 = P0 + plen + gap
    start0 = G0 + lead
    G1 = start0 + span + tail
    names = ["up", "e1", "i1", "e2", "i2", "e3", "down"]
    if strand == "-":
        names = names[::-1]

    def layout(a, total):
        out, x = {}, a
        for nm, ln in zip(names, parts(total)):
            out[nm] = (x, x + ln)
            x += ln
        return out
    greg, preg = layout(G0, G1 - G0), layout(P0, plen)
    regions = {nm: [greg[nm][0] + 1, greg[nm][1] + 1, preg[nm][0] + 1, preg[nm][1] + 1] for nm in ["up", "e1", "e2", "e3", "down"]}
    sgn = 1 if strand == "+" else -1
    pos_ref, pos_chr, ref_to_chr = (0 if sgn > 0 else L - 1), start0, {}
    for o, n in blocks:
        if o == "M":
            for i in range(n):
                ref_to_chr[pos_ref + i * sgn] = pos_chr + i
            pos_chr += n
            pos_ref += n * sgn
        elif o == "I":
            pos_ref += n * sgn
        else:
            pos_chr += n
    ex = sorted(rng.sample(range(10, L - 40, 30), 3))
    exons = [[e + 1, e + 1 + 3 * rng.randint(2, 6)] for e in ex]
    mapped_ref = sorted(ref_to_chr)

    def ok_site(p, k):
        return all((p + j) in ref_to_chr for j in range(-2, k + 2)) and \
            all(abs(ref_to_chr[p + j + 1] - ref_to_chr[p + j]) == 1 for j in range(-2, k + 1))
    used = []

    def pick(k):
        for _ in range(2000):
            p = rng.choice(mapped_ref)
            if ok_site(p, k) and all(p + k + 5 < u or u2 + 5 < p for u, u2 in used):
                used.append((p, p + k))
                return p
        raise RuntimeError("no site")

    def other(ch):
        return rng.choice([c for c in "ACGT" if c != ch])

    def snp(fn=None):
        p = pick(1)
        return [p + 1, f"{seq[p]}>{other(seq[p])}", "-"] + ([fn] if fn else [])

    def mnp(k, gappedm, fn=None):
        p = pick(k)
        l = list(seq[p:p + k])
        r = [other(c) for c in l]
        if gappedm:
            for j in range(1, k - 1):
                l[j] = r[j] = "."
        return [p + 1, f"{''.join(l)}>{''.join(r)}", "-"] + ([fn] if fn else [])
    alleles = {
        f"{name}*1.001": {"label": f"{name}*1", "mutations": []},
        f"{name}*1.002": {"mutations": [snp()]},
        f"{name}*2.001": {"mutations": [snp("functional"), snp()]},
        f"{name}*3.001": {"mutations": [mnp(rng.choice([2, 3]), False, "functional"), snp()]},
        f"{name}*4.001": {"mutations": [mnp(3, True, "functional")]},
        f"{name}*5.001": {"mutations": [snp("functional"), mnp(2, False)]},
    }
    if with_indels:
        p = pick(3)
        alleles[f"{name}*6.001"] = {"mutations": [[p + 1, "del" + seq[p:p + rng.choice([1, 2, 3])], "-", "frameshift"]]}
        p = pick(1)
        ins = [p + 1, "ins" + "".join(rng.choice("ACGT") for _ in range(rng.choice([1, 2, 3]))), "-", "frameshift"]
        alleles[f"{name}*7.001"] = {"mutations": [ins]}
        p = pick(1)
        alleles[f"{name}*7.002"] = {"mutations": [ins, [p + 1, "ins" + rng.choice("ACGT"), "-"]]}
    if extra:
        extra(alleles, seq, pick, other, rng)
    cigar = " ".join(f"{o}{n}" for o, n in blocks)
    y = {"name": name, "version": "gen-1", "generated": "2026-09-26", "alleles": alleles,
         "structure": {"genes": [name, name + "P"], "regions": {genome: regions}, "cn_regions": ["e1", "i1", "e2", "i2", "e3"]},
         "reference": {"name": "NG_GEN", "mappings": {genome: [CHROM, start0 + 1, start0 + 1 + span, strand, cigar]},
                       "exons": exons, "seq": seq}}
    return yaml.dump(y, default_flow_style=None, sort_keys=False), \
        {"strand": strand, "gapped": gapped, "start0": start0, "span": span, "wide": [P0, G1]}


def write_empty_bam(path):
    import pysam
    with pysam.AlignmentFile(path, "wb", header=HEADER):
        pass
    pysam.index(path)


class Ctx:
    """a loaded gene + a template Sample whose per-gene attributes were computed by the real Sample.__init__"""

    def __init__(self, yaml_text=None, name="GENX", path=None, genome=None, ident="g0", window=None):
        from aldy.gene import Gene
        from aldy.sam import Sample
        from aldy.profile import Profile
        self.yaml, self.name, self.path, self.genome, self.ident = yaml_text, name, path, genome, ident
        self.gene = Gene(path, genome=genome) if path else Gene(None, name=name, yml=yaml_text)
        with tempfile.TemporaryDirectory() as d:
            bam = os.path.join(d, "e.bam")
            write_empty_bam(bam)
            old = Sample._load_sam
            Sample._load_sam = lambda self_, *a, **k: (defaultdict(list), defaultdict(list))   # attributes only, no realigner
            try:
                self.template = Sample(self.gene, Profile("verif"), bam)
            finally:
                Sample._load_sam = old
        g = self.gene
        self.lo, self.seq = g._lookup_range[0], g._lookup_seq
        self.window = window                     # (a, b): restrict the model's sequence to this slice of the lookup range
        keys = sorted(g.chr_to_ref)
        iv, a = [], None
        for k in keys:
            if a is None:
                a = prev = k
            elif k != prev + 1:
                iv.append((a, prev + 1))
                a = k
            prev = k
        if a is not None:
            iv.append((a, prev + 1))
        self.mapped = iv
        w = g.get_wide_region()
        self.wide = (w.start, w.end)
        self.phaseable = dict(self.template.phaseable)
        self.multi = dict(self.template._multi_sites)
        self.all_multi = {p: op for (p, op) in g.mutations if ">" in op and len(op) > 3}   # catalogued, functional or not
        self.has_indels = bool(self.template._indel_sites)
        self.bounds = (min(g.chr_to_ref), max(g.chr_to_ref))

    def bare(self, indel_sites=None):
        """a bare Sample object carrying only what _parse_read/_make_coverage need"""
        from aldy.sam import Sample
        from aldy.profile import Profile
        s = Sample.__new__(Sample)
        t = self.template
        s.gene, s.profile, s.name = self.gene, Profile("verif"), "bare"
        s.phases = {}
        s.phaseable = dict(t.phaseable)
        s._multi_sites = dict(t._multi_sites)
        s._indel_sites = {k: list(v) for k, v in (t._indel_sites if indel_sites is None else indel_sites).items()}
        s._indel_sites_eqs = {}
        s._dump_cn = defaultdict(int)
        s._fusion_counter = {}
        s.is_long_read = False
        s.reads = None
        return s

    def coq_def(self):
        """Coq definition of the gene view"""
        lo, sq = self.lo, self.seq
        if self.window:
            a, b = max(self.window[0], lo), min(self.window[1], lo + len(sq))
            sq = sq[a - lo:b - lo]
            lo = a
        multi, amulti = [], []
        for pos, op in self.multi.items():
            l, r = op.split(">")
            multi.append(cpair(cz(pos), cpair(cstr(l), cstr(r))))
        for pos, op in self.all_multi.items():
            l, r = op.split(">")
            amulti.append(cpair(cz(pos), cpair(cstr(l), cstr(r))))
        return (f"Definition {self.ident} : gview := {{| g_lo := {cz(lo)}; g_seq := {cstr(sq)};\n"
                f"  g_mapped := {clist(self.mapped, lambda ab: cpair(cz(ab[0]), cz(ab[1])))}; g_wide := {cpair(cz(self.wide[0]), cz(self.wide[1]))};\n"
                f"  g_phaseable := {clist(sorted(self.phaseable), cz)}; g_multi := [{'; '.join(multi)}]; g_all_multi := [{'; '.join(amulti)}];\n"
                f"  g_has_indels := {cbool(self.has_indels)} |}}.\n")

    def base(self, p):
        return self.gene[p]


# ============================================================================================ reads
QS = [0, 1, 2, 3, 9, 10, 11, 19, 20, 21, 28, 29, 30, 38, 39, 40, 41]
MAPQS = [0, 1, 2, 5, 9, 10, 19, 20, 28, 29, 30, 39, 40, 60, 255]


def haplotype(rng, ctx):
    """substitutions a simulated fragment carries: genome position -> base (catalogued variants, complete or partial multi-substitutions)"""
    alt = {}
    g = ctx.gene
    subs = [(p, o) for (p, o) in g.mutations if ">" in o]
    for p, o in subs:
        if rng.random() < (0.6 if len(o) > 3 else 0.35):
            l, r = o.split(">")
            idx = [j for j in range(len(l)) if l[j] != "."]
            if len(idx) > 1 and rng.random() < 0.3:
                idx = rng.sample(idx, rng.randint(1, len(idx) - 1))    # an incomplete multi-substitution
            for j in idx:
                alt[p + j] = r[j]
    return alt


def gen_cigar(rng, allow_h=True):
    """random CIGAR over M,=,X,I,D,S (,H,N,P rarely): leading insertions, adjacent indels, clips inside, split match runs"""
    n = rng.choice([1, 1, 2, 3, 4, 5, 6, 8])
    ops = []
    for _ in range(n):
        o = rng.choices("M=XIDS", weights=[8, 2, 2, 3, 3, 1])[0]
        ln = {"M": rng.randint(1, 30), "=": rng.randint(1, 12), "X": rng.randint(1, 4), "I": rng.randint(1, 4), "D": rng.randint(1, 5),
              "S": rng.randint(1, 6)}[o]
        ops.append((OPS.index(o), ln))
    if rng.random() < 0.25:
        ops.insert(0, (4, rng.randint(1, 6)))
    if rng.random() < 0.25:
        ops.append((4, rng.randint(1, 6)))
    kind = "std"
    if allow_h and rng.random() < 0.07:
        ops.insert(0 if rng.random() < 0.5 else len(ops), (5, rng.randint(1, 9)))
        kind = "hardclip"
    if not any(o in (0, 1, 4, 7, 8) for o, _ in ops):
        ops.append((0, rng.randint(1, 10)))      # a record needs a sequence
    return ops, kind


def gen_read(rng, ctx, alt, name=None, start=None, allow_h=True, p_noqual=0.08):
    ops, kind = gen_cigar(rng, allow_h)
    lo, hi = ctx.wide
    if start is None and hi - lo < 4000 and rng.random() < 0.03:
        # a long read that runs ACROSS the whole wide region of the gene (both of its ends lie outside): it spans every position
        start = max(0, lo - rng.randint(1, 25))
        ops = [(0, hi - start + rng.randint(1, 25))] if rng.random() < 0.5 else \
              [(0, (hi - start) // 2), (2, rng.randint(1, 3)), (0, hi - start - (hi - start) // 2 + rng.randint(1, 25))]
        kind = "std"
    if start is None:
        r = rng.random()
        if r < 0.35 and ctx.phaseable:
            start = rng.choice(sorted(ctx.phaseable)) - rng.randint(0, 12)     # near a catalogued site
        elif r < 0.7:
            start = rng.randint(ctx.bounds[0] - 10, ctx.bounds[1])
        elif r < 0.9:
            start = rng.randint(lo - 40, hi + 5)
        else:
            start = rng.choice([lo - rng.randint(0, 70), hi - rng.randint(0, 3), hi + rng.randint(0, 3), rng.randint(100, 2000)])
    start = max(0, start)
    seq, p = [], start
    mism = rng.choice([0.0, 0.02, 0.1])
    for o, ln in ops:
        if o in (0, 7, 8):
            for i in range(ln):
                b = alt.get(p + i, ctx.base(p + i))
                if b == "N" or rng.random() < mism:
                    b = rng.choice("ACGT")
                seq.append(b)
            p += ln
        elif o in (1, 4):
            seq += [rng.choice("ACGT") for _ in range(ln)]
        elif o in (2, 3):
            p += ln
    qual = None if rng.random() < p_noqual else [rng.choice(QS) for _ in seq]
    if qual == [9]:
        qual = [10]  # SAM text writes a one-base read of quality 9 as "*", which means "no qualities"
    return {"name": name or f"r{rng.randint(0, 10 ** 6)}", "start": start, "cigar": ops, "seq": "".join(seq), "qual": qual,
            "mapq": rng.choice(MAPQS), "flag": 0, "chrom": CHROM, "kind": kind}


def gen_read_set(rng, ctx, n, p_noqual=0.08):
    """reads of fragments (paired names), with flag / placement variety"""
    reads = []
    while len(reads) < n:
        alt = haplotype(rng, ctx)
        name = f"f{len(reads)}"
        mates = rng.choice([1, 1, 2, 2, 3])
        anchor = rng.randint(ctx.bounds[0] - 20, ctx.bounds[1]) if rng.random() < 0.8 else None
        for m in range(mates):
            st = None if anchor is None else anchor + rng.randint(-5, 60)
            r = gen_read(rng, ctx, alt, name=name, start=st, p_noqual=p_noqual)
            fl = 0
            if mates > 1:
                fl |= 1 | (0x40 if m == 0 else 0x80)
            if rng.random() < 0.3:
                fl |= 0x10
            x = rng.random()
            if x < 0.06:
                fl |= 0x100
                r["kind"] = r["kind"] if r["kind"] != "std" else "secondary"
            elif x < 0.12:
                fl |= 0x800
                r["kind"] = "supplementary"
            elif x < 0.18:
                fl |= 0x400
                r["kind"] = r["kind"] if r["kind"] != "std" else "duplicate"
            elif x < 0.23:
                fl |= 0x4
                r["kind"] = "unmapped-flag"
            elif x < 0.27:
                r["chrom"] = OTHER
                r["kind"] = "other-chromosome"
            r["flag"] = fl
            reads.append(r)
    reads = reads[:n]
    # region boundaries: alignments that end exactly at / one before the first base of the wide region, start at / after its
    # last position, and records that consume no reference (htslib gives them a one-base extent)
    lo, hi = ctx.wide
    for k, (st, cig) in enumerate([(lo - 10, [(0, 10)]), (lo - 11, [(0, 10)]), (hi, [(0, 6)]), (hi + 1, [(0, 6)]), (lo - 1, [(1, 3)]),
                                   (lo - 2, [(4, 3)]), (hi, [(1, 2)]), (lo - 7, [(0, 3), (2, 4)]), (lo - 8, [(0, 3), (2, 4)])]):
        if rng.random() < 0.5:
            ql = sum(n_ for o, n_ in cig if o in (0, 1, 4))
            reads.append({"name": f"b{k}", "start": st, "cigar": cig, "seq": "".join(rng.choice("ACGT") for _ in range(ql)),
                          "qual": [rng.choice(QS[1:]) for _ in range(ql)] if ql > 1 else [30], "mapq": rng.choice(MAPQS), "flag": 0,
                          "chrom": CHROM, "kind": "boundary"})
    return reads


def split_variant(rng, read):
    """the same alignment written differently: match runs split at random points, M/=/X exchanged"""
    ops = []
    for o, ln in read["cigar"]:
        if o in (0, 7, 8):
            rest = ln
            while rest > 0:
                k = rng.randint(1, rest)
                ops.append((rng.choice([0, 7, 8]), k))
                rest -= k
        else:
            ops.append((o, ln))
    r = dict(read)
    r["cigar"] = ops
    return r


def merge_variant(read):
    """adjacent match runs joined into one M"""
    ops = []
    for o, ln in read["cigar"]:
        o2 = 0 if o in (0, 7, 8) else o
        if ops and ops[-1][0] == 0 and o2 == 0:
            ops[-1] = (0, ops[-1][1] + ln)
        else:
            ops.append((o2, ln))
    r = dict(read)
    r["cigar"] = ops
    return r


def write_reads(path, reads, fmt="bam"):
    """write the records with pysam; BAM is coordinate-sorted (stable) and indexed, SAM text keeps the given order"""
    import pysam
    if fmt == "bam":
        order = sorted(range(len(reads)), key=lambda i: ((0 if reads[i]["chrom"] == CHROM else 1), reads[i]["start"]))
        reads = [reads[i] for i in order]
    with pysam.AlignmentFile(path, "wb" if fmt == "bam" else "w", header=HEADER) as f:
        for r in reads:
            a = pysam.AlignedSegment(f.header)
            a.query_name = r["name"]
            a.query_sequence = r["seq"]
            a.flag = r["flag"]
            a.reference_id = 0 if r["chrom"] == CHROM else 1
            a.reference_start = r["start"]
            a.mapping_quality = r["mapq"]
            a.cigartuples = [tuple(x) for x in r["cigar"]]
            a.query_qualities = None if r["qual"] is None else array.array("B", r["qual"])
            f.write(a)
    if fmt == "bam":
        pysam.index(path)
    return reads


def decode_records(path, chrom):
    """what pysam decodes (trusted): the model's and the interpreter's input"""
    import pysam
    out = []
    with pysam.AlignmentFile(path) as f:
        for r in f.fetch(until_eof=True):
            out.append({"name": r.query_name, "start": r.reference_start, "cigar": [tuple(x) for x in (r.cigartuples or [])],
                        "seq": r.query_sequence or "", "qual": None if r.query_qualities is None else list(r.query_qualities),
                        "mapq": r.mapping_quality, "off": r.reference_id == -1 or r.reference_name != chrom,
                        "funmap": bool(r.is_unmapped), "supp": bool(r.is_supplementary), "flag": r.flag})
    return out


def as_record(r):
    """generated read dict -> decoded-record form (for the levels that do not go through a file)"""
    return {"name": r["name"], "start": r["start"], "cigar": [tuple(x) for x in r["cigar"]], "seq": r["seq"], "qual": r["qual"],
            "mapq": r["mapq"], "off": r.get("chrom", CHROM) != CHROM, "funmap": bool(r["flag"] & 4), "supp": bool(r["flag"] & 0x800),
            "flag": r["flag"]}


def coq_read(rec):
    return (f"(mk_read {cstr(rec['name'])} {cz(rec['start'])} {clist(rec['cigar'], lambda on: cpair(cz(on[0]), cz(on[1])))} "
            f"{cstr(rec['seq'])} {copt(rec['qual'], lambda q: clist(q, cz))} {cz(rec['mapq'])} {cbool(rec['off'])} "
            f"{cbool(rec['funmap'])} {cbool(rec['supp'])})")


# ============================================================================================ independent interpreter
_CONSTS = {}


def consts():
    if not _CONSTS:
        import gen_consts
        _CONSTS.update(gen_consts.extract())
    return _CONSTS


def spec_bin(q):
    """binned quality per the bin table of the current sources (translator output)"""
    c = consts()
    q = Fraction(q)
    for bound, val in c["bins"]:
        if q < bound:
            return Fraction(int(q)) if val == -1 else Fraction(val)
    return Fraction(c["bin_top"])


def spec_eligible(ctx, rec):
    if not rec["cigar"] or rec["supp"] or any(o == 5 for o, _ in rec["cigar"]) or not rec["seq"]:
        return False
    if rec["off"] or rec["funmap"]:
        return False
    rl = sum(n for o, n in rec["cigar"] if o in (0, 2, 3, 7, 8))
    a0, a1 = rec["start"], rec["start"] + max(1, rl)
    b0, b1 = ctx.wide
    if a0 < b1 and a1 > b0:
        return True
    # sam.py's _in_region compares closed intervals: an alignment whose last base is wide.start-1, or that starts at wide.end,
    # is kept although it has no base inside the half-open region.  The property does not decide these: "edge".
    return "edge" if (a0 <= b0 <= a1 or b0 <= a0 <= b1) else False


def interpret(rec):
    """position-indexed reading of one alignment: aligned[p] = (base, quality or None), deleted[p] = quality of the previous
    base, insertions = [(p, bases, mean quality)], deletions = [(p, size)]; independent of aldy"""
    aligned, deleted, ins, dels = {}, {}, [], []
    p, j, prev = rec["start"], 0, Fraction(10)
    seq, qual = rec["seq"], rec["qual"]
    for o, n in rec["cigar"]:
        if o in (0, 7, 8):
            for i in range(n):
                q = Fraction(qual[j + i]) if qual else prev
                aligned[p + i] = (seq[j + i], q)
                prev = q
            p += n
            j += n
        elif o == 2:
            for i in range(n):
                deleted[p + i] = prev
            dels.append((p, n))
            p += n
        elif o == 1:
            q = Fraction(sum(qual[j:j + n]), n) if qual else prev
            ins.append((p, seq[j:j + n], q))
            prev = q
            j += n
        elif o == 4:
            j += n
    return aligned, deleted, ins, dels


def spec_read_obs(ctx, rec, multi=None):
    """the multiset of observations the property prescribes for one eligible read: Counter[((pos, op), (mq, q))]"""
    aligned, deleted, ins, dels = interpret(rec)
    mq = spec_bin(rec["mapq"])
    g = ctx.gene
    obs = {}
    for p, (b, q) in aligned.items():
        ref = ctx.base(p)
        op = f"{ref}>{b}" if (p in g.chr_to_ref and ref != b) else "_"
        obs[p] = [op, (mq, spec_bin(q))]
    for p, q in deleted.items():
        obs[p] = ["-", (mq, spec_bin(q))]
    # complete catalogued multi-substitutions: counted once, under that variant, at the first position
    for pos, op in (ctx.all_multi if multi is None else multi).items():
        l, r = op.split(">")
        idx = [k for k in range(len(l)) if l[k] != "."]
        if all(pos + k in obs and obs[pos + k][0] == f"{l[k]}>{r[k]}" for k in idx):
            qs = [obs[pos + k][1] for k in idx]
            for k in idx[1:]:
                obs[pos + k][0] = "_"
            obs[pos] = [op, (sum(a for a, _ in qs) / len(qs), sum(b for _, b in qs) / len(qs))]
    out = Counter()
    for p, (op, q) in obs.items():
        out[((p, op), q)] += 1
    for p, s, q in ins:
        out[((p, "ins" + s), (mq, spec_bin(q)))] += 1
    return out, aligned, deleted, ins, dels


def spec_tables(ctx, recs, multi=None):
    """expected evidence of a record list: (Counter of observations of eligible reads, depth per position)"""
    total = Counter()
    depth = Counter()
    per_read = []
    skip_pos, skip_frag = set(), set()
    for rec in recs:
        st = spec_eligible(ctx, rec)
        if not st:
            per_read.append(None)
            continue
        o, aligned, deleted, ins, dels = spec_read_obs(ctx, rec, multi)
        if st == "edge":
            skip_pos.update(list(aligned) + list(deleted) + [p for p, _, _ in ins])
            skip_frag.add(rec["name"])
        total.update(o)
        for p in list(aligned) + list(deleted):
            depth[p] += 1
        per_read.append((aligned, deleted, ins, dels))
    return total, depth, per_read, skip_pos, skip_frag


# ============================================================================================ canonical forms
def fr(x):
    return Fraction(x).limit_denominator(10 ** 6) if isinstance(x, float) else Fraction(x)


def cq2(q):
    return [str(fr(q[0])), str(fr(q[1]))]


def canon_table(tab):
    """{pos: {op: [quals]}} -> sorted nested lists, cells as sorted multisets; empty positions kept"""
    return [[int(p), sorted([op, sorted(cq2(q) for q in qs)] for op, qs in ops.items())] for p, ops in sorted(tab.items())]


def d_qual(v):
    return (common.dq(v[0]), common.dq(v[1]))


def d_table(v):
    return {p: {common.dstr(op): [d_qual(q) for q in qs] for op, qs in cells} for p, cells in v}


def d_key(v):
    return (v[0], common.dstr(v[1]))


def d_obs(v):
    return (d_key(v[0]), d_qual(v[1]))


def canon_obs_counter(cnt):
    return sorted([int(k[0]), k[1], cq2(q), n] for (k, q), n in cnt.items() if n)


# ============================================================================================ level 1: _parse_read
def seed_tables(rng, ctx, rec):
    """prior content of norm/muts (other reads' observations), so that the merge's pop() has something to pop wrongly"""
    norm, muts = defaultdict(list), defaultdict(list)
    for _ in range(rng.randint(0, 6)):
        p = rec["start"] + rng.randint(-3, 40)
        q = (rng.choice([6, 15, 25]), rng.choice([6, 15, 25, 35]))
        if rng.random() < 0.4:
            norm[p].append(q)
        else:
            ref = ctx.base(p)
            muts[p, f"{ref}>{rng.choice([c for c in 'ACGT' if c != ref])}"].append(q)
    for pos, op in ctx.multi.items():
        if rng.random() < 0.5:
            l, r = op.split(">")
            for k in range(len(l)):
                if l[k] != "." and rng.random() < 0.7:
                    muts[pos + k, f"{l[k]}>{r[k]}"].append((rng.choice([6, 15]), rng.choice([6, 15])))
    return norm, muts


def snapshot(norm, muts):
    c = Counter()
    for p, l in norm.items():
        for q in l:
            c[((p, "_"), (fr(q[0]), fr(q[1])))] += 1
    for (p, op), l in muts.items():
        for q in l:
            c[((p, op), (fr(q[0]), fr(q[1])))] += 1
    return c


def impl_parse(ctx, rec, prior):
    s = ctx.bare()
    norm, muts = defaultdict(list), defaultdict(list)
    for p, l in prior[0].items():
        norm[p] = list(l)
    for k, l in prior[1].items():
        muts[k] = list(l)
    before = snapshot(norm, muts)
    qual = None if rec["qual"] is None else array.array("B", rec["qual"])
    rp, dump = s._parse_read(rec["name"], rec["start"], [tuple(x) for x in rec["cigar"]], rec["seq"], norm, muts, rec["mapq"], qual)
    after = snapshot(norm, muts)
    delta = Counter(after)
    delta.subtract(before)
    if any(v < 0 for v in delta.values()):
        return {"error": "observations of other reads were removed", "delta": canon_obs_counter(+delta)}
    return {"obs": canon_obs_counter(+delta), "dump": [[int(p), op] for p, op in dump],
            "phase": [[int(p), op] for p, op in s.phases.get(rec["name"], {}).items()], "read_pos": [int(x) for x in rp]}


def run_parse_level(chk, ctxs, n):
    rng = chk.rng
    cases, terms = [], []
    for i in range(n):
        ctx = ctxs[i % len(ctxs)]
        alt = haplotype(rng, ctx)
        r = gen_read(rng, ctx, alt, name=f"q{i}", allow_h=rng.random() < 0.3)
        rec = as_record(r)
        prior = seed_tables(rng, ctx, rec)
        cases.append((ctx, rec, prior))
        cr = coq_read(rec)
        terms.append(f"OL [o_parse (parse_read {ctx.ident} here {cr}); o_phases (phases_add [] {cstr(rec['name'])} (read_phase {ctx.ident} here {cr}))]")
    pre = "".join(c.coq_def() for c in ctxs)
    vals = common.coq_eval(IMPORTS, terms, preamble=pre) if chk.model_available() else [None] * len(terms)
    for (ctx, rec, prior), v in zip(cases, vals):
        im = impl_parse(ctx, rec, prior)
        case = {"level": "parse", "gene": ctx.yaml, "gene_name": ctx.name, "read": rec,
                "prior": [[[p, [list(q) for q in l]] for p, l in prior[0].items()], [[p, op, [list(q) for q in l]] for (p, op), l in prior[1].items()]]}
        exp, aligned, deleted, ins, dels = spec_read_obs(ctx, rec)
        merged = any(k[1] in ctx.multi.values() for (k, _q) in exp)
        feats = sorted({OPS[o] for o, _ in rec["cigar"]})
        chk.count("parse", "cigar:" + "".join(feats))
        if merged:
            chk.count("parse", "merged-multi-substitution")
        if rec["qual"] is None:
            chk.count("parse", "no-qualities")
        chk.case("parse", [ctx.name, rec], nontrivial=bool(aligned or deleted or ins), sample={"read": rec, "implementation": im})
        if v is not None:
            (mo, md, mp), mph = v[0], v[1]
            mobs = Counter(d_obs(o) for o in mo)
            mm = {"obs": canon_obs_counter(mobs), "dump": [[p, common.dstr(op)] for p, op in md],
                  "phase": [[p, common.dstr(op)] for p, op in (mph[0][1] if mph else [])]}
            if {k: im.get(k) for k in ("obs", "dump", "phase")} != mm:
                chk.mismatch("parse_read", case, mm, im)
        # property predicate on the implementation's result (std CIGARs only: the statement's domain)
        if all(o in (0, 1, 2, 4, 7, 8) for o, _ in rec["cigar"]):
            if "error" in im:
                chk.fail("depth", {"level": "parse", "what": "foreign observation removed"}, case, canon_obs_counter(exp), im)
                continue
            got = Counter()
            for p, op, q, k in im["obs"]:
                got[((p, op), (Fraction(q[0]), Fraction(q[1])))] += k
            gd, ed = Counter(), Counter()
            for ((p, op), _q), k in got.items():
                if not op.startswith("ins"):
                    gd[p] += k
            for p in list(aligned) + list(deleted):
                ed[p] += 1
            if +gd != +ed:
                chk.fail("depth", {"level": "parse"}, case, sorted(ed.items()), sorted(gd.items()))
            elif got != exp and got == spec_read_obs(ctx, rec, ctx.multi)[0]:
                # the read shows a complete catalogued multi-substitution that has no functional effect: never merged
                chk.fail("subst-count", {"level": "parse", "kind": "neutral-mnp"}, case, canon_obs_counter(exp), im["obs"])
            elif _key_counts(got) != _key_counts(exp):
                chk.fail("subst-count", {"level": "parse"}, case, canon_obs_counter(exp), im["obs"])
            elif got != exp:
                chk.fail("quality", {"level": "parse"}, case, canon_obs_counter(exp), im["obs"])
    return len(cases)


def _key_counts(cnt):
    c = Counter()
    for (k, _q), n in cnt.items():
        c[k] += n
    return +c


# ============================================================================================ level 2: _make_coverage + accessors
def gen_tables(rng, ctx):
    lo, hi = ctx.bounds
    pos = lambda: rng.choice([rng.randint(lo, hi), rng.randint(lo, hi), rng.randint(ctx.wide[0] - 30, lo - 1), rng.randint(hi + 1, hi + 40)])
    ql = lambda: [(rng.choice([0, 1, 6, 15, 25, 35, 40]), rng.choice([0, 1, 6, 15, 25, 35, 40])) for _ in range(rng.choice([0, 1, 1, 2, 3]))]
    norm, muts = {}, {}
    sites = [pos() for _ in range(rng.randint(1, 8))]
    for p in sites:
        if rng.random() < 0.7:
            norm[p] = ql()
        for _ in range(rng.randint(0, 3)):
            ref = ctx.base(p)
            op = rng.choice([f"{ref}>{rng.choice('ACGT')}", "-", "ins" + rng.choice(["A", "CG", "TTT"]), "_", "AC>GT"])
            muts[p, op] = ql()
    indel = {}
    mode = rng.choice(["gene", "none", "random"])
    if mode == "gene":
        indel = {k: [rng.randint(0, 9), rng.choice([0, 0, 3, 7])] for k in ctx.template._indel_sites}
    elif mode == "random":
        for k in rng.sample(list(muts), min(len(muts), 2)) + [(pos(), "insA"), (pos(), "delAC")]:
            indel[k] = [rng.randint(0, 9), rng.choice([0, 2, 5])]
    return norm, muts, indel


def run_table_level(chk, ctxs, n):
    from aldy.gene import Mutation
    rng = chk.rng
    cases, terms = [], []
    for i in range(n):
        ctx = ctxs[i % len(ctxs)]
        norm, muts, indel = gen_tables(rng, ctx)
        queries = sorted({p for p in norm} | {p for p, _ in muts} | {p for p, _ in indel})
        mq = sorted(set(muts) | set(indel) | {(p, "_") for p in norm})
        cases.append((ctx, norm, muts, indel, queries, mq))
        cn = clist(norm.items(), lambda pl: cpair(cz(pl[0]), clist(pl[1], lambda q: cpair(cq(q[0]), cq(q[1])))))
        cm = clist(muts.items(), lambda kl: cpair(cpair(cz(kl[0][0]), cstr(kl[0][1])), clist(kl[1], lambda q: cpair(cq(q[0]), cq(q[1])))))
        ci = clist([(k, v) for k, v in indel.items() if v[1]], lambda kv: cpair(cpair(cz(kv[0][0]), cstr(kv[0][1])), cpair(cz(kv[1][0]), cz(kv[1][1]))))
        t = f"(make_coverage {ctx.ident} {cbool(bool(indel))} {cn} {cm})"
        terms.append(f"let t := {t} in let ix := {ci} in OL [o_table t; OL (map (fun p => OZ (cov_total_pos t p)) {clist(queries, cz)}); "
                     f"OL (map (fun k => OL [OZ (cov_coverage t ix k); OZ (cov_total_mut t ix k)]) "
                     f"{clist(mq, lambda k: cpair(cz(k[0]), cstr(k[1])))})]")
    pre = "".join(c.coq_def() for c in ctxs)
    vals = common.coq_eval(IMPORTS, terms, preamble=pre) if chk.model_available() else [None] * len(terms)
    for (ctx, norm, muts, indel, queries, mq), v in zip(cases, vals):
        s = ctx.bare(indel_sites=indel)
        cov = s._make_coverage({p: list(l) for p, l in norm.items()}, {k: list(l) for k, l in muts.items()})
        im = {"table": canon_table(cov._coverage), "total": [int(cov.total(p)) for p in queries],
              "mut": [[int(cov.coverage(Mutation(*k))), int(cov.total(Mutation(*k)))] for k in mq]}
        case = {"level": "table", "gene": ctx.yaml, "gene_name": ctx.name, "norm": [[p, [list(q) for q in l]] for p, l in norm.items()],
                "muts": [[p, op, [list(q) for q in l]] for (p, op), l in muts.items()], "indel": [[p, op, v_] for (p, op), v_ in indel.items()]}
        chk.count("table", "indel-table:" + ("truthy" if indel else "empty"))
        chk.case("table", case, nontrivial=bool(muts or norm), sample={**{k: case[k] for k in ("norm", "muts", "indel")}, "implementation": im})
        if v is not None:
            mm = {"table": canon_table(d_table(v[0])), "total": v[1], "mut": v[2]}
            if mm != im:
                chk.mismatch("make_coverage", case, mm, im)
        # predicate: depth = all non-insertion observations handed in, whatever the folding
        for p, t in zip(queries, im["total"]):
            want = len(norm.get(p, [])) + sum(len(l) for (pp, op), l in muts.items() if pp == p and not op.startswith("ins"))
            if t != want:
                chk.fail("depth", {"level": "table"}, case, want, t)
                break
    return len(cases)


# ============================================================================================ level 3: whole files
def load_sample(ctx, path, profile=None):
    from aldy.sam import Sample
    from aldy.profile import Profile
    return Sample(ctx.gene, profile or Profile("verif"), path)


def impl_file(ctx, path):
    s = load_sample(ctx, path)
    return s, {"table": canon_table(s.coverage._coverage),
               "phases": sorted([f, sorted([int(p), op] for p, op in d.items())] for f, d in s.phases.items())}


def check_file_predicate(chk, ctx, recs, sample, case, desc):
    """the property speaks of every catalogued multi-substitution; the code merges only those with a functional effect
    (Sample._multi_sites).  When that is the ONLY difference the failure is reported once, as kind neutral-mnp."""
    fails = []
    res = _file_predicate(fails, ctx, recs, sample, case, desc, ctx.all_multi)
    if fails and ctx.all_multi != ctx.multi:
        f2 = []
        _file_predicate(f2, ctx, recs, sample, case, desc, ctx.multi)
        if not f2:
            chk.fail("subst-count", {**desc, "kind": "neutral-mnp"}, case, fails[0][3], fails[0][4])
            return res
    for f in fails:
        chk.fail(*f)
    return res


class _Sink:
    def __init__(self, lst):
        self.lst = lst

    def fail(self, *a):
        self.lst.append(a)


def _file_predicate(fails, ctx, recs, sample, case, desc, multi):
    chk = _Sink(fails)
    """clauses depth / subst-count / quality / phase-sound evaluated on the implementation's Sample"""
    from aldy.gene import Mutation
    cov = sample.coverage
    exp, depth, per_read, skip_pos, skip_frag = spec_tables(ctx, recs, multi)
    positions = (set(range(ctx.wide[0] - 5, ctx.wide[1] + 5)) | set(depth) | set(cov._coverage)) - skip_pos
    bad = [(p, depth.get(p, 0), cov.total(p)) for p in sorted(positions) if cov.total(p) != depth.get(p, 0)]
    if bad:
        chk.fail("depth", desc, case, [list(b[:2]) for b in bad[:5]], [[b[0], b[2]] for b in bad[:5]])
    # per-key counts and qualities inside the RefSeq-mapped part; outside only the pooled non-insertion multiset is claimed
    want_k, want_q = defaultdict(Counter), defaultdict(Counter)
    for ((p, op), q), n in exp.items():
        want_k[p][op] += n
        want_q[p][(op, q)] += n
    got_k, got_q = defaultdict(Counter), defaultdict(Counter)
    for p, ops in cov._coverage.items():
        for op, qs in ops.items():
            for q in qs:
                got_k[p][op] += 1
                got_q[p][(op, (fr(q[0]), fr(q[1])))] += 1
    ins_dropped = bool(sample._indel_sites)
    sub_bad, q_bad = [], []
    for p in sorted((set(want_k) | set(got_k)) - skip_pos):
        strip = (lambda c: Counter({k: n for k, n in c.items() if not (k if isinstance(k, str) else k[0]).startswith("ins")})) if ins_dropped else (lambda c: c)
        if p in ctx.gene.chr_to_ref:
            wk, gk = strip(want_k[p]), strip(got_k[p])
            if +wk != +gk:
                sub_bad.append((p, sorted(wk.items()), sorted(gk.items())))
            elif +strip(want_q[p]) != +strip(got_q[p]):
                q_bad.append(p)
            # the accessor agrees with the table for what the stages ask
            for op, n in wk.items():
                if not sample.coverage._indels and cov.coverage(Mutation(p, op)) != n:
                    sub_bad.append((p, op, n, cov.coverage(Mutation(p, op))))
        else:
            pool = lambda c: sorted((q for (op, q), n in c.items() if not op.startswith("ins") for _ in range(n)))
            if pool(want_q[p]) != pool(got_q[p]):
                q_bad.append(p)
    if sub_bad:
        chk.fail("subst-count", desc, case, [str(x) for x in sub_bad[:4]], "see expected: (pos, wanted, observed)")
    if q_bad:
        chk.fail("quality", desc, case, q_bad[:8], "quality multisets differ at these positions")
    # phase records
    frag = defaultdict(list)
    for rec, pr in zip(recs, per_read):
        if pr is not None:
            frag[rec["name"]].append((rec, pr))
    ph_bad = []
    for f, d in sample.phases.items():
        if f in skip_frag:
            continue
        for p, op in d.items():
            ok = False
            for rec, (aligned, deleted, ins, dels) in frag.get(f, []):
                if p in aligned:
                    b = aligned[p][0]
                    ref = ctx.base(p)
                    ok |= (op == "_" and (b == ref or p not in ctx.gene.chr_to_ref)) or op == f"{ref}>{b}"
                ok |= any(p == ip and op == "ins" + s_ for ip, s_, _ in ins)
                ok |= any(p == dp and op == "del" + ctx.gene[dp:dp + n] for dp, n in dels)
            if not ok or p not in ctx.phaseable:
                ph_bad.append((f, p, op, "not shown by a read of the fragment"))
    for f, rs in frag.items():
        if f in skip_frag:
            continue
        for rec, (aligned, deleted, ins, dels) in rs:
            for p in aligned:
                if p in ctx.phaseable and p not in sample.phases.get(f, {}):
                    ph_bad.append((f, p, None, "catalogued site under an aligned base has no entry"))
    if ph_bad:
        chk.fail("phase-sound", desc, case, [str(x) for x in ph_bad[:5]], "see expected")
    return exp, depth


def run_file_level(chk, ctxs, n, nreads, thorough=False):
    rng = chk.rng
    pre = "".join(c.coq_def() for c in ctxs)
    cases, terms = [], []
    with tempfile.TemporaryDirectory() as d:
        for i in range(n):
            ctx = ctxs[i % len(ctxs)]
            reads = gen_read_set(
                rng, ctx, rng.randint(max(3, nreads // 3), nreads), p_noqual=0.0 if ctx.has_indels else 0.08
            )  # the vendored realigner (indelpost) dies on records without base qualities: TypeError in count_lowqual_non_ref_bases
            fmt = "bam" if rng.random() < 0.75 else "sam"
            # the same few file names are written again and again with other content (a path-keyed cache inside the loader would show)
            path = os.path.join(d, f"c{i % 3}.{fmt}")
            write_reads(path, reads, fmt)
            recs = decode_records(path, CHROM)
            case = {"level": "file", "gene": ctx.yaml, "gene_name": ctx.name, "format": fmt, "reads": reads}
            desc = {"level": "file", "format": fmt}
            sample, im = impl_file(ctx, path)
            for r in reads:
                chk.count("file", "read:" + r["kind"])
            chk.count("file", "format:" + fmt)
            nel = sum(1 for r in recs if spec_eligible(ctx, r))
            chk.count("file", "eligible-reads", nel)
            chk.case("file", [ctx.name, fmt, reads], nontrivial=nel > 0,
                     sample={"n_reads": len(reads), "eligible": nel, "format": fmt, "first_reads": reads[:2]})
            cases.append((ctx, case, im))
            terms.append(f"let rs := {clist(recs, coq_read)} in OL [o_table (sample_table {ctx.ident} here rs); o_phases (phases {ctx.ident} here rs)]")
            # ---- predicate on the implementation
            check_file_predicate(chk, ctx, recs, sample, case, desc)
            # ineligible reads contribute nothing: the same file without them
            keep = [r for r, rec in zip(write_order(reads, fmt), recs) if spec_eligible(ctx, rec)]
            p2 = os.path.join(d, f"c{i % 3}_elig.{fmt}")
            write_reads(p2, keep, fmt)
            _, im2 = impl_file(ctx, p2)
            if im2 != im:
                chk.fail("ineligible", desc, case, "tables and phase records equal to those of the eligible reads alone", diff_tables(im2, im))
            # order independence: the same records in another order (SAM text keeps the order; BAM re-sorted stably from a shuffle)
            sh = list(reads)
            rng.shuffle(sh)
            p3 = os.path.join(d, f"c{i % 3}_perm.sam")
            write_reads(p3, sh, "sam")
            _, im3 = impl_file(ctx, p3)
            if im3["table"] != im["table"]:
                chk.fail("order-independent", desc, case, "equal tables under a permutation of the reads", diff_tables(im3, im))
            # split independence: match runs split / M,=,X exchanged / joined
            alt = [split_variant(rng, r) if rng.random() < 0.7 else merge_variant(r) for r in reads]
            p4 = os.path.join(d, f"c{i % 3}_split.{fmt}")
            write_reads(p4, alt, fmt)
            _, im4 = impl_file(ctx, p4)
            if im4 != im:
                chk.fail("split-independent", desc, case, "equal tables however a match run is written", diff_tables(im4, im))
            if thorough:
                third_opinion(chk, ctx, d, i, keep, sample, case, desc)
        vals = common.coq_eval(IMPORTS, terms, preamble=pre, shard=8) if chk.model_available() else [None] * len(terms)
    for (ctx, case, im), v in zip(cases, vals):
        if v is None:
            continue
        mm = {"table": canon_table(d_table(v[0])),
              "phases": sorted([common.dstr(f), sorted([p, common.dstr(op)] for p, op in dct)] for f, dct in v[1])}
        if mm != im:
            chk.mismatch("sample-file", case, diff_tables(mm, im), "model vs implementation: first differences shown under 'model'")
    return len(cases)


def write_order(reads, fmt):
    if fmt != "bam":
        return reads
    order = sorted(range(len(reads)), key=lambda i: ((0 if reads[i]["chrom"] == CHROM else 1), reads[i]["start"]))
    return [reads[i] for i in order]


def diff_tables(a, b):
    out = {}
    ta, tb = {p: c for p, c in a["table"]}, {p: c for p, c in b["table"]}
    dif = [(p, ta.get(p), tb.get(p)) for p in sorted(set(ta) | set(tb)) if ta.get(p) != tb.get(p)]
    out["table_differences"] = dif[:6]
    if a.get("phases") != b.get("phases"):
        pa, pb = {f: d for f, d in a.get("phases", [])}, {f: d for f, d in b.get("phases", [])}
        out["phase_differences"] = [(f, pa.get(f), pb.get(f)) for f in sorted(set(pa) | set(pb)) if pa.get(f) != pb.get(f)][:4]
    return out


def third_opinion(chk, ctx, d, i, keep, sample, case, desc):
    """htslib's own pileup over the eligible records (thorough tier)"""
    import pysam
    p5 = os.path.join(d, f"c{i}_third.bam")
    write_reads(p5, keep, "bam")
    depth = Counter()
    with pysam.AlignmentFile(p5) as f:
        for col in f.pileup(CHROM, 0, CHRLEN, stepper="nofilter", ignore_overlaps=False, min_base_quality=0, ignore_orphans=False,
                            max_depth=10 ** 6, flag_filter=0, truncate=False):
            n = sum(1 for pr in col.pileups if not pr.is_refskip)
            depth[col.reference_pos] = n
    bad = [(p, depth.get(p, 0), sample.coverage.total(p)) for p in set(depth) | set(sample.coverage._coverage)
           if depth.get(p, 0) != sample.coverage.total(p)]
    chk.count("file", "htslib-pileup-columns", len(depth))
    if bad:
        chk.fail("depth", {**desc, "opinion": "htslib-pileup"}, case, sorted(bad)[:5], "(pos, htslib depth, Coverage.total)")


# ============================================================================================ shipped data (thorough)
def run_shipped(chk):
    """depth conservation on a shipped BAM: real Sample vs the interpreter on pysam's decoded records"""
    import pysam
    from aldy.common import script_path
    from aldy.profile import Profile
    bam = script_path("aldy.tests.resources/NA10860.bam")
    gene_path = script_path("aldy.resources.genes/cyp2d6.yml")
    ctx = Ctx(path=gene_path, genome="hg19", ident="g_cyp2d6", name="CYP2D6")
    t0 = time.time()
    s = load_sample(ctx, bam)
    prefix = s._prefix
    recs = []
    with pysam.AlignmentFile(bam) as f:
        for r in f.fetch(region=ctx.gene.get_wide_region().samtools(prefix=prefix)):
            recs.append({"name": r.query_name, "start": r.reference_start, "cigar": [tuple(x) for x in (r.cigartuples or [])],
                         "seq": r.query_sequence or "", "qual": None if r.query_qualities is None else list(r.query_qualities),
                         "mapq": r.mapping_quality, "off": r.reference_id == -1 or r.reference_name != prefix + ctx.gene.chr,
                         "funmap": bool(r.is_unmapped), "supp": bool(r.is_supplementary), "flag": r.flag})
    case = {"level": "shipped", "bam": "NA10860.bam", "gene": "cyp2d6/hg19", "records": len(recs)}
    chk.case("shipped", case, nontrivial=True, sample={**case, "load_s": round(time.time() - t0, 1)})
    check_file_predicate(chk, ctx, recs, s, case, {"level": "shipped", "bam": "NA10860.bam"})
    chk.count("shipped", "records", len(recs))


# ============================================================================================ side conditions on the genes used
def multi_wf(ctx):
    comps = []
    for pos, op in ctx.multi.items():
        l, r = op.split(">")
        if len(l) != len(r) or len(l) < 2 or l[0] == "." or op.startswith("ins"):
            return False
        comps.append({pos + k for k in range(len(l)) if l[k] != "."})
    return all(not (a & b) for i, a in enumerate(comps) for b in comps[i + 1:])


def make_contexts(rng, n, with_indels=False, prefix="g"):
    ctxs = []
    for i in range(n):
        txt, meta = gen_gene(rng, strand="+-"[i % 2], with_indels=with_indels, gapped=(i // 2) % 2 == 1)
        ctxs.append(Ctx(yaml_text=txt, ident=f"{prefix}{i}"))
    return ctxs


# ============================================================================================ entry points
def run(chk):
    chk.rule = ("three streams: parse = one random alignment (start, CIGAR over M,=,X,I,D,S and sometimes H, qualities incl. bin boundaries or "
                "absent, reference bases with planted catalogued substitutions / complete and incomplete multi-substitutions / random "
                "mismatches) through Sample._parse_read on pre-filled tables; table = random norm/muts/indel tables through _make_coverage "
                "and the Coverage accessors; file = a generated SAM or BAM (paired names, secondary / supplementary / duplicate / unmapped "
                "flags, other chromosome, hard clips, leading insertions, adjacent indels) through the real Sample(...) on generated "
                "genes of either strand with and without a gapped RefSeq alignment, plus the same reads without the ineligible ones, "
                "permuted, and with match runs re-split; non-trivial = at least one aligned/deleted/inserted base (parse), a non-empty "
                "table (table), at least one eligible read (file); distinct = distinct (gene, input)")
    chk.extra_trusted = ["pysam/htslib record decoding and BAM/SAM writing", "PyYAML (generated gene databases)",
                         "the Python position-indexed CIGAR interpreter in harness/c06.py (property predicate)"]
    chk.assumptions = ["catalogued multi-substitutions do not share positions (Pileup.multi_wf, evaluated on every gene used)",
                       "CIGAR lengths >= 1; query length equals the sum of query-consuming lengths (records are written and re-read by htslib)"]
    chk.build()
    q = chk.tier == "quick"
    common.quiet_aldy()
    ctxs = make_contexts(chk.rng, 4 if q else 12)
    ctxs_ind = make_contexts(chk.rng, 2 if q else 4, with_indels=True, prefix="gi")
    for c in ctxs + ctxs_ind:
        if not multi_wf(c):
            chk.broken.append(("obligation", "side-condition:multi_wf", f"generated gene {c.ident} violates multi_wf"))
    if chk.model_available():      # the same side condition as the theorems state it (Pileup.multi_wf), evaluated in Coq
        wf = common.coq_eval(IMPORTS, [f"o_bool (multi_wf {c.ident})" for c in ctxs + ctxs_ind], preamble="".join(c.coq_def() for c in ctxs + ctxs_ind))
        for c, v in zip(ctxs + ctxs_ind, wf):
            chk.count("side-conditions", "multi_wf-evaluated")
            if v != 1:
                chk.broken.append(("obligation", "side-condition:multi_wf", f"Pileup.multi_wf {c.ident} = false"))
        # the premise of C06_mnp_component_counts (components are substitutions of the gene's reference base, inside the gene):
        # a theorem premise, not a property of the code; counted so that the evidence says on how many genes it holds
        ro = common.coq_eval(IMPORTS + ["PileupProofs", "PileupMnpTableProofs"], [f"o_bool (multi_ref_ok {c.ident})" for c in ctxs + ctxs_ind],
                             preamble="".join(c.coq_def() for c in ctxs + ctxs_ind))
        for c, v in zip(ctxs + ctxs_ind, ro):
            chk.count("side-conditions", "multi_ref_ok-holds" if v == 1 else "multi_ref_ok-does-not-hold")
    corpus = os.path.join(common.VERIF, "corpus", "C06.json")
    if os.path.exists(corpus):
        for c in json.load(open(corpus)):
            replay_case(chk, c)
    run_in_region_direct(chk, 400 if q else 6000)
    run_parse_level(chk, ctxs + ctxs_ind, 500 if q else 6000)
    run_table_level(chk, ctxs + ctxs_ind, 120 if q else 1500)
    run_file_level(chk, ctxs, 16 if q else 150, 30 if q else 60, thorough=not q)
    # genes with catalogued indels: the realigner runs, insertion cells are dropped, everything else is unchanged
    run_file_level(chk, ctxs_ind, 4 if q else 30, 20 if q else 40, thorough=False)
    if not q:
        shipped_side_conditions(chk)
        run_shipped(chk)


def run_in_region_direct(chk, n):
    """sam._in_region called directly on record-like objects (contig name, mapped or not, start, end or None) against
    InRegionProofs.in_region_named: the whole test, including the comparison of contig names the pileup model takes as a flag"""
    from aldy.sam import _in_region
    from aldy.common import GRange
    rng = chk.rng

    class Rec:
        pass
    cases = []
    for k in range(n):
        chrom = rng.choice(["20", "1", "X", "22", "7"])
        prefix = rng.choice(["", "", "chr"])
        want = prefix + chrom
        name = rng.choice([want] * 5 + ["1" + want, want + "1", chrom, "chr" + chrom, "chr" + want, want[1:] or "2", want[:-1] or "Y", "M" + chrom,
                                        want.upper(), "21"])
        b0 = rng.randint(100, 5000)
        b1 = b0 + rng.randint(0, 3000)
        st = rng.choice([b0, b1, b0 - 1, b1 + 1, b0 - rng.randint(0, 300), rng.randint(b0, b1 + 1), b1 + rng.randint(0, 300), rng.randint(0, 9000)])
        en = None if rng.random() < 0.08 else st + rng.choice([0, 1, 1, rng.randint(1, 300), max(0, b0 - st), max(0, b0 - st - 1), max(0, b0 - st + 1)])
        unmapped = rng.random() < 0.08
        cases.append((prefix, chrom, name, unmapped, st, en, b0, b1))
    terms = [f"o_bool (in_region_named {cstr(p)} {cstr(c)} {cstr(nm)} {cbool(u)} {cz(st)} {common.copt(en, cz)} {cz(b0)} {cz(b1)})"
             for p, c, nm, u, st, en, b0, b1 in cases]
    vals = common.coq_eval(IMPORTS + ["InRegionProofs"], terms) if chk.model_available() else None
    # common.chr_prefix on random headers (bare / prefixed / both / neither / similar names) against InRegionProofs.chr_prefix
    from aldy.common import chr_prefix
    hcases = []
    for k in range(max(60, n // 4)):
        ch = rng.choice(["20", "1", "X", "22", "M"])
        pool = [ch, "chr" + ch, "1" + ch, ch + "1", "chr" + ch + "1", "chrchr" + ch, "Chr" + ch, "21", "chr21"]
        hdr = [x for x in pool if rng.random() < 0.35]
        rng.shuffle(hdr)
        hcases.append((ch, hdr))
    hvals = common.coq_eval(IMPORTS + ["InRegionProofs"], [f"o_str (chr_prefix {cstr(ch)} {clist(hdr, cstr)})" for ch, hdr in hcases]) \
        if chk.model_available() else None
    for k, (ch, hdr) in enumerate(hcases):
        im = chr_prefix(ch, hdr)
        case = {"chr": ch, "header": hdr}
        chk.case("chr-prefix-direct", case, nontrivial=bool(hdr), sample=case)
        chk.count("chr-prefix-direct", "bare" if ch in hdr else "prefixed" if "chr" + ch in hdr else "absent")
        if (ch in hdr or "chr" + ch in hdr) and im + ch not in hdr:
            chk.fail("ineligible", {"stream": "chr-prefix-direct"}, case, "the name looked for is a contig of the header", f"prefix {im!r}")
        if hvals is not None and common.dstr(hvals[k]) != im:
            chk.mismatch("chr_prefix", case, common.dstr(hvals[k]), im)
    for k, (p, c, nm, u, st, en, b0, b1) in enumerate(cases):
        r = Rec()
        r.reference_id = -1 if u else 0
        r.reference_name = None if u else nm
        r.reference_start, r.reference_end = st, en
        im = bool(_in_region(GRange(c, b0, b1), r, p))
        exact = (not u) and nm == p + c and en is not None and (st <= b0 <= en or b0 <= st <= b1)       # the statement, spelled out
        case = {"prefix": p, "chr": c, "contig": nm, "unmapped": u, "start": st, "end": en, "region": [b0, b1]}
        chk.case("in-region-direct", case, nontrivial=(nm != p + c and not u) or en is not None, sample=case)
        chk.count("in-region-direct", "same-name" if nm == p + c else "name-ends-with" if nm.endswith(p + c) else "name-starts-with" if nm.startswith(p + c) else "other-name")
        if im != exact:
            chk.fail("ineligible", {"stream": "in-region-direct", "contig": "exact" if nm == p + c else "similar"}, case,
                     f"a record on contig {nm!r} [{st}, {en}] against {p + c!r} [{b0}, {b1}]: belongs to the locus = {exact}", f"_in_region = {im}")
        if vals is not None and bool(vals[k]) != im:
            chk.mismatch("in_region_named", case, bool(vals[k]), im)


def shipped_side_conditions(chk):
    import glob
    import aldy
    d = os.path.join(os.path.dirname(aldy.__file__), "resources", "genes")
    from aldy.gene import Gene
    bad = []
    for f in sorted(glob.glob(d + "/*.yml")):
        for genome in ("hg19", "hg38"):
            g = Gene(f, genome=genome)
            multi = {m.pos: m.op for _, a in g.alleles.items() for m in a.func_muts if ">" in m.op and len(m.op) > 3}
            class _C:
                pass
            c = _C()
            c.multi = multi
            if not multi_wf(c):
                bad.append((os.path.basename(f), genome))
            chk.count("side-conditions", "gene-builds-checked")
    if bad:
        chk.broken.append(("obligation", "side-condition:multi_wf", f"shipped genes with overlapping multi-substitutions: {bad}"))


def replay_case(chk, c):
    """re-run one stored case (corpus or replay file) through the level it came from"""
    if "contig" in c and "region" in c:          # stream in-region-direct
        from aldy.sam import _in_region
        from aldy.common import GRange

        class Rec:
            pass
        r = Rec()
        r.reference_id = -1 if c["unmapped"] else 0
        r.reference_name = None if c["unmapped"] else c["contig"]
        r.reference_start, r.reference_end = c["start"], c["end"]
        b0, b1 = c["region"]
        im = bool(_in_region(GRange(c["chr"], b0, b1), r, c["prefix"]))
        exact = (not c["unmapped"]) and c["contig"] == c["prefix"] + c["chr"] and c["end"] is not None and \
            (c["start"] <= b0 <= c["end"] or b0 <= c["start"] <= b1)
        chk.case("in-region-direct", c, nontrivial=True, sample=c)
        if im != exact:
            chk.fail("ineligible", {"stream": "in-region-direct", "contig": "exact" if c["contig"] == c["prefix"] + c["chr"] else "similar"}, c,
                     f"belongs to the locus = {exact}", f"_in_region = {im}")
        return
    if "header" in c and "chr" in c:             # stream chr-prefix-direct
        from aldy.common import chr_prefix
        im = chr_prefix(c["chr"], c["header"])
        chk.case("chr-prefix-direct", c, nontrivial=True, sample=c)
        if (c["chr"] in c["header"] or "chr" + c["chr"] in c["header"]) and im + c["chr"] not in c["header"]:
            chk.fail("ineligible", {"stream": "chr-prefix-direct"}, c, "the name looked for is a contig of the header", f"prefix {im!r}")
        return
    ctx = Ctx(yaml_text=c["gene"], name=c.get("gene_name", "GENX"), ident="g0")
    lvl = c["level"]
    if lvl == "parse":
        rec = c["read"]
        rec["cigar"] = [tuple(x) for x in rec["cigar"]]
        prior = ({p: [tuple(q) for q in l] for p, l in c["prior"][0]}, {(p, op): [tuple(q) for q in l] for p, op, l in c["prior"][1]})
        im = impl_parse(ctx, rec, prior)
        exp = spec_read_obs(ctx, rec)[0]
        got = Counter()
        for p, op, q, k in im.get("obs", []):
            got[((p, op), (Fraction(q[0]), Fraction(q[1])))] += k
        if "error" in im or got != exp:
            chk.fail("depth" if "error" in im or _depths(got) != _depths(exp) else "quality", {"level": "parse"}, c, canon_obs_counter(exp), im)
    elif lvl == "file":
        with tempfile.TemporaryDirectory() as d:
            path = os.path.join(d, "r." + c["format"])
            for r in c["reads"]:
                r["cigar"] = [tuple(x) for x in r["cigar"]]
            write_reads(path, c["reads"], c["format"])
            recs = decode_records(path, CHROM)
            sample, im = impl_file(ctx, path)
            check_file_predicate(chk, ctx, recs, sample, c, {"level": "file", "format": c["format"]})
            keep = [r for r, rec in zip(write_order(c["reads"], c["format"]), recs) if spec_eligible(ctx, rec)]
            p2 = os.path.join(d, "e." + c["format"])
            write_reads(p2, keep, c["format"])
            if impl_file(ctx, p2)[1] != im:
                chk.fail("ineligible", {"level": "file"}, c, "equal", "differs")
    elif lvl == "table":
        from aldy.gene import Mutation
        norm = {p: [tuple(q) for q in l] for p, l in c["norm"]}
        muts = {(p, op): [tuple(q) for q in l] for p, op, l in c["muts"]}
        indel = {(p, op): v for p, op, v in c["indel"]}
        cov = ctx.bare(indel_sites=indel)._make_coverage(norm, muts)
        for p in set(norm) | {p for p, _ in muts}:
            want = len(norm.get(p, [])) + sum(len(l) for (pp, op), l in muts.items() if pp == p and not op.startswith("ins"))
            if cov.total(p) != want:
                chk.fail("depth", {"level": "table"}, c, want, cov.total(p))


def _depths(cnt):
    d = Counter()
    for ((p, op), _q), n in cnt.items():
        if not op.startswith("ins"):
            d[p] += n
    return +d


def replay(chk, path):
    r = json.load(open(path))
    common.quiet_aldy()
    replay_case(chk, r["case"])
    for f in chk.failures:
        print("still failing:", f["clause"], json.dumps(f["expected"], default=str)[:300], "observed", json.dumps(f["observed"], default=str)[:300])
    print("REPLAY", "FAILS" if chk.failures else "passes")
    return 1 if chk.failures else 0
