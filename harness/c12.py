"""C12 — result files state exactly the reported solutions.

Correspondence: text written by aldy.diplotype.write_decomposition / write_vcf (directly, or through the real
                aldy.genotype.genotype output path with the three stages and the sample stubbed) vs coq/theories/Writers.v
                (decomp_file / vcf_file under the VCF variant the tree implements), character by character; the model's
                parsers (parse_decomp / parse_vcf) vs the harness parsers on the same text.
Predicate     : on the implementation's text only, parsed by the harness parser, against what each copy is reported to
                carry (definition + added - missing): clauses decomp-rows, decomp-roundtrip, vcf-gt, vcf-ma-mi, vcf-pos,
                vcf-ref-alt, vcf-roundtrip."""
import io, json, os, re, shutil, tempfile
from collections import Counter
import common
from common import cz, cstr, clist, cpair, copt, cbool
import c11

IMPORTS = ["Base", "Consts", "NatSort", "Diplotype", "Writers"]
_GEN = {}


# ------------------------------------------------------------------ genes
def gen_gene(seed):
    """a generated, sequence-consistent database (shared generator gendb.py) loaded with the real Gene class"""
    if seed not in _GEN:
        import random, gendb
        from aldy.gene import Gene
        d = tempfile.mkdtemp(prefix="c12_", dir=common.SCRATCH)
        path, desc = gendb.write_db(d, random.Random(seed), name="GEN", length=600, strands="+-", pseudogene=True,
                                    n_alleles=8, kinds={"snp": 4, "mnp": 2, "ins": 3, "del": 3}, deletion=True,
                                    fusions=("left",), tandems=True, simulation_friendly=False)
        gi = c11.GInfo("GEN", Gene(path, genome="hg19"))
        gi.path, gi.dir = path, d
        _GEN[seed] = gi
    return _GEN[seed]


def gene_of(case):
    if case["gene"] == "GEN":
        return gen_gene(case["gen_seed"])
    gi = c11.load_gene(case["gene"])
    if not hasattr(gi, "path"):
        from aldy.common import script_path
        gi.path = script_path(c11.GENES[case["gene"]])
    return gi


def cleanup():
    for gi in _GEN.values():
        shutil.rmtree(gi.dir, ignore_errors=True)
    _GEN.clear()


class Cov:
    """stands in for aldy.coverage.Coverage: the writers only index it with a Mutation"""

    def __init__(self, table):
        self.table = table

    def __getitem__(self, m):
        return self.table.get((m.pos, m.op), 0)

    def average_coverage(self):
        return 30.0


def cov_of(case):
    return Cov({(p, o): v for p, o, v in case["coverage"]})


# ------------------------------------------------------------------ implementation
def build_minors(gi, case, gene=None):
    """the MinorSolution objects of a case, diplotype set by the real estimate_diplotype"""
    from aldy.diplotype import estimate_diplotype
    out = []
    g = gene or gi.gene
    for k, sol in enumerate(case["sols"]):
        gi2 = gi if gene is None else c11.GInfo(gi.key, gene)
        ms = c11.build_solution(gi2, sol, case["display"])
        ms.score = 0.0025 * k
        estimate_diplotype(g, ms)
        out.append(ms)
    return out


def catalogue_snapshot(gene):
    return {an: (sorted(a.func_muts), {mn: sorted(mi.neutral_muts) for mn, mi in a.minors.items()}) for an, a in gene.alleles.items()}


def impl_direct(gi, case):
    """decomposition of every solution, then the VCF, in the same process on the same Gene object; the catalogue is
    photographed before and after (the writers must not change func_muts / neutral_muts in place)"""
    from aldy.diplotype import write_decomposition, write_vcf
    minors = build_minors(gi, case)
    cov = cov_of(case)
    res = {"dipl": [[list(h) for h in m.diplotype] for m in minors]}
    involved = {a["major"] for s in case["sols"] for a in s}
    before = {an: v for an, v in catalogue_snapshot(gi.gene).items() if an in involved} if len(gi.gene.alleles) > 50 else catalogue_snapshot(gi.gene)
    f = io.StringIO()
    try:
        for i, m in enumerate(minors):
            write_decomposition(case["sample"], gi.gene, cov, i + 1, m, f)
        res["decomp"] = f.getvalue()
    except AssertionError:
        res["decomp"] = None
    f = io.StringIO()
    try:
        write_vcf(case["sample"], gi.gene, cov, minors, f)
        res["vcf"] = f.getvalue()
    except AssertionError:
        res["vcf"] = None
    after = catalogue_snapshot(gi.gene)
    res["catalogue_changed"] = sorted(an for an, v in before.items() if after[an] != v)
    return res


def impl_genotype(gi, case):
    """through aldy.genotype.genotype(..., output_file=...): real dispatch, headers and writers; sample and stages stubbed"""
    import aldy.genotype as G
    from aldy.solutions import CNSolution, MajorSolution
    holder = {}

    class FakeSample:
        def __init__(self, gene, profile, *a, **k):
            self.name = case["sample"]
            self.coverage = cov_of(case)
            self.profile = profile
            self.is_long_read = False
            holder["gene"] = gene

    def fake_cn(gene, profile, coverage, **k):
        return [CNSolution(gene, 0, ["1", "1"])]

    def fake_major(gene, coverage, cn_sol, *a, **k):
        return [MajorSolution(0, Counter(), cn_sol, [])]

    def fake_minor(gene, coverage, major_sols, *a, **k):
        holder["minors"] = build_minors(gi, case, gene=gene)
        return holder["minors"]

    old = (G.sam.Sample, G.sam.detect_genome, G.cn.estimate_cn, G.major.estimate_major, G.minor.estimate_minor)
    G.sam.Sample, G.sam.detect_genome = FakeSample, (lambda p: ("bam", "hg19"))
    G.cn.estimate_cn, G.major.estimate_major, G.minor.estimate_minor = fake_cn, fake_major, fake_minor
    res = {}
    try:
        with tempfile.TemporaryDirectory(dir=common.SCRATCH) as d:
            for kind, ext in (("decomp", "aldy"), ("vcf", "vcf")):
                p = os.path.join(d, "out." + ext)
                try:
                    with open(p, "w") as f:
                        G.genotype(gi.path, gi.path, None, f, cn_solution=["1", "1"], genome="hg19", gap=1.0,
                                   display_format=case["display"])
                    res[kind] = open(p).read()
                except AssertionError:
                    res[kind] = None
            res["dipl"] = [[list(h) for h in m.diplotype] for m in holder["minors"]]
    finally:
        G.sam.Sample, G.sam.detect_genome, G.cn.estimate_cn, G.major.estimate_major, G.minor.estimate_minor = old
    return res


# ------------------------------------------------------------------ model terms
def all_muts(case):
    s = set()
    for sol in case["sols"]:
        for a in sol:
            s.update(tuple(m) for m in a["def"] + a["added"] + a["missing"])
    return sorted(s)


def term_of(gi, case, impl, sw):
    g = gi.gene
    from aldy.gene import Mutation
    muts = all_muts(case)
    cov = cov_of(case)
    idx = {m: i for i, m in enumerate(muts)}
    lets = []
    for m, i in idx.items():
        mm = Mutation(*m)
        lets.append(f"let v{i} := Build_wvar {c11.cvariant(gi, m)} {cstr(str(cov[mm]))} {copt(g.get_functional(mm), cstr)} in")
    refpos = sorted({p for (pos, op) in muts for p in range(pos - 1, pos + len(op) + 1)})
    ref = clist(refpos, lambda p: cpair(cz(p), cz(ord(g[p]))))

    def ccopy(a):
        alt = g.alleles[a["major"]].minors[a["minor"]].alt_name or "" if a["minor"] else ""
        vs = lambda l: clist(l, lambda m: f"v{idx[tuple(m)]}")
        return f"(Build_wcopy {cstr(a['major'])} {cstr(a['minor'])} {cstr(alt)} {vs(a['def'])} {vs(a['added'])} {vs(a['missing'])})"

    sols = clist(list(zip(case["sols"], impl["dipl"])),
                 lambda sd: f"(Build_wsol {clist(sd[0], ccopy)} {clist(sd[1], lambda h: clist(h, cz))} {cbool(case['display'])})")
    from aldy.version import __version__ as version
    wg = f"(Build_wgene {cstr(g.name)} {cstr(str(g.chr))} {cstr(version)} {c11.cgene(gi)} {ref})"
    swt = "(Build_vsw %s %s %s)" % tuple(sw)
    sample = cstr(case["sample"])
    if case["route"] == "genotype":
        dtext = f"decomp_file {sample} g sols"
    else:
        dtext = (f"bind (decomp_sols {sample} g 1 sols) (fun ls => Ok (lines_text (filter (fun l => negb (is_comment l)) ls)))")
    body = (f"let g := {wg} in let sols := {sols} in let dt := {dtext} in let vt := vcf_file {swt} {sample} g sols in "
            "OL [o_text dt; o_opt (o_list o_drow) (match dt with Ok t => parse_decomp t | Error _ => None end); "
            "o_text vt; o_opt (o_list o_vrow) (match vt with Ok t => parse_vcf t | Error _ => None end); "
            f"o_bool (decomp_clean {sample} g sols); o_bool (vcf_clean {sample} g sols)]")
    return "(" + "\n".join(lets) + "\n" + body + ")"


def d_text(v):
    return common.dstr(v[1]) if v[0] == 0 else None


def d_drows(v):
    if not v:
        return None
    out = []
    for r in v[0]:
        var = None
        if r[7]:
            p, ty, cov, eff, rs = r[7][0]
            var = (p, common.dstr(ty), common.dstr(cov), common.dstr(eff), common.dstr(rs))
        out.append((common.dstr(r[0]), common.dstr(r[1]), r[2], common.dstr(r[3]), common.dstr(r[4]), r[5], common.dstr(r[6]), var))
    return out


def d_vrows(v):
    if not v:
        return None
    return [(r[0], common.dstr(r[1]), common.dstr(r[2]), common.dstr(r[3]),
             [([bool(b) for b in c[0]], common.dstr(c[1]), [common.dstr(x) for x in c[2]], [common.dstr(x) for x in c[3]])
              for c in r[4]]) for r in v[0]]


# ------------------------------------------------------------------ harness parsers
def parse_decomp(text):
    rows = []
    for ln in text.split("\n")[:-1]:
        if ln.startswith("#"):
            continue
        f = ln.split("\t")
        if len(f) < 12:
            return None
        var = None if f[7] == "" else (int(f[7]), f[8], f[9], f[10], f[11])
        rows.append((f[0], f[1], int(f[2]), f[3], f[4], int(f[5]), f[6], var))
    return rows


def parse_vcf(text, lenient=False):
    """strict (default) mirrors Writers.parse_vcf; lenient reads the empty GT/MA/MI of a solution without copies as no copies"""
    rows, cols = [], None
    for ln in text.split("\n")[:-1]:
        if ln.startswith("#CHROM"):
            cols = ln.split("\t")[9:]
        if ln.startswith("#"):
            continue
        f = ln.split("\t")
        cells = []
        for c in f[9:]:
            if c.count(":") != 3:
                return None, cols
            gt, dp, ma, mi = c.split(":")
            if lenient and gt == "" and ma == "" and mi == "":
                cells.append(([], dp, [], []))
                continue
            if any(b not in ("0", "1") for b in gt.split("|")):
                return None, cols
            cells.append(([b == "1" for b in gt.split("|")], dp, ma.split(","), mi.split(",")))
        rows.append((int(f[1]), f[2], f[3], f[4], cells))
    return rows, cols


def mut_of_rec(pos, ref, alt):
    if len(ref) == len(alt):
        return (pos - 1, ref + ">" + alt)
    if len(ref) == 1:
        return (pos - 1, "ins" + alt[1:])
    return (pos, "del" + ref[1:])


# ------------------------------------------------------------------ property predicate (implementation text only)
def carried(a):
    return sorted((set(map(tuple, a["def"])) | set(map(tuple, a["added"]))) - set(map(tuple, a["missing"])))


def kind_of(op):
    if op.startswith("ins"):
        return "insertion"
    if op.startswith("del"):
        return "deletion"
    return "snp" if re.fullmatch(r"[ACGTN]>[ACGTN]", op) else "mnp"


def spelled(g, pos, op):
    """(POS, REF, ALT) that spell the variant against the reference in VCF 4.2 (left anchor for indels)"""
    if op.startswith("ins"):
        return (pos + 1, g[pos], g[pos] + op[3:])
    if op.startswith("del"):
        return (pos, g[pos - 1] + op[3:], g[pos - 1])
    x, y = op.split(">")
    fill = lambda t: "".join(g[pos + k] if ch == "." else ch for k, ch in enumerate(t))
    return (pos + 1, fill(x), fill(y))


def predicate(gi, case, impl, majors_shown):
    """-> list of (clause, shape, detail).  `majors_shown[k]` = diplotype string the solution is reported under."""
    g = gi.gene
    cov = cov_of(case)
    from aldy.gene import Mutation
    bad = []
    sols = case["sols"]
    want = [[carried(a) for a in sol] for sol in sols]
    # ---------------- decomposition
    if impl["decomp"] is not None:
        rows = parse_decomp(impl["decomp"])
        if rows is None:
            bad.append(("decomp-rows", "unparsable", ""))
        else:
            exp = []
            for k, sol in enumerate(sols):
                minors = ";".join(a["minor"] for a in sol if a["minor"])
                for ci, a in enumerate(sol):
                    head = (case["sample"], g.name, k + 1, majors_shown[k], minors, ci, a["minor"])
                    if not want[k][ci]:
                        exp.append(head + (None,))
                    for (p, o) in want[k][ci]:
                        info = g.mutations.get((p, o))
                        eff = (info[0] if info and info[0] else "none")
                        exp.append(head + ((p, o, str(cov[Mutation(p, o)]), eff, info[1] if info else "-"),))
            if rows != exp:
                first = next((i for i, (a, b) in enumerate(zip(rows, exp)) if a != b), min(len(rows), len(exp)))
                bad.append(("decomp-rows", "row-content", f"row {first}: {rows[first] if first < len(rows) else None} expected "
                                                           f"{exp[first] if first < len(exp) else None}"))
            rec = {}
            for r in rows:
                rec.setdefault((r[2], r[5]), [])
                if r[7] is not None:
                    rec[(r[2], r[5])].append((r[7][0], r[7][1]))
            wantrec = {(k + 1, ci): want[k][ci] for k in range(len(sols)) for ci in range(len(sols[k]))}
            if {k: sorted(v) for k, v in rec.items()} != wantrec:
                bad.append(("decomp-roundtrip", "carried-sets", f"{rec} expected {wantrec}"))
    # ---------------- VCF
    if impl["vcf"] is not None:
        rows, cols = parse_vcf(impl["vcf"], lenient=True)
        if rows is None or cols is None or len(cols) != len(sols):
            colon = sorted({a["major"] for sol in sols for a in sol if ":" in a["major"]})
            return bad + [("vcf-roundtrip", "allele-name-with-colon" if colon else "unparsable",
                           f"a sample cell does not have the four fields GT:DP:MA:MI (called alleles {colon})")]
        keys = sorted({m for sol in sols for a in sol for m in set(map(tuple, a["def"])) | set(map(tuple, a["added"]))})
        union = sorted({m for w in want for c in w for m in c})
        if len(rows) != len(keys) and len(rows) != len(union):
            bad.append(("vcf-roundtrip", "record-count", f"{len(rows)} records for {len(keys)} variants"))
        shapes = {"vcf-gt": {}, "vcf-ma-mi": {}, "vcf-pos": {}, "vcf-ref-alt": {}, "vcf-roundtrip": {}}
        # records are written in sorted order of the variants: identify record j with the j-th key
        recs = dict(zip(keys if len(rows) == len(keys) else union, rows))
        for m, (pos, rid, ref, alt, cells) in recs.items():
            kd = kind_of(m[1])
            sp = spelled(g, *m)
            if (ref, alt) != sp[1:]:
                shapes["vcf-ref-alt"].setdefault(kd, f"{m}: REF={ref!r} ALT={alt!r}, spelled {sp}")
            # one-based coordinate of the first reference base REF stands for (anchored deletion: the base before)
            anchored = kd == "deletion" and len(ref) == len(m[1]) - 3 + 1 and ref != "."
            if pos != (m[0] if anchored else m[0] + 1):
                shapes["vcf-pos"].setdefault(kd, f"{m}: POS={pos}")
            for k, sol in enumerate(sols):
                bits, dp, ma, mi = cells[k]
                for ci, a in enumerate(sol):
                    has = m in want[k][ci]
                    got = bits[ci] if ci < len(bits) else None
                    if len(bits) != len(sol) or got != has:
                        if tuple(m) in set(map(tuple, a["missing"])) and got:
                            shape = "lost-variant"
                        elif got and not has and any(kk != k and ci < len(s2) and m in (set(map(tuple, s2[ci]["def"])) | set(map(tuple, s2[ci]["added"])))
                                                     for kk, s2 in enumerate(sols)):
                            shape = "multi-solution-differing"
                        else:
                            shape = "other"
                        shapes["vcf-gt"].setdefault(shape, f"{m} solution {k} copy {ci}: GT bit {got}, carried {has}")
                    wma = "*" + a["major"] if has else "-"
                    wmi = "*" + a["minor"] if has else "-"
                    if len(ma) != len(sol) or len(mi) != len(sol) or ma[ci] != wma or mi[ci] != wmi:
                        gotnamed = ci < len(ma) and ma[ci] != "-"
                        if tuple(m) in set(map(tuple, a["missing"])) and gotnamed:
                            shape = "lost-variant"
                        elif gotnamed and not has and any(kk != k and ci < len(s2) and m in (set(map(tuple, s2[ci]["def"])) | set(map(tuple, s2[ci]["added"])))
                                                          for kk, s2 in enumerate(sols)):
                            shape = "multi-solution-differing"
                        else:
                            shape = "other"
                        shapes["vcf-ma-mi"].setdefault(shape, f"{m} solution {k} copy {ci}: MA={ma} MI={mi}")
                if dp != str(cov[Mutation(*m)]):
                    shapes["vcf-gt"].setdefault("dp", f"{m}: DP={dp}")
        # round trip: per solution and copy, the variants with GT=1, read back from POS/REF/ALT alone
        for k, sol in enumerate(sols):
            if cols[k] != f"{case['sample']}:{k}:{majors_shown[k]}":
                shapes["vcf-roundtrip"].setdefault("column-name", f"{cols[k]!r}")
            for ci, a in enumerate(sol):
                back = sorted(mut_of_rec(pos, ref, alt) for (pos, rid, ref, alt, cells) in rows
                              if ci < len(cells[k][0]) and cells[k][0][ci])
                # gapped substitutions are spelled with the reference base in the gap
                wantb = sorted((spelled(g, *m)[0] - 1, spelled(g, *m)[1] + ">" + spelled(g, *m)[2]) if kind_of(m[1]) == "mnp" else m
                               for m in want[k][ci])
                if back != wantb:
                    lost = set(map(tuple, a["missing"]))
                    for m in sorted(set(back) ^ set(wantb)):
                        if m in wantb:                      # carried, but not recovered from the file
                            sh = kind_of(m[1]) if kind_of(m[1]) != "snp" else "other"
                        elif m in lost:
                            sh = "lost-variant"
                        elif m in keys:
                            other = any(kk != k and ci < len(s2) and m in (set(map(tuple, s2[ci]["def"])) | set(map(tuple, s2[ci]["added"])))
                                        for kk, s2 in enumerate(sols))
                            sh = "multi-solution-differing" if other else "other"
                        else:
                            sh = "unreadable-record"
                        shapes["vcf-roundtrip"].setdefault(sh, f"solution {k} copy {ci}: read back {back}, carried {wantb}")
        for clause, d in shapes.items():
            for shape, detail in d.items():
                bad.append((clause, shape, detail))
    return bad


# ------------------------------------------------------------------ generation
def rand_copy(rng, gi, major=None):
    g = gi.gene
    major = major or rng.choice(gi.majors)
    a = c11.rand_allele(rng, gi, major)
    al = g.alleles[major]
    a["def"] = [list(m) for m in sorted(al.func_muts | al.minors[a["minor"]].neutral_muts)]
    defs = set(map(tuple, a["def"]))
    # more added variants, indels among them, also novel ones that agree with the reference
    if rng.random() < 0.3:
        ind = [m for m in gi.muts if ">" not in m[1] or len(m[1]) != 3]
        for _ in range(rng.choice([1, 1, 2])):
            r = rng.random()
            if r < 0.5 and ind:
                m = rng.choice(ind)
            elif r < 0.75 and gi.muts:
                p = rng.choice(gi.muts)[0] + rng.choice([3, 5, 9])
                m = (p, "ins" + rng.choice(["A", "GG", "TCA"]))
            else:
                p = rng.choice(gi.muts)[0] + rng.choice([2, 4, 11])
                k = rng.choice([1, 2, 3])
                m = (p, "del" + g[p:p + k])
            m = (m[0], m[1])
            if m not in defs and list(m) not in a["added"] and "N" not in m[1]:
                a["added"].append(list(m))
    if a["def"] and rng.random() < 0.2:
        a["missing"] = [list(m) for m in rng.sample(sorted(defs), min(len(defs), rng.choice([1, 1, 2])))]
    a["added"] = [m for m in a["added"] if tuple(m) not in defs]
    return a


def multi_minor_majors(gi):
    return [m for m, a in gi.gene.alleles.items() if len(a.minors) > 1]


def rand_case(rng, gene, gen_seed=None, route=None, shape=None):
    case = {"gene": gene, "gen_seed": gen_seed}
    gi = gene_of(case)
    nsol = rng.choice([1, 2, 2, 3, 4])
    first = [rand_copy(rng, gi) for _ in range(rng.randint(1, 4))]
    if shape == "same-major" and multi_minor_majors(gi):
        # copies (and consecutive solutions) of one major allele that differ only in the minor allele
        mj = rng.choice(multi_minor_majors(gi))
        first = [rand_copy(rng, gi, mj) for _ in range(rng.randint(2, 4))]
    if shape == "twin-additions":
        # two copies of the SAME minor allele that carry DIFFERENT added variants of one multi-allelic database site (the alternative
        # bases share one dbSNP id, so the two copies print with the same label)
        g = gi.gene
        by = {}
        for m in gi.muts:
            if ">" in m[1] and len(m[1]) == 3:
                by.setdefault(m[0], []).append(tuple(m))
        multi = sorted(v for v in by.values() if len(v) >= 2)
        if multi:
            pair = rng.sample(rng.choice(multi), 2)
            ok = [mj for mj in gi.majors if not any(tuple(x)[0] == pair[0][0] for mi in g.alleles[mj].minors.values()
                                                    for x in (g.alleles[mj].func_muts | mi.neutral_muts))]
            if ok:
                mj = rng.choice(ok)
                a1 = rand_copy(rng, gi, mj)
                a2 = dict(a1)
                a1["added"], a2["added"] = [list(pair[0])], [list(pair[1])]
                a1["missing"], a2["missing"] = [], []
                first = [a1, a2] + [rand_copy(rng, gi) for _ in range(rng.choice([0, 0, 1]))]
    if shape == "no-copies":
        first = []
    sols = [first]
    for _ in range(nsol - 1):
        r = rng.random()
        if shape == "same-major" and multi_minor_majors(gi) and r < 0.7:
            mj = first[0]["major"]
            s = [rand_copy(rng, gi, mj) for _ in range(len(first))]
        elif r < 0.55 and any(sols):       # a neighbour of an earlier solution: one copy replaced / changed
            s = [dict(a) for a in rng.choice([x for x in sols if x])]
            i = rng.randrange(len(s))
            s[i] = rand_copy(rng, gi, s[i]["major"] if rng.random() < 0.5 else None)
            if rng.random() < 0.3 and len(s) < 4:
                s.append(rand_copy(rng, gi))
            elif rng.random() < 0.2 and len(s) > 1:
                s.pop(rng.randrange(len(s)))
            if rng.random() < 0.3:
                rng.shuffle(s)
        else:
            s = [rand_copy(rng, gi) for _ in range(rng.randint(1, 4))]
        sols.append(s)
    muts = sorted({tuple(m) for sol in sols for a in sol for m in a["def"] + a["added"] + a["missing"]})
    case.update({"sols": sols, "sample": rng.choice(["NA10860", "S-1", "sample.x", "HG 1"]),
                 "display": rng.random() < 0.12,
                 "coverage": [[p, o, rng.choice([0, 1, 7, 14, 33, 120, 12.5])] for p, o in muts if rng.random() < 0.9],
                 "route": route or ("genotype" if (gene != "CYP2D6" and rng.random() < 0.5) else "direct")})
    return case


def witness_cases():
    """the three replayable witnesses of DESIGN.md section 5 item 4, on the TOY gene (also used to detect the variant)"""
    c = lambda major, minor, defs, added=(), missing=(): {"major": major, "minor": minor, "def": [list(m) for m in defs],
                                                          "added": [list(m) for m in added], "missing": [list(m) for m in missing]}
    t114, dAC, iTT = (100000114, "T>A"), (100000110, "delAC"), (100000118, "insTT")
    base = {"gene": "TOY", "gen_seed": None, "sample": "W", "display": False, "route": "direct",
            "coverage": [[100000114, "T>A", 9], [100000110, "delAC", 4], [100000118, "insTT", 5]]}
    return {
        "shared": {**base, "sols": [[c("1", "1.001", []), c("1", "1.001", [])], [c("1", "1.002", [t114]), c("1", "1.001", [])]]},
        "sub": {**base, "sols": [[c("1", "1.002", [t114], missing=[t114]), c("1", "1.002", [t114])]]},
        "indel": {**base, "sols": [[c("2", "2.001", [dAC, iTT]), c("1", "1.001", [])]]},
        # CYP2D6: the catalogue names the second *68 major allele "68:2" (gene.py collision rule)
        "colon": {"gene": "CYP2D6", "gen_seed": None, "sample": "W", "display": False, "route": "direct", "coverage": [],
                  "sols": [[c("68:2", "68.002", [], added=[(42522612, "C>G")]), c("1", "1.001", [])]]},
    }


def detect_variants():
    """which behaviour does the tree implement? replay each witness on the real writer"""
    gi = c11.load_gene("TOY")
    w = witness_cases()
    sw = []
    rows, _ = parse_vcf(impl_direct(gi, w["shared"])["vcf"])
    sw.append("AsShipped" if rows[0][4][0][0][0] else "Fixed")           # solution 0, copy 0 does not carry T>A
    rows, _ = parse_vcf(impl_direct(gi, w["sub"])["vcf"])
    sw.append("AsShipped" if rows[0][4][0][0][0] else "Fixed")           # copy 0 lost T>A
    rows, _ = parse_vcf(impl_direct(gi, w["indel"])["vcf"])
    sw.append("AsShipped" if any(r[2] in ("i", ".") for r in rows) else "Fixed")
    return sw


# ------------------------------------------------------------------ evaluation
def evaluate(chk, cases, sw):
    terms, impls, gis = [], [], []
    for c in cases:
        gi = gene_of(c)
        im = impl_genotype(gi, c) if c["route"] == "genotype" else impl_direct(gi, c)
        gis.append(gi)
        impls.append(im)
        terms.append(term_of(gi, c, im, sw))
    vals = common.coq_eval(IMPORTS, terms, shard=12)
    for c, gi, im, v in zip(cases, gis, impls, vals):
        stream = f"{c['gene']}-{c['route']}"
        shape = {"sols": len(c["sols"]), "copies": [len(s) for s in c["sols"]]}
        kinds = Counter(kind_of(m[1]) for s in c["sols"] for a in s for m in carried(a))
        differing = len({json.dumps(s, sort_keys=True) for s in c["sols"]}) > 1
        chk.case(stream, c, nontrivial=bool(kinds), sample={"gene": c["gene"], "route": c["route"], **shape,
                                                             "vcf_head": (im["vcf"] or "").split("\n")[9:12]})
        chk.count(stream, f"solutions={len(c['sols'])}")
        for k in kinds:
            chk.count(stream, f"carries-{k}")
        chk.count(stream, "differing-solutions" if differing else "identical-or-single")
        if any(a["missing"] for s in c["sols"] for a in s):
            chk.count(stream, "with-lost-variants")
        m_dt, m_drows, m_vt, m_vrows = d_text(v[0]), d_drows(v[1]), d_text(v[2]), d_vrows(v[3])
        chk.count(stream, "theorem-hypothesis decomp_clean " + ("met" if v[4] else "not met"))
        chk.count(stream, "theorem-hypothesis vcf_clean " + ("met" if v[5] else "not met"))
        if im.get("catalogue_changed"):
            chk.mismatch("writers-leave-the-catalogue-unchanged", c, "pure functions", im["catalogue_changed"])
        if any(not s for s in c["sols"]):
            chk.count(stream, "has-solution-without-copies")
        if m_dt != im["decomp"]:
            chk.mismatch("write_decomposition", c, first_diff(m_dt, im["decomp"]), None)
        if m_vt != im["vcf"]:
            chk.mismatch("write_vcf", c, first_diff(m_vt, im["vcf"]), None)
        if im["decomp"] is not None and m_drows != parse_decomp(im["decomp"]):
            chk.mismatch("parse_decomp", c, str(m_drows)[:600], str(parse_decomp(im["decomp"]))[:600])
        if im["vcf"] is not None:
            hv = parse_vcf(im["vcf"])[0]
            if m_vrows != hv:
                chk.mismatch("parse_vcf", c, str(m_vrows)[:600], str(hv)[:600])
        # the property, on the implementation's text
        minors = build_minors(gi, c)
        shown = [m.get_major_diplotype().replace(" ", "") for m in minors]
        for clause, shp, detail in predicate(gi, c, im, shown):
            chk.fail(clause, {"gene": c["gene"], "route": c["route"], "clause-shape": shp, "solutions": len(c["sols"])},
                     c, detail[:1500], {"vcf": (im["vcf"] or "")[-3000:] if clause.startswith("vcf") else None,
                                        "decomp": (im["decomp"] or "")[-3000:] if clause.startswith("decomp") else None})


def first_diff(a, b):
    if a is None or b is None:
        return {"model": None if a is None else "text", "implementation": None if b is None else "text"}
    i = next((k for k, (x, y) in enumerate(zip(a, b)) if x != y), min(len(a), len(b)))
    return {"at": i, "model": a[max(0, i - 80):i + 80], "implementation": b[max(0, i - 80):i + 80]}


def run(chk):
    chk.rule = ("a case = 1-4 solutions x 1-4 allele copies on TOY, CYP2D6 or a generated sequence-consistent database (SNP, MNP, "
                "insertions, deletions, fusion, both strands), each copy with catalogue minor allele, added variants (catalogued, "
                "novel, indels) and lost variants; later solutions are neighbours of earlier ones (one copy changed) or independent; "
                "written directly or through genotype(..., output_file=...) with stubbed stages; first the three replayable "
                "witnesses; non-trivial = at least one copy carries a variant; distinct = distinct case data")
    chk.extra_trusted = ["harness parsers for the two text formats (compared with the model's parsers on every case)",
                         "Gene catalogue lookups and the Coverage stub are inputs of the model (position, change, read support, "
                         "effect, dbSNP id per variant); gene[pos] gives the reference base for the REF/ALT spelling"]
    chk.assumptions = ["theorems: fields contain no TAB / newline / ':' '|' ',' where the format splits on them; variant operations "
                       "are X>Y (equal lengths), insX, delX with non-empty X"]
    chk.build()
    if not chk.model_available():
        chk.notes.append("[C12] model did not build; nothing evaluated")
        return
    quick = chk.tier == "quick"
    rng = chk.rng
    try:
        sw = detect_variants()
        chk.notes.append(f"[C12] VCF writer variant implemented by the tree: shared={sw[0]} subtract_missing={sw[1]} indel_ref_alt={sw[2]}")
        cases = list(witness_cases().values())
        corpus = os.path.join(common.VERIF, "corpus", "C12.json")
        if os.path.exists(corpus):
            cases += json.load(open(corpus))
        n = {"TOY": 60, "CYP2D6": 25, "GEN": 60} if quick else {"TOY": 600, "CYP2D6": 250, "GEN": 900}
        seeds = [rng.randrange(10 ** 6) for _ in range(4 if quick else 20)]
        for gene, cnt in n.items():
            for k in range(cnt):
                shape = "same-major" if k % 6 == 1 else ("no-copies" if k % 20 == 7 else ("twin-additions" if k % 6 == 3 else None))
                cases.append(rand_case(rng, gene, gen_seed=seeds[k % len(seeds)] if gene == "GEN" else None, shape=shape))
        evaluate(chk, cases, sw)
        tab = Counter((f["clause"], f["desc"].get("clause-shape")) for f in chk.failures)
        if tab:
            chk.notes.append("[C12] property-predicate failures on the implementation's files (clause/shape: cases): "
                             + ", ".join(f"{c}/{s}: {n}" for (c, s), n in sorted(tab.items())))
    finally:
        cleanup()


def replay(chk, path):
    r = json.load(open(path))
    c = r["case"]
    chk.build()
    if "sols" not in c:
        print("REPLAY: no input in this replay file (broken obligation / correspondence)")
        return 1
    try:
        sw = detect_variants()
        evaluate(chk, [c], sw)
    finally:
        cleanup()
    want = r.get("clause")
    hits = [f for f in chk.failures if want is None or f["clause"] == want]
    for f in hits:
        print("still failing:", f["clause"], f["desc"].get("clause-shape"), str(f["expected"])[:300])
    for k, n, d in chk.broken:
        print("BROKEN", k, n)
    bad = bool(hits) or bool(chk.broken)
    print("REPLAY", "FAILS" if bad else "passes")
    return 1 if bad else 0
