"""C09 — the star-allele catalogue is a consistent, build-independent partition.

Correspondence: aldy.gene.Gene(...) (.regions, .mutations, .alleles, .cn_configs, .removed, get_allele, has_coverage, region_at)
                vs  Catalogue.load (coq/theories/Catalogue.v) on the same decoded database, all 38 x 2 shipped and generated tables.
Predicate     : the clauses of the statement evaluated in Python on the loaded Gene objects only (no model output):
                reachable-one-major, major-distinct, partial-distinct, core-split, minor-distinct, config-exists, partial-content,
                build-independent.  The same clauses are re-evaluated by the Gallina predicates of Catalogue.v on the
                implementation's Gene serialised as a Catalogue.catalogue value."""
import json, os, re, sys, tempfile
import common
from common import cz, cstr, clist, cpair, cbool, copt
import c08

IMPORTS = ["Base", "Consts", "NatSort", "Coord", "Catalogue"]
KINDS = {"DEFAULT": 0, "LEFT_FUSION": 1, "RIGHT_FUSION": 2, "DELETION": 3, "CUSTOM": 4}


# ------------------------------------------------------------------------------------------------ terms
def c_ostr(x):
    return "None" if x is None else f"(Some {cstr(x)})"


def c_entry(e):
    pos, op, *info = e
    if isinstance(pos, str) and pos == "ignored":          # skipped by the loader whatever follows (shipped files keep old entries this way)
        op, info = str(op), [None if x is None else str(x) for x in info]
    if isinstance(pos, bool) or not isinstance(pos, (int, str)):
        raise ValueError(f"entry position {pos!r}")
    if not isinstance(op, str):
        raise ValueError(f"entry operation {op!r}")
    for x in info:
        if x is not None and not isinstance(x, str):
            raise ValueError(f"entry info {x!r}")
    cp = f"PInt {cz(pos)}" if isinstance(pos, int) else f"PStr {cstr(pos)}"
    return f"({cp}, {cstr(op)}, {clist(info, c_ostr)})"


def c_rawdb(yml, build):
    al = yml["alleles"]
    ras = []
    for k, a in al.items():
        if k in ("random", "groups"):
            continue
        lab = a.get("label", None)
        ras.append(f"{{| ra_key := {cstr(k)}; ra_label := {c_ostr(lab)}; ra_ignored := {cbool(bool(a.get('ignored', False)))}; "
                   f"ra_entries := {clist(a['mutations'], c_entry)} |}}")
    groups = al.get("groups", {}) or {}
    return ("{| rd_name := %s; rd_genes := %s; rd_regions := %s; rd_random := %s; rd_groups := %s; rd_alleles := %s |}" % (
        cstr(yml["name"]), clist(yml["structure"]["genes"], cstr),
        clist(yml["structure"]["regions"][build].items(), lambda kv: cpair(cstr(kv[0]), clist(kv[1], cz))),
        clist(al.get("random", []) or [], c_entry),
        clist(groups.items(), lambda kv: cpair(cstr(kv[0]), clist(kv[1], c_entry))),
        "[\n" + ";\n".join(ras) + "]"))


def c_mut(m):
    return cpair(cz(m[0]), cstr(m[1]))


def c_gene_catalogue(g):
    """the implementation's loaded Gene as a Catalogue.catalogue value"""
    regs = clist(g.regions, lambda d: clist(d.items(), lambda kv: f"({cstr(kv[0])}, ({cz(kv[1].start)}, {cz(kv[1].end)}))"))
    muts = clist(g.mutations.items(), lambda kv: f"({c_mut(kv[0])}, ({c_ostr(kv[1][0])}, {c_ostr(kv[1][1])}, {cz(kv[1][2])}, {cz(kv[1][3])}, {cstr(kv[1][4])}))")

    def minor(m):
        return f"{{| mi_name := {cstr(m.name)}; mi_alt := {c_ostr(m.alt_name)}; mi_muts := {clist(sorted(m.neutral_muts), c_mut)} |}}"

    def major(kv):
        k, a = kv
        return (f"({cstr(k)}, {{| ma_name := {cstr(a.name)}; ma_cfg := {cstr(a.cn_config)}; ma_core := {clist(sorted(a.func_muts), c_mut)}; "
                f"ma_minors := {clist(a.minors.values(), minor)} |}})")

    def conf(kv):
        k, c = kv
        kind = ["KDefault", "KLeft", "KRight", "KDeletion", "KCustom"][c.kind.value]
        cn = clist(c.cn, lambda d: clist(d.items(), lambda rv: cpair(cstr(rv[0]), cz(rv[1]))))
        return f"({cstr(k)}, {{| cc_cn := {cn}; cc_kind := {kind}; cc_alleles := {clist(sorted(c.alleles), cstr)} |}})"

    return (f"{{| cat_regions := {regs}; cat_muts := {muts}; cat_alleles := " + "[\n" + ";\n".join(major(kv) for kv in g.alleles.items()) + "]" +
            f"; cat_cfgs := {clist(g.cn_configs.items(), conf)}; cat_removed := {clist(g.removed.items(), lambda kv: cpair(cstr(kv[0]), cstr(kv[1])))} |}}")


# ------------------------------------------------------------------------------------------------ canonical forms
def canon_gene(g):
    return {
        "regions": [[(n, r.start, r.end) for n, r in d.items()] for d in g.regions],
        "muts": [(k[0], k[1], v[0], v[1], v[2], v[3], v[4]) for k, v in g.mutations.items()],
        "majors": [(k, a.name, a.cn_config, sorted(map(tuple, a.func_muts)),
                    [(m.name, m.alt_name, sorted(map(tuple, m.neutral_muts))) for m in a.minors.values()]) for k, a in g.alleles.items()],
        "cfgs": [(k, c.kind.value, [list(d.items()) for d in c.cn], sorted(c.alleles)) for k, c in g.cn_configs.items()],
        "removed": list(g.removed.items()),
    }


def dmut(v):
    return (v[0], common.dstr(v[1]))


def canon_model(val):
    regs, muts, majors, cfgs, removed = val
    return {
        "regions": [[(common.dstr(r[0]), r[1], r[2]) for r in g] for g in regs],
        "muts": [(m[0], common.dstr(m[1]), common.dopt(m[2], common.dstr), common.dopt(m[3], common.dstr), m[4], m[5], common.dstr(m[6])) for m in muts],
        "majors": [(common.dstr(a[0]), common.dstr(a[0]), common.dstr(a[1]), [dmut(x) for x in a[2]],
                    [(common.dstr(m[0]), common.dopt(m[1], common.dstr), [dmut(x) for x in m[2]]) for m in a[3]]) for a in majors],
        "cfgs": [(common.dstr(c[0]), c[1], [[(common.dstr(rv[0]), rv[1]) for rv in d] for d in c[2]], sorted(common.dstr(x) for x in c[3])) for c in cfgs],
        "removed": [(common.dstr(a), common.dstr(b)) for a, b in removed],
    }


def first_diff(a, b, path=""):
    if type(a) != type(b) and not (isinstance(a, (list, tuple)) and isinstance(b, (list, tuple))):
        return path, a, b
    if isinstance(a, dict):
        for k in a:
            d = first_diff(a[k], b.get(k), path + "/" + str(k))
            if d:
                return d
        return None
    if isinstance(a, (list, tuple)):
        for i, (x, y) in enumerate(zip(a, b)):
            d = first_diff(x, y, path + f"[{i}]")
            if d:
                return d
        if len(a) != len(b):
            return path + "/len", len(a), len(b)
        return None
    return None if a == b else (path, a, b)


# ------------------------------------------------------------------------------------------------ database facts read from the YAML (input side)
def allele_name(x):
    if "*" in x:
        x = x.split("*", maxsplit=1)[1]
    return x.replace("/", "_")


def yaml_facts(yml):
    """what the DATABASE says, independent of the loader: per non-ignored allele its structure entries and annotated variants"""
    name = yml["name"]
    pseudo = list(yml["structure"]["genes"][1:])
    al = yml["alleles"]
    groups = al.get("groups", {}) or {}
    functional = {}          # written variant -> set of annotations seen (None = silent)
    for who, p, op, info in c08.written_variants(yml):
        functional.setdefault((p, op), set()).add(info[1] if len(info) > 1 else None)
    alleles = {}
    for k, a in al.items():
        if k in ("random", "groups") or a.get("ignored", False):
            continue
        n = allele_name(k)
        ent = {"left": None, "right": None, "custom": None, "deletion": False, "vars": []}
        if [name, "deletion"] in a["mutations"]:
            ent["deletion"] = True
        else:
            for pos, op, *info in a["mutations"]:
                if isinstance(pos, str) and pos == "ignored":
                    continue
                if pos == name and op in groups:
                    continue
                if pos == name and op.startswith("deletion:"):
                    ent["custom"] = op[9:].split(",")
                elif pos in pseudo:
                    if op[-1] == "-":
                        ent["left"] = op[:-1]
                    else:
                        ent["right"] = op[:-1] if op[-1] == "+" else op
                else:
                    ent["vars"].append((pos, op))
        ent["label"] = allele_name(a["label"]) if a.get("label") else None
        alleles[n] = ent
    return {"functional": functional, "alleles": alleles}


# ------------------------------------------------------------------------------------------------ the property on a loaded Gene (Python, implementation only)
def clauses_py(g, facts):
    """-> {clause: [problem descriptions]} evaluated on the loaded Gene"""
    bad = {k: [] for k in ("reachable-one-major", "major-distinct", "partial-distinct", "core-split", "minor-distinct",
                           "config-exists", "partial-content")}
    fn = facts["functional"]
    # annotation of a loaded variant, from the database (written notation of the key)
    def is_fn(m):
        v = g.mutations.get((m[0], m[1]))
        if v is None:
            return None
        ann = fn.get((v[3] + 1, v[4]), {None})
        return any(a is not None for a in ann)

    # reachable + exactly one major
    for n, ent in facts["alleles"].items():
        core_written = [w for w in ent["vars"] if any(a is not None for a in fn.get(w, {None}))]
        loaded_core = [w for w in core_written if any(v[3] + 1 == w[0] and v[4] == w[1] for v in g.mutations.values())]
        bare_left = ent["left"] is not None and not loaded_core
        r = g.get_allele(n)
        if r is None:
            if not bare_left:
                bad["reachable-one-major"].append(f"allele {n} is not reachable")
            continue
        ma, mi = r
        holders = [a.name for a in g.alleles.values() if mi.name in a.minors]
        if len(holders) != 1:
            bad["reachable-one-major"].append(f"allele {n} -> minor {mi.name} lies in {len(holders)} majors {holders[:4]}")
        if g.alleles.get(ma.name) is not ma:
            bad["reachable-one-major"].append(f"allele {n}: major {ma.name} is not catalogued under its own name")
    # distinct majors
    seen = {}
    for k, a in g.alleles.items():
        key = (a.cn_config, tuple(sorted(a.func_muts)))
        if key in seen:
            cl = "partial-distinct" if ("#" in k and "#" in seen[key]) else "major-distinct"
            bad[cl].append(f"majors {seen[key]} and {k} share structure {a.cn_config} and core set {list(key[1])[:3]}")
        else:
            seen[key] = k
        if k != a.name:
            bad["major-distinct"].append(f"major stored under {k} is named {a.name}")
    # core / silent split
    for k, a in g.alleles.items():
        for m in a.func_muts:
            if is_fn(m) is not True:
                bad["core-split"].append(f"major {k}: core variant {tuple(m)} is not annotated function-altering")
        for mi in a.minors.values():
            for m in mi.neutral_muts:
                if is_fn(m) is not False:
                    bad["core-split"].append(f"minor {mi.name}: minor-only variant {tuple(m)} is annotated function-altering")
    # minors pairwise distinct
    for k, a in g.alleles.items():
        sets = {}
        for mi in a.minors.values():
            key = tuple(sorted(mi.neutral_muts))
            if key in sets:
                bad["minor-distinct"].append(f"major {k}: minors {sets[key]} and {mi.name} have the same variant set")
            sets[key] = mi.name
    # configuration exists
    for k, a in g.alleles.items():
        c = g.cn_configs.get(a.cn_config)
        if c is None:
            bad["config-exists"].append(f"major {k}: configuration {a.cn_config} does not exist")
        elif a.name not in c.alleles:
            bad["config-exists"].append(f"major {k}: configuration {a.cn_config} does not list it")
    # partial content
    for k, a in g.alleles.items():
        if "#" not in k:
            continue
        f = a.cn_config
        conf = g.cn_configs.get(f)
        if conf is None:
            continue
        for mi in a.minors.values():
            if "#" not in mi.name or not mi.name.startswith(f + "#"):
                bad["partial-content"].append(f"partial {k}: minor {mi.name} is not named after fusion {f}")
                continue
            parent = mi.name.split("#", 1)[1]
            r = g.get_allele(parent)
            if r is None:
                bad["partial-content"].append(f"partial {k}: parent allele {parent} is not reachable")
                continue
            pma, pmi = r
            full = set(pma.func_muts) | set(pmi.neutral_muts)
            keep = set()
            for m in full:
                reg = g.region_at(m[0])
                if reg and conf.cn[reg[0]][reg[1]] > 0:
                    keep.add(m)
            have = set(a.func_muts) | set(mi.neutral_muts)
            if have != keep:
                bad["partial-content"].append(f"partial {mi.name}: carries {sorted(have)[:4]}..., parent's retained variants are {sorted(keep)[:4]}...")
    return bad


def refseq_view(g):
    def rs(m):
        v = g.mutations[(m[0], m[1])]
        return (v[3] + 1, v[4])
    return {
        "majors": [(k, a.cn_config, g.cn_configs[a.cn_config].kind.name if a.cn_config in g.cn_configs else None,
                    sorted(rs(m) for m in a.func_muts),
                    [(mi.name, sorted(rs(m) for m in mi.neutral_muts)) for mi in a.minors.values()]) for k, a in g.alleles.items()],
        "removed": list(g.removed.items()),
        "cfg_alleles": [(k, c.kind.name, sorted(c.alleles)) for k, c in g.cn_configs.items()],
    }


def same_regions(g1, g2):
    """hypothesis of build independence: both builds load the same written variants and give each the same region name"""
    def table(g):
        return {(v[3] + 1, v[4]): g.region_at(k[0]) for k, v in g.mutations.items()}
    t1, t2 = table(g1), table(g2)
    if set(t1) != set(t2):
        return False, f"variants loaded in one build only: {sorted(set(t1) ^ set(t2))[:4]}"
    diff = [(w, t1[w], t2[w]) for w in t1 if t1[w] != t2[w]]
    if diff:
        return False, f"region of a variant differs between builds: {diff[:3]}"
    if [list(d) for d in g1.regions] != [list(d) for d in g2.regions]:
        return False, "region order differs between builds"
    return True, ""


# ------------------------------------------------------------------------------------------------ generated databases with structure
def gen_db_structural(rng, idx, shared_break=False):
    """shared_break: the database is forced to hold two LEFT fusions with the same break point, the smaller-named one bare, the other
    with its own function-altering variant (they share one structural configuration; only the bare one is replaced by partial alleles)"""
    yml, meta = c08.gen_db(rng, idx, with_pseudo=(True if shared_break else rng.random() < 0.8), n_var=rng.randint(8, 18))
    name = yml["name"]
    has_pseudo = len(yml["structure"]["genes"]) > 1
    regs = list(yml["structure"]["cn_regions"]) + ["up", "down"]
    # the variant pool of the base generator, with consistent annotations
    pool = {}
    for k, a in yml["alleles"].items():
        if k == "random":
            continue
        for p, op, *info in a["mutations"]:
            pool.setdefault((p, op), info[1] if len(info) > 1 else None)
    # drop variants that touch an alignment gap of either build most of the time (ignored / anchored elsewhere in that build)
    if rng.random() < 0.9:
        def near_gap(w):
            lo, hi = c08.span_py(w[0], c08.parse_op_py(w[1]))
            for b in meta:
                for kind, x, k in meta[b]["gaps"]:
                    glo, ghi = (x, x + k - 1) if kind == "I" else (x - 1, x)
                    if lo - 1 <= ghi and glo <= hi + 1:
                        return True
            return False
        pool = {w: f for w, f in pool.items() if not near_gap(w)}
    fun = [w for w, f in pool.items() if f]
    sil = [w for w, f in pool.items() if not f]
    if not fun and sil:
        w = sil.pop()
        pool[w] = "R1C"
        fun.append(w)

    def ent(w):
        f = pool[w]
        return [w[0], w[1], "-"] + ([f] if f else [])

    alleles = {}
    alleles[f"{name}*1.001"] = {"label": f"{name}*1", "mutations": []}
    num = 2
    cores = []
    for _ in range(rng.randint(3, 7)):
        r = rng.random()
        if cores and r < 0.2:
            core = list(rng.choice(cores))                    # the same core set under another number -> one major
        else:
            core = rng.sample(fun, min(len(fun), rng.choice([1, 1, 2, 3]))) if fun else []
        cores.append(tuple(core))
        n_minor = rng.choice([1, 1, 2, 3])
        prev = None
        for j in range(1, n_minor + 1):
            if prev is not None and rng.random() < 0.3:
                silent = list(prev)                            # duplicate variant set -> alias
            else:
                silent = rng.sample(sil, min(len(sil), rng.choice([0, 1, 2]))) if sil else []
            prev = silent
            a = {"mutations": [ent(w) for w in core + silent]}
            if rng.random() < 0.35:
                a["label"] = f"{name}*{rng.choice([num, num, num + 1, 1])}{rng.choice(['', 'A', 'B'])}"
            if rng.random() < 0.1:
                a["mutations"].append(["ignored", "something"])
            alleles[f"{name}*{num}.{j:03d}"] = a
        # name collision: another core set under the SAME number
        if rng.random() < 0.3 and fun:
            other = rng.sample(fun, min(len(fun), rng.choice([1, 2])))
            a = {"mutations": [ent(w) for w in other]}
            if rng.random() < 0.5:
                a["label"] = f"{name}*{num}{rng.choice(['X', '', 'A'])}"
            alleles[f"{name}*{num}.{n_minor + 1:03d}"] = a
        num += rng.choice([1, 1, 2])
    # three or more majors colliding on one name: distinct core sets under one number, all labelled with that number
    # (-> N, N:2, N:3, ... through the used_names counter), or labelled with the name of another major (-> M:2, ...)
    if rng.random() < 0.45 and len(fun) >= 2:
        k = rng.choice([3, 3, 4, 5])
        target = rng.choice([num, num, 1, 2])
        seen_cores = set(cores)
        made = 0
        for j in range(1, 12):
            core = tuple(sorted(rng.sample(fun, rng.randint(1, min(3, len(fun))))))
            if core in seen_cores:
                continue
            seen_cores.add(core)
            a = {"mutations": [ent(w) for w in core], "label": f"{name}*{target}"}
            if rng.random() < 0.3 and sil:
                a["mutations"] += [ent(w) for w in rng.sample(sil, 1)]
            alleles[f"{name}*{num}.{j:03d}"] = a
            made += 1
            if made >= k:
                break
        num += 1
    structural = []
    if has_pseudo:
        brks = [r for r in yml["structure"]["cn_regions"]]
        # the outermost regions of the gene are legal break points too (rank 0: a left fusion there keeps the whole gene and loses the
        # whole pseudogene; a right fusion there the reverse)
        regs_ = list(next(iter(yml["structure"]["regions"].values())).keys())
        outer = [r for r in (regs_[0], regs_[-1]) if r not in brks]
        for _ in range(rng.choice([0, 1, 2, 3])):
            brk = rng.choice(outer) if (outer and rng.random() < 0.25) else rng.choice(brks)
            kind = rng.choice(["left", "left", "right"])
            muts = [["GENP", brk + ("-" if kind == "left" else rng.choice(["+", ""]))]]
            if rng.random() < 0.4 and fun:
                muts += [ent(w) for w in rng.sample(fun, 1)]              # fusion with its own core variant
            if rng.random() < 0.4 and sil:
                muts += [ent(w) for w in rng.sample(sil, 1)]
            structural.append({"mutations": muts})
            if rng.random() < 0.3:
                structural.append({"mutations": [["GENP", brk + ("-" if kind == "left" else "+")]]})    # same break again -> merged
    if shared_break and has_pseudo and fun:
        brk = rng.choice(list(yml["structure"]["cn_regions"]))
        shared = [{"mutations": [["GENP", brk + "-"]]},
                  {"mutations": [["GENP", brk + "-"]] + [ent(w) for w in rng.sample(fun, 1)]}]
        if rng.random() < 0.5 and sil:
            shared.append({"mutations": [["GENP", brk + "-"]] + [ent(w) for w in rng.sample(fun, min(2, len(fun)))] + [ent(rng.choice(sil))]})
        structural = shared + structural if rng.random() < 0.5 else structural[:1] + shared + structural[1:]
    if rng.random() < 0.5:
        structural.append({"mutations": [[name, "deletion"]]})
    for _ in range(rng.choice([0, 0, 1, 2])):
        items = rng.sample(yml["structure"]["cn_regions"], rng.choice([1, 2]))
        muts = [[name, "deletion:" + ",".join(items)]]
        if rng.random() < 0.4 and fun:
            muts += [ent(w) for w in rng.sample(fun, 1)]
        structural.append({"mutations": muts})
    if has_pseudo and (shared_break or rng.random() < 0.25):
        # a custom partial deletion of EXACTLY the main-gene regions a fusion replaces (same main-gene copy vector as the fusion, another
        # pseudogene vector): the two structures must stay apart
        order = ["up"] + list(yml["structure"]["cn_regions"]) + ["down"]
        fus = [m for a in structural for m in a["mutations"] if m[0] == "GENP"]
        brk_kind = None
        if fus:
            t = rng.choice(fus)[1]
            brk_kind = (t[:-1], "left") if t.endswith("-") else (t.rstrip("+"), "right")
        else:
            brk_kind = (rng.choice(list(yml["structure"]["cn_regions"])), rng.choice(["left", "right"]))
            structural.append({"mutations": [["GENP", brk_kind[0] + ("-" if brk_kind[1] == "left" else "+")]]})
        if brk_kind[0] in order:
            k = order.index(brk_kind[0])
            items = order[:k] if brk_kind[1] == "left" else order[k:]
            if items:
                muts = [[name, "deletion:" + ",".join(items)]]
                if rng.random() < 0.4 and fun:
                    muts += [ent(w) for w in rng.sample(fun, 1)]
                structural.append({"mutations": muts})
    for a in structural:
        alleles[f"{name}*{num}.001"] = a
        if rng.random() < 0.25:
            alleles[f"{name}*{num}.002"] = {"mutations": list(a["mutations"])}
        num += 1
    if rng.random() < 0.2:
        alleles[f"{name}*{num}.001"] = {"ignored": True, "mutations": [[5, "A>C", "-"]]}
    if rng.random() < 0.3 and sil:
        alleles["random"] = [ent(w) for w in rng.sample(sil, 1)] + [["ignored", "x"]]
    if rng.random() < 0.2 and sil:
        w = rng.choice(sil)
        alleles["groups"] = {"grp1": [ent(w)]}
        k = rng.choice([k for k in alleles if k not in ("random", "groups")])
        alleles[k]["mutations"] = alleles[k]["mutations"] + [[name, "grp1"]]
    items = list(alleles.items())
    if rng.random() < 0.3:
        head, tail = items[:1], items[1:]
        rng.shuffle(tail)
        items = head + tail
    yml["alleles"] = dict(items)
    if rng.random() < 0.3:
        yml["structure"]["tandems"] = [["1", "2"]]
    return yml, meta


# ------------------------------------------------------------------------------------------------ evaluation
def evaluate(chk, pairs):
    """pairs: list of (label, stream, shipped, {build: Gene})"""
    from aldy.common import REV_COMPLEMENT
    tab = dict(REV_COMPLEMENT)
    pre = ["Definition tab : ctab := " + c08.c_tab(tab) + "."]
    terms, jobs = [], []
    idx = 0
    for label, stream, shipped, genes in pairs:
        builds = sorted(genes)
        facts = None
        per_build = {}
        for b in builds:
            g = genes[b]
            yml = g._yml
            if facts is None:
                facts = yaml_facts(yml)
            chrom, start, end, strand, cigar = yml["reference"]["mappings"][b]
            alt = c08.c_al(strand == "+", len(c08.yaml_seq(yml)), start, end, c08.parse_cigar(cigar))
            pre.append(f"Definition al{idx} : align := {alt}.")
            pre.append(f"Definition db{idx} : rawdb := {c_rawdb(yml, b)}.")
            pre.append(f"Definition impl{idx} : catalogue := {c_gene_catalogue(g)}.")
            names_req = [n for n, e in facts["alleles"].items() if g.get_allele(n) is not None]
            probes = sorted({k[0] for k in list(g.mutations)[:40]})[:25]
            majors_probe = list(g.alleles)[:6] + list(g.alleles)[-3:]
            terms.append(f"match load tab al{idx} db{idx} with Some c => OL [OZ 1; o_cat c; o_bool (regions_cover al{idx} (cat_regions c)); "
                         f"o_list (fun n => o_opt (o_pair o_str o_str) (get_allele c n)) {clist(list(facts['alleles']), cstr)}; "
                         f"o_list (fun a => o_list (fun p => o_opt o_bool (has_coverage c a p)) {clist(probes, cz)}) {clist(majors_probe, cstr)}] "
                         f"| None => OL [OZ 0] end")
            jobs.append(("load", label, stream, b, g, facts, (probes, majors_probe, shipped)))
            terms.append(f"o_clauses impl{idx} {clist(names_req, cstr)}")
            jobs.append(("clauses", label, stream, b, g, facts, shipped))
            per_build[b] = idx
            idx += 1
        if len(builds) == 2:
            terms.append(f"o_bool (p_build_independent impl{per_build[builds[0]]} impl{per_build[builds[1]]})")
            jobs.append(("indep", label, stream, tuple(builds), genes, facts, shipped))
    vals = eval_sharded(terms, jobs, pre)
    py_clause = {}
    for (kind, label, stream, b, g, facts, extra), val in zip(jobs, vals):
        ident = {"db": label, "build": b}
        if kind == "load":
            probes, majors_probe, shipped = extra
            bad = clauses_py(g, facts)
            py_clause[(label, b)] = bad
            n_major = len(g.alleles)
            nontriv = n_major > 1
            chk.case(stream, [label, b, "catalogue"], nontrivial=nontriv,
                     sample={"db": label, "build": b, "majors": n_major, "minors": sum(len(a.minors) for a in g.alleles.values()),
                             "configurations": {k: c.kind.name for k, c in list(g.cn_configs.items())[:6]}, "aliases": len(g.removed)})
            chk.count(stream, "majors", n_major)
            chk.count(stream, "partial-majors", sum(1 for k in g.alleles if "#" in k))
            chk.count(stream, "aliases", len(g.removed))
            chk.count(stream, "configurations", len(g.cn_configs))
            chk.count(stream, "renamed:n", sum(1 for k in g.alleles if ":" in k))
            chk.count(stream, "renamed:n with n>=3", sum(1 for k in g.alleles if ":" in k and "#" not in k and k.rsplit(":", 1)[1].isdigit() and int(k.rsplit(":", 1)[1]) >= 3))
            for k, c in g.cn_configs.items():
                chk.count(stream, "config-kind:" + c.kind.name)
            for clause, probs in bad.items():
                for pr in probs[:3]:
                    extra = {}
                    mm = re.match(r"majors (\S+) and (\S+) share structure", pr)
                    if clause == "major-distinct" and mm:
                        # which two majors coincide: a partial allele F#B of a bare fusion and a catalogued fusion allele with its own core
                        # variants on the same configuration, or two catalogued alleles
                        a1, a2 = mm.group(1), mm.group(2)
                        extra["pair"] = "partial-vs-catalogued-fusion" if ("#" in a1) != ("#" in a2) else "other"
                    chk.fail(clause, dict(ident, shipped=shipped, problem=pr, **extra), {"db": label, "build": b, "yaml": yml_text(g, shipped, label)},
                             "clause holds", pr)
            if val[0] == 0:
                chk.mismatch("catalogue-load", ident, "model: the loader raises", "database loads")
                continue
            cm, ci = canon_model(val[1]), canon_gene(g)
            if not val[2]:
                chk.mismatch("regions_cover", ident, False, True)
            d = first_diff(cm, ci)
            if d:
                # natsorted over a Python set: names with equal natural-sort keys come out in hash order
                chk.mismatch("catalogue-load", dict(ident, at=d[0]), d[1], d[2])
            mg = [common.dopt(x, lambda t: (common.dstr(t[0]), common.dstr(t[1]))) for x in val[3]]
            ig = []
            for n in facts["alleles"]:
                r = g.get_allele(n)
                ig.append(None if r is None else (r[0].name, r[1].name))
            if mg != ig:
                k = next(i for i, (x, y) in enumerate(zip(mg, ig)) if x != y)
                chk.mismatch("get_allele", dict(ident, name=list(facts["alleles"])[k]), mg[k], ig[k])
            mh = [[common.dopt(x, bool) for x in row] for row in val[4]]
            ih = []
            for a in majors_probe:
                row = []
                for p in probes:
                    try:
                        row.append(bool(g.has_coverage(a, p)))
                    except (KeyError, IndexError):
                        row.append(None)
                ih.append(row)
            if mh != ih:
                chk.mismatch("has_coverage", ident, mh[:2], ih[:2])
        elif kind == "clauses":
            bad = py_clause[(label, b)]
            names = ["reachable-one-major", "major-distinct", "core-split", "minor-distinct", "config-exists", "partial-content"]
            pyv = [not bad["reachable-one-major"], not (bad["major-distinct"] or bad["partial-distinct"]), not bad["core-split"],
                   not bad["minor-distinct"], not bad["config-exists"], not bad["partial-content"]]
            # the Gallina partition predicate is evaluated on the names that resolve; reachability itself is the Python clause
            gv = [bool(x) for x in val]
            for nm, a_, b_ in zip(names, gv, pyv):
                if nm == "reachable-one-major":
                    if not a_ and b_:
                        chk.mismatch("predicate: Gallina p_partition vs harness", ident, a_, b_)
                    continue
                if nm == "core-split":
                    # Gallina uses the loaded annotation (first writer), the harness the database annotations: equal when consistent
                    if a_ != b_ and all(len(s_) == 1 for s_ in facts["functional"].values()):
                        chk.mismatch("predicate: Gallina p_core_split vs harness", ident, a_, b_)
                    continue
                if a_ != b_:
                    chk.mismatch(f"predicate: Gallina {nm} vs harness", ident, a_, b_)
        elif kind == "indep":
            b1, b2 = b
            g1, g2 = g[b1], g[b2]
            shipped = extra
            hyp, why = same_regions(g1, g2)
            chk.case(stream + ":builds", [label, "builds"], nontrivial=len(g1.alleles) > 1)
            if not hyp:
                chk.count(stream + ":builds", "hypothesis same_regions false")
                if not shipped:
                    # outside the hypothesis of the statement (a variant is aligned in one build only, or its genome anchor falls
                    # into another region because the builds differ in strand): counted, compared only as information
                    if first_diff(refseq_view(g1), refseq_view(g2)):
                        chk.count(stream + ":builds", "hypothesis false and catalogues differ (information)")
                    continue
                chk.notes.append(f"[C09] information: same_regions is false on shipped {label} ({why[:120]}); catalogues are compared all the same")
            v1, v2 = refseq_view(g1), refseq_view(g2)
            d = first_diff(v1, v2)
            vec = [(k, c.vector) for k, c in g1.cn_configs.items()] != [(k, c.vector) for k, c in g2.cn_configs.items()]
            if vec:
                chk.count(stream + ":builds", "per-region vectors differ (information)")
            if d:
                chk.fail("build-independent", {"db": label, "shipped": shipped, "problem": f"{d[0]}: {b1}={d[1]!r} {b2}={d[2]!r}"[:300]},
                         {"db": label, "build": b1, "yaml": yml_text(g1, shipped, label)}, "equal catalogues in RefSeq terms", str(d)[:500])
            if bool(val) != (d is None or d[0].startswith("/cfg_alleles")):
                chk.mismatch("predicate: Gallina p_build_independent vs harness", {"db": label}, bool(val), d)
    # names (Appendix D alleles_names_ok): no database name or label contains ':' or '#'
    for label, stream, shipped, genes in pairs:
        g = next(iter(genes.values()))
        facts = yaml_facts(g._yml)
        badn = [n for n, e in facts["alleles"].items() if any(ch in (n + (e["label"] or "")) for ch in ":#")]
        # premise of C09_partials_retained (Catalogue hash_free: no '#' in an allele name after common.allele_name)
        chk.count(stream, "hash_free-holds" if not any("#" in n for n in facts["alleles"]) else "hash_free-does-not-hold")
        if badn:
            chk.count(stream, "names with ':' or '#'", len(badn))
            if shipped:
                chk.notes.append(f"[C09] side condition alleles_names_ok is false on {label}: {badn[:3]}")
    # annotation consistency (Appendix D)
    for label, stream, shipped, genes in pairs:
        g = next(iter(genes.values()))
        facts = yaml_facts(g._yml)
        inc = [w for w, s_ in facts["functional"].items() if len({a is not None for a in s_}) > 1]
        if inc:
            chk.count(stream, "annotation-inconsistent-variants", len(inc))
            if shipped:
                chk.notes.append(f"[C09] side condition annotation_consistent is false on {label}: {inc[:3]}")


def eval_sharded(terms, jobs, pre):
    """one coqc per group of databases: the preamble of a shard only defines what its terms use"""
    import re
    defs = {}
    for ln in pre[1:]:
        m = re.match(r"Definition (al|db|impl)(\d+) ", ln)
        defs.setdefault(m.group(2), []).append(ln)
    groups, seen = [], set()
    for tm in terms:
        ids = sorted(set(re.findall(r"\b(?:al|db|impl)(\d+)\b", tm)), key=int)
        new = [i for i in ids if i not in seen]
        seen |= set(new)
        d = "\n".join(x for i in new for x in defs[i])
        if tm.startswith("match load") or not groups:
            groups.append([d, [tm]])
        else:
            groups[-1][0] += "\n" + d
            groups[-1][1].append(tm)
    # a build-pair term uses the definitions of the two preceding groups: keep each database (both builds) in one group
    merged = []
    for d, tms in groups:
        if merged and len(merged[-1][1]) < 5 and not any(t.startswith("o_bool (p_build_independent") for t in merged[-1][1]):
            merged[-1][0] += "\n" + d
            merged[-1][1] += tms
        else:
            merged.append([d, tms])
    return c08.eval_grouped(IMPORTS, pre[0], [(d, t) for d, t in merged], max_chars=500000)


def yml_text(g, shipped, label):
    if shipped:
        return f"(shipped database {label})"
    import yaml
    return yaml.safe_dump(g._yml, default_flow_style=None, sort_keys=False)


def run(chk):
    chk.rule = ("cases = (database, build): all 38 shipped databases x {hg19, hg38} exhaustively, then generated two-build databases with "
                "allele tables containing shared core sets under different numbers, several core sets under one number (name collisions), "
                "labels (also colliding), duplicate variant sets (aliases), left/right fusions with and without own core variants and with "
                "repeated break points, whole-gene deletion, custom partial deletions, zero-length regions, ignored alleles/entries, random "
                "and group entries, shuffled file order; plus one build-pair case per database. non-trivial = more than one major allele; "
                "distinct = distinct (database, build)")
    chk.extra_trusted = ["PyYAML decoding of the database files (model and implementation receive the same decoded values)",
                         "harness/c09.py: serialisation of the loaded Gene into a Catalogue.catalogue value; database facts (annotations, "
                         "structure entries) read from the YAML for the Python clauses"]
    chk.assumptions = ["build independence is checked under the decidable hypothesis same_regions (both builds load the same written variants "
                       "and give each the same region name); a shipped database on which it is false is reported",
                       "natsorted over a Python set: names with equal natural-sort keys would come out in hash order (none occur)"]
    chk.build()
    if not chk.model_available():
        chk.notes.append("[C09] model did not build")
        return
    q = chk.tier == "quick"
    pairs = []
    for path in c08.shipped_paths():
        label = os.path.basename(path)[:-4]
        pairs.append((label, "shipped", True, {b: c08.load_gene(path, b) for b in ("hg19", "hg38")}))
    chk.exhaustive = {"shipped_databases": 2 * len(pairs)}
    gens = []
    corpus = os.path.join(common.VERIF, "corpus", "C09.json")
    if os.path.exists(corpus):
        gens += [(c["yml"], "corpus") for c in json.load(open(corpus))]
    for i in range(40 if q else 600):
        gens.append((gen_db_structural(chk.rng, i)[0], "generated"))
    for i in range(4 if q else 40):       # whatever the seed: left fusions sharing one break point, the smallest-named one bare
        gens.append((gen_db_structural(chk.rng, 1000 + i, shared_break=True)[0], "generated"))
    with tempfile.TemporaryDirectory(dir=c08._scratch()) as td:
        for i, (yml, stream) in enumerate(gens):
            genes = {}
            for b in ("hg19", "hg38"):
                try:
                    genes[b] = c08.load_generated(yml, b, td, f"{i}{b}")
                except Exception as ex:
                    chk.count(stream, "rejected-by-loader:" + type(ex).__name__)
                    chk.notes.append(f"[C09] generated database {i}/{b} rejected by Gene(): {ex!r}"[:300]) if len(chk.notes) < 5 else None
            if genes:
                pairs.append((f"gen{i}", stream, False, genes))
        evaluate(chk, pairs)


def replay(chk, path):
    r = json.load(open(path))
    c = r["case"]
    chk.build()
    with tempfile.TemporaryDirectory(dir=c08._scratch()) as td:
        if c.get("yaml", "").startswith("(shipped database"):
            p = os.path.join(common.REPO, "aldy", "resources", "genes", c["db"] + ".yml")
            pairs = [(c["db"], "shipped", True, {b: c08.load_gene(p, b) for b in ("hg19", "hg38")})]
        else:
            import yaml
            yml = yaml.safe_load(c["yaml"])
            pairs = [(c["db"], "generated", False, {b: c08.load_generated(yml, b, td, "r" + b) for b in ("hg19", "hg38")})]
        evaluate(chk, pairs)
    bad = [f for f in chk.failures if f["clause"] == r["clause"]]
    for f in bad:
        print("still failing:", json.dumps(f["desc"], default=str)[:400])
    print("REPLAY", "FAILS" if bad else "passes")
    return 1 if bad else 0
