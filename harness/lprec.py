"""Recording ILP back end: observes every model aldy builds, from outside the package.

`with Recorder() as rec:` installs a subclass of aldy.lpinterface.CBC through the module-level factory
`lpinterface.model` (looked up at call time by cn.py / major.py / minor.py).  At the FIRST solve() of each model the
rows are read back from the real OR-Tools object (constraint.lb/ub/GetCoefficient, Objective().GetCoefficient), so what
is compared with the Gallina generator is what the solver was actually given.  Exclusion cuts added later by
solutions() are not part of the snapshot (they are recorded separately as `cuts`).

Never wrap CBC.solutions itself (its recursion re-enters a wrapper and fakes duplicate yields)."""
from fractions import Fraction
import math


def frac(x, tol=1e-9):
    """float read back from OR-Tools -> Fraction (coefficients aldy uses are short decimals or small ratios)"""
    if x == math.inf or x == -math.inf:
        return None
    f = Fraction(x).limit_denominator(10 ** 7)
    if abs(float(f) - x) > tol * max(1.0, abs(x)):
        return Fraction(x)
    return f


class Snapshot:
    def __init__(self, name):
        self.name = name
        self.vars = []      # (name, kind, lb, ub)   kind in B I C
        self.rows = []      # (dict name->Fraction, lb, ub, rowname)
        self.obj = {}       # name -> Fraction
        self.obj_const = Fraction(0)
        self.minimize = True
        self.cuts = []      # rows added after the first solve
        self.solves = []    # (status, objective) per solve()
        self.yields = []

    def solver_faults(self, solver="SCIP", tol=1e-6):
        """replay the recorded model (rows + the exclusion cuts present at each solve) through an INDEPENDENT solver:
        -> [(iteration, CBC's answer, independent optimum)] for every solve where CBC answered 'optimal' with a strictly worse
        objective, or 'infeasible' although a feasible point exists.  The same LP goes to both solvers, so a non-empty list is a
        fault of the CBC backend on this model, not a difference between model and code."""
        if getattr(self, "_faults", None) is not None:
            return self._faults
        from ortools.linear_solver import pywraplp
        out = []
        for it, (st, obj) in enumerate(self.solves):
            m = pywraplp.Solver.CreateSolver(solver)
            if m is None:
                break
            inf = m.infinity()
            V = {}
            for n, k, lb, ub in self.vars:
                lbf = float(lb) if lb is not None else -inf
                ubf = float(ub) if ub is not None else inf
                V[n] = m.BoolVar(n) if k == "B" else (m.IntVar(lbf, ubf, n) if k == "I" else m.NumVar(lbf, ubf, n))
            rows = [(c, lb, ub) for c, lb, ub, _ in self.rows] + list(self.cuts[:it])
            for coefs, lb, ub in rows:
                c = m.Constraint(float(lb) if lb is not None else -inf, float(ub) if ub is not None else inf)
                for n, x in coefs.items():
                    c.SetCoefficient(V[n], float(x))
            o = m.Objective()
            for n, x in self.obj.items():
                o.SetCoefficient(V[n], float(x))
            o.SetOffset(float(self.obj_const))
            if self.minimize:
                o.SetMinimization()
            else:
                o.SetMaximization()
            m.SetTimeLimit(20000)
            r = m.Solve()
            if r != pywraplp.Solver.OPTIMAL:
                continue
            ref = m.Objective().Value()
            if st == "infeasible":
                out.append((it, "infeasible", ref))
            elif st == "optimal" and obj is not None and (obj - ref > tol * max(1.0, abs(ref)) if self.minimize else ref - obj > tol * max(1.0, abs(ref))):
                out.append((it, obj, ref))
        self._faults = out
        return out

    def canonical(self, rename=lambda n: n):
        """canonical structure: variables {key: (kind, lb, ub)}, rows as a sorted list of (sorted coef tuples, rel, rhs),
        equalities merged, duplicate rows removed, objective as sorted tuples. `rename` maps names to role keys."""
        vs = {rename(n): (k, lb, ub) for n, k, lb, ub in self.vars}
        rows = set()
        for coefs, lb, ub, _ in self.rows:
            rows |= canon_rows({rename(n): c for n, c in coefs.items() if c != 0}, lb, ub)
        obj = tuple(sorted(((rename(n), c) for n, c in self.obj.items() if c != 0), key=repr))   # total order: keys may mix shapes
        return vs, sorted(rows, key=repr), obj, self.obj_const


def canon_rows(coefs, lb, ub):
    """{key: coef}, lb <= expr <= ub  ->  set of canonical (terms, rel, rhs); rel in 'le','ge','eq'"""
    terms = tuple(sorted(coefs.items(), key=lambda kv: repr(kv[0])))
    out = set()
    if lb is not None and ub is not None and lb == ub:
        out.add(norm_row(terms, "eq", lb))
    else:
        if ub is not None:
            out.add(norm_row(terms, "le", ub))
        if lb is not None:
            out.add(norm_row(terms, "ge", lb))
    return out


def norm_row(terms, rel, rhs):
    """scale so the first (sorted) term has coefficient +1; flipping the relation for negative scale"""
    if not terms:
        return ((), rel, rhs)
    c0 = terms[0][1]
    if c0 < 0:
        rel = {"le": "ge", "ge": "le", "eq": "eq"}[rel]
    return (tuple((k, c / c0) for k, c in terms), rel, rhs / c0)


class Recorder:
    def __init__(self):
        self.models = []

    def __enter__(self):
        from aldy import lpinterface
        self._lp = lpinterface
        self._orig = lpinterface.model
        rec = self

        class RecCBC(lpinterface.CBC):
            def __init__(self, name):
                super().__init__(name)
                self._snap = Snapshot(name)
                self._taken = False
                rec.models.append(self._snap)

            def _take(self):
                s = self._snap
                m = self.model
                vars_ = m.variables()
                for v in vars_:
                    kind = "C"
                    if v.integer():
                        kind = "B" if (v.lb() == 0 and v.ub() == 1) else "I"
                    s.vars.append((v.name(), kind, frac(v.lb()), frac(v.ub())))
                for c in m.constraints():
                    coefs = {}
                    for v in vars_:
                        x = c.GetCoefficient(v)
                        if x != 0:
                            coefs[v.name()] = frac(x)
                    s.rows.append((coefs, frac(c.lb()), frac(c.ub()), c.name()))
                o = m.Objective()
                for v in vars_:
                    x = o.GetCoefficient(v)
                    if x != 0:
                        s.obj[v.name()] = frac(x)
                s.obj_const = frac(o.offset())
                s.minimize = o.minimization()
                s.n_rows0 = m.NumConstraints()

            def solve(self, init=None):
                if not self._taken:
                    self._take()
                    self._taken = True
                else:
                    m = self.model
                    cs = m.constraints()
                    vars_ = m.variables()
                    for c in cs[self._snap.n_rows0 + len(self._snap.cuts):]:
                        self._snap.cuts.append(({v.name(): frac(c.GetCoefficient(v)) for v in vars_ if c.GetCoefficient(v) != 0},
                                                frac(c.lb()), frac(c.ub())))
                try:
                    st, obj = super().solve(init)
                except lpinterface.NoSolutionsError:
                    self._snap.solves.append(("infeasible", None))
                    raise
                self._snap.solves.append((st, obj))
                return st, obj

        def factory(name, solver):
            return RecCBC(name)

        lpinterface.model = factory
        return self

    def __exit__(self, *a):
        self._lp.model = self._orig
        return False
