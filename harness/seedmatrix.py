"""integrator tool: markdown table of the seeded changes (seeded/*/meta.json) against the latest bin/seedtest logs
(.scratch/seedruns/<id>.<check>.full.log).  usage: /venv/bin/python harness/seedmatrix.py > seeded/MATRIX.md"""
import glob, json, os, re
V = os.path.dirname(os.path.dirname(os.path.abspath(__file__)))
rows = []
for d in sorted(glob.glob(os.path.join(V, "seeded", "C*"))):
    sid = os.path.basename(d)
    m = json.load(open(os.path.join(d, "meta.json")))
    res = []
    for c in m.get("run_checks", [m["property"]]):
        p = os.path.join(V, ".scratch", "seedruns", f"{sid}.{c}.full.log")
        if not os.path.exists(p):
            res.append(f"{c}: not run")
            continue
        t = open(p).read()
        vio = re.findall(r"VIOLATION property=(\S+) replay=\S*/(\S+?)_\d+\.json( no-failing-input-found)?", t)
        if not vio:
            res.append(f"{c}: **missed**")
        elif all(x[2] for x in vio):
            broken = sorted(set(re.findall(r"BROKEN (?:obligation|correspondence): (\S+)", t)))
            res.append(f"{c}: broken {', '.join(broken)[:80]} (no failing input found)")
        else:
            clauses = sorted({x[1].split('_', 1)[1] for x in vio if not x[2]})
            res.append(f"{c}: failing input ({', '.join(clauses)[:90]})")
    rows.append((sid, m["property"], (m.get("change") or "")[:170].replace("|", "/"), (m.get("needs_to_manifest") or "")[:150].replace("|", "/"), "; ".join(res)))
print("| seeded change | property | what was changed | needs | result of `bin/seedtest` (quick tier) |")
print("|---|---|---|---|---|")
for r in rows:
    print("| " + " | ".join(r) + " |")
