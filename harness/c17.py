"""C17 - a debug dump replays to the same result.

Each case (a seed) builds a generated database, a profile and a simulated sample, genotypes it through the command-line entry point
`aldy.__main__.main(["genotype", bam, ..., "--debug", prefix])` inside a TemporaryDirectory and then genotypes the produced
<prefix>.tar.gz with the same parameters.
Predicate "replay-equal": same sample name, structures, major and minor candidates, final solutions, scores (1e-6 abs + 1e-9 rel) and
  a byte-identical output file; evaluated on the two runs only.
Correspondence with coq/theories/Dump.v: the state parsed from the BAM (norm, muts, phases, neutral table, indel table, parameters),
  the pickled archive and the state the reader rebuilds are compared with encode / decode on a sub-sample of positions, together
  with the reference-cell sizes of the coverage table (ref_cell) in both runs.  The writer variant (AsShipped: the dump is written
  after _make_coverage extended the aliased reference lists | Fixed) is detected by replaying the Coq witness on the implementation.
Streams: plain, indels, structures, neutral-gap (no reads over part of the neutral region), outside-deletion (a heterozygous
  deletion outside the RefSeq window: in the pseudogene or in the flank next to the window), params; thorough adds NA10860."""
import collections, copy, gzip, io, json, os, pickle, random, shutil, sys, tarfile, tempfile, time
from fractions import Fraction
import common, e2e
from common import cz, cq, cstr, clist

IMPORTS = ["Base", "Consts", "Params", "Dump", "Consts_here"]
TOL = 1e-6
STREAMS = ["plain", "indels", "structures", "neutral-gap", "outside-deletion", "params"]


def gen_cases(rng, n):
    cases = []
    for k in range(n):
        stream = STREAMS[k % len(STREAMS)]
        cases.append({"seed": rng.randrange(1 << 30), "stream": stream})
    for force in ("cn+min_avg_coverage", "cn+display_format"):
        cases.append({"seed": rng.randrange(1 << 30), "stream": "params", "force": force})
    for st in ("plain", "indels"):
        cases.append({"seed": rng.randrange(1 << 30), "stream": st, "reuse_path": True})
    for st in ("plain", "structures"):
        cases.append({"seed": rng.randrange(1 << 30), "stream": st, "decoy_member": True})
    return cases


# ----------------------------------------------------------------------------------------------------------------------
# worker
# ----------------------------------------------------------------------------------------------------------------------
def build_sample(case, d):
    import gendb, simreads
    rng = random.Random(case["seed"])
    st = case["stream"]
    opts = dict(length=rng.randint(300, 800), n_alleles=rng.randint(4, 7), simulation_friendly=True)
    if st == "indels":
        opts["kinds"] = {"snp": 2, "ins": 3, "del": 3, "mnp": 1}
    if st == "structures":
        opts.update(deletion=True, pseudogene=True, fusions=("left",) if rng.random() < 0.5 else ())
    if st == "outside-deletion":
        where = rng.choice(["pseudogene", "pseudogene", "flank"])
        opts.update(deletion=True)
        if where == "pseudogene":
            opts.update(pseudogene=True, refseq_span="gene")
    yml, desc = gendb.write_db(d, rng, **opts)
    build = rng.choice(["hg19", "hg38"])
    if case.get("force_build"):
        build = case["force_build"]
    bd = desc["builds"][build]
    L, step = rng.choice([(100, 5), (150, 5), (100, 4)])
    prof = simreads.make_profile(desc, yml, build, L, step, d, rng, kind=rng.choice(["yaml", "yaml", "bam"]))
    A = desc["alleles"]
    normal = [a for a, v in A.items() if v["kind"] == "normal"]
    dels = [a for a, v in A.items() if v["kind"] == "deletion"]
    lf = [a for a, v in A.items() if v["kind"] == "left_fusion"]
    if st == "indels":
        withindel = [a for a in normal if any(v[1][:3] in ("ins", "del") for v in A[a]["variants"])] or normal
        alleles = [rng.choice(withindel), rng.choice(normal)]
    elif st == "structures":
        alleles = rng.choice([[rng.choice(normal), dels[0]], [rng.choice(normal) for _ in range(3)],
                              [rng.choice(normal), (lf[0] + "#" + (rng.choice(normal) if not A[lf[0]]["functional"] else "1.001"))] if lf
                              else [rng.choice(normal) for _ in range(4)]])
    else:
        alleles = [rng.choice(normal), rng.choice(normal)]
    noise, background, extra = None, None, {}
    if st == "neutral-gap":
        _, ns, ne = bd["neutral"]
        a = rng.randint(ns + 20, ne - 120)
        noise = {"holes": [(a, a + rng.randint(30, 90))]}
        extra["hole"] = noise["holes"][0]
    if st == "outside-deletion":
        ws, seq = bd["win_start"], bd["win_seq"]
        k = rng.randint(2, 9)
        if opts.get("pseudogene") and bd["pseudo_span"]:
            reg = rng.choice([r for r in desc["cn_regions"]])
            lo, hi = bd["regions"][reg][1]
            pos = rng.randint(lo + 1, max(lo + 1, hi - k - 1))
            extra["where"] = "pseudogene:" + reg
        else:
            gs, ge = bd["locus"]
            pos = gs - rng.randint(k + 3, 40) if rng.random() < 0.5 else ge + rng.randint(3, 40)
            extra["where"] = "flank"
        background = {0: [(pos, "del" + seq[pos - ws:pos - ws + k])]}
        extra["deletion"] = [pos, k]
    params = []
    if st == "params" or rng.random() < 0.3:
        params = rng.choice([["gap=0.1"], ["gap=0.3", "max_minor_solutions=2"], ["max-minor-solutions=3"], ["threshold=0.4"],
                             ["min_avg_coverage=5"], ["phase=false"], ["min_quality=15", "gap=0.1"],
                             # the four fields the archive loader resets (sam.py:324-327) and genotype() has to restore from the
                             # parameters of the replay; min_avg_coverage=500 makes the original run refuse the gene
                             ["display_format=true"], ["min_avg_coverage=500"], ["display_format=true", "gap=0.1"], ["debug_novel=true"]])
    # a user-supplied structure (--cn): another route to the Profile object of the run (Profile(..., cn_solution, **params))
    if st == "params" and rng.random() < 0.6:
        params = rng.choice([["display_format=true"], ["min_avg_coverage=500"], ["display_format=true", "gap=0.1"], ["debug_novel=true"],
                             ["min_avg_coverage=5", "display_format=true"]])
    if st in ("plain", "indels", "neutral-gap") and rng.random() < 0.4 or st == "params" and rng.random() < 0.7:
        extra["cn"] = "1,1"
    if case.get("force") == "cn+min_avg_coverage":       # whatever the seed: supplied structure together with a field the archive loader resets
        params, extra["cn"] = ["min_avg_coverage=500"], "1,1"
    elif case.get("force") == "cn+display_format":
        params, extra["cn"] = ["display_format=true", "debug_novel=true"], "1,1"
    bam = os.path.join(d, f"S{case['seed'] % 100000}.bam")
    simreads.simulate(desc, build, alleles, None, L, step, bam, rng, noise=noise, background=background)
    return yml, desc, build, prof, bam, alleles, params, extra


class Capture:
    """wraps aldy.__main__.genotype (return value / exception) and Sample._make_coverage (state at entry) for one run"""

    def __init__(self):
        self.result, self.error, self.states = None, None, []

    def __enter__(self):
        import aldy.__main__ as m, aldy.sam as sam
        self._m, self._sam = m, sam
        self._g, self._mc = m.genotype, sam.Sample._make_coverage
        cap = self

        def genotype(*a, **k):
            try:
                cap.result = cap._g(*a, **k)
                return cap.result
            except Exception as ex:  # noqa
                cap.error = f"{type(ex).__name__}: {str(ex).splitlines()[0] if str(ex) else ''}"
                raise

        def _make_coverage(self_, norm, muts):
            cap.states.append({"sample": self_, "norm": {p: list(v) for p, v in norm.items()},
                               "muts": {k: list(v) for k, v in muts.items()},
                               "phases": {k: dict(v) for k, v in self_.phases.items()},
                               "neutral": dict(self_._dump_cn), "indel": {k: list(v) for k, v in self_._indel_sites.items()},
                               "fusion": copy.deepcopy(self_._fusion_counter), "name": self_.name,
                               "profile": dict(self_.profile.__dict__) if self_.profile else None})
            return cap._mc(self_, norm, muts)
        m.genotype = genotype
        sam.Sample._make_coverage = _make_coverage
        return self

    def __exit__(self, *exc):
        self._m.genotype = self._g
        self._sam.Sample._make_coverage = self._mc
        return False


def run_main(argv):
    """aldy.__main__.main in-process with stage recording; returns a JSON-able summary and the captured state"""
    import aldy.__main__ as m
    with e2e.StageRecorder() as rec, Capture() as cap:
        code = 0
        try:
            m.main(argv)
        except SystemExit as ex:
            code = ex.code or 0
    summ = {"exit": code, "error": cap.error, "sample": cap.states[-1]["name"] if cap.states else None}
    summ["cn"] = [(c._solution_nice(), s) for c, s in zip(rec.cn or [], rec.cn_scores or [])]
    summ["majors"] = [(c._solution_nice(), m_._solution_nice(), s) for c, sols, raws in rec.major_calls for m_, s in zip(sols, raws)]
    summ["passed"] = [(m_._solution_nice(), s) for m_, s in zip(rec.minor_in or [], rec.minor_in_scores or [])]
    summ["minors"] = [(m_._solution_nice(), s) for m_, s in zip(rec.minor_out or [], rec.minor_out_scores or [])]
    summ["final"] = None
    if cap.result is not None:
        sols = [s for v in cap.result.values() for s in v]
        summ["final"] = [(s._solution_nice(), float(s.score), s.get_major_diplotype(), s.major_solution.cn_solution._solution_nice())
                         for s in sols]
    return summ, cap


def scalar_profile(d):
    return {k: v for k, v in d.items() if isinstance(v, (bool, int, float, str)) and k != "name"}


def substate(st, keys):
    """restrict a captured state to the chosen keys (JSON-able)"""
    return {"name": st["name"],
            "profile": scalar_profile(st["profile"]) if st["profile"] else None,
            "neutral": [[p, st["neutral"][p]] for p in keys["neutral"] if p in st["neutral"]],
            "norm": [[p, [list(q) for q in st["norm"][p]]] for p in keys["norm"] if p in st["norm"]],
            "muts": [[[k[0], k[1]], [list(q) for q in st["muts"][k]]] for k in keys["muts"] if k in st["muts"]],
            "indel": [[[k[0], k[1]], list(v)] for k, v in st["indel"].items()],
            "fusion": [[k, list(v)] for k, v in (st["fusion"] or {}).items()]}


def run_case(case):
    common.quiet_aldy()
    devnull = os.open(os.devnull, os.O_WRONLY)
    os.dup2(devnull, 2)
    t0 = time.time()
    with tempfile.TemporaryDirectory(dir=common.SCRATCH) as d:
        if case.get("shipped"):
            yml, bam, params, extra, desc, build = case["gene"], case["bam"], case["params"], {}, None, None
            args = ["genotype", bam, "--gene", yml, "--profile", case["profile"]]
            alleles = None
        else:
            yml, desc, build, prof, bam, alleles, params, extra = build_sample(case, d)
            args = ["genotype", bam, "--gene", yml, "--profile", prof["profile"], "--genome", build]
            if prof["cn_region"] is not None:
                c = prof["cn_region"]
                args += ["--cn-neutral-region", f"{c.chr}:{c.start}-{c.end}"]
            if extra.get("cn"):
                args += ["--cn", extra["cn"]]
        pargs = [x for p in params for x in ("--param", p)]
        prefix = os.path.join(d, "dbg")
        out1, out2 = os.path.join(d, "run1.aldy"), os.path.join(d, "run2.aldy")
        if case.get("reuse_path") and not case.get("shipped"):
            # history: the SAME archive path was written and replayed before in this process, by a run on the other genome build of
            # the same database (a user keeping one --debug prefix).  Nothing of that earlier archive may survive in the replay below.
            other = "hg38" if build == "hg19" else "hg19"
            d0 = os.path.join(d, "pre")
            os.makedirs(d0)
            try:
                y0, desc0, b0, prof0, bam0, _, _, _ = build_sample(dict(case, force_build=other), d0)
                a0 = ["genotype", bam0, "--gene", y0, "--profile", prof0["profile"], "--genome", b0]
                if prof0["cn_region"] is not None:
                    c0 = prof0["cn_region"]
                    a0 += ["--cn-neutral-region", f"{c0.chr}:{c0.start}-{c0.end}"]
                run_main(a0 + ["--output", os.path.join(d0, "r.aldy"), "--debug", prefix])
                if os.path.exists(prefix + ".tar.gz"):
                    run_main(["genotype", prefix + ".tar.gz", "--gene", y0, "--profile", prof0["profile"], "--output", os.path.join(d0, "r2.aldy")])
                    os.remove(prefix + ".tar.gz")
                shutil.rmtree(prefix, ignore_errors=True)
            except Exception:   # the preliminary run is only a history; whatever it does, the main run and its replay are judged
                pass
        r1, cap1 = run_main(args + ["--output", out1, "--debug", prefix] + pargs)
        archive = prefix + ".tar.gz"
        res = {"planted": alleles, "params": params, "extra": extra, "build": build, "run1": r1, "archive": os.path.exists(archive),
               "strand": desc["builds"][build]["strand"] if desc else None, "pseudogene": bool(desc["pseudogene"]) if desc else None}
        if not res["archive"]:
            return res
        # "with the same parameters": the profile option of the original run is given again (for an archive only its alias handling
        # matters: exome / wxs / wes switch copy-number calling off on the Gene object, which is not part of the dump)
        prof_arg = ["--profile", case["profile"]] if case.get("shipped") else ["--profile", prof["profile"]]
        cn_arg = ["--cn", extra["cn"]] if extra.get("cn") else []
        r2, cap2 = run_main(["genotype", archive, "--gene", yml, "--output", out2] + prof_arg + cn_arg + pargs)
        res["run2"] = r2
        res["out1"] = open(out1).read() if os.path.exists(out1) else None
        res["out2"] = open(out2).read() if os.path.exists(out2) else None
        if case.get("decoy_member"):
            # the archive of a multi-gene run on a file whose NAME has the gene's name as a dotted component holds, next to
            # "<input>.<GENE>.dump", members like "<input>.<OTHER>.dump" = "x.<GENE>.<OTHER>.dump": the replay has to read the member of
            # ITS gene.  Here: the same archive with such a member (an emptied copy of the dump) placed first
            try:
                arch3, out3 = os.path.join(d, "decoy.tar.gz"), os.path.join(d, "run3.aldy")
                with tarfile.open(archive, "r:gz") as tin, tarfile.open(arch3, "w:gz") as tout:
                    members = tin.getmembers()
                    dm = next(m for m in members if m.name.endswith(".dump"))
                    tup = list(pickle.load(gzip.open(tin.extractfile(dm))))
                    tup[3], tup[4] = {}, {}          # norm, muts emptied
                    raw = io.BytesIO()
                    with gzip.GzipFile(fileobj=raw, mode="wb") as gz:
                        pickle.dump(tuple(tup), gz)
                    info = tarfile.TarInfo(dm.name[:-len(".dump")] + ".OTHERGENE.dump")
                    info.size = len(raw.getvalue())
                    tout.addfile(info, io.BytesIO(raw.getvalue()))
                    for m in members:
                        tout.addfile(m, tin.extractfile(m) if m.isfile() else None)
                r3, _cap3 = run_main(["genotype", arch3, "--gene", yml, "--output", out3] + prof_arg + cn_arg + pargs)
                res["run2"] = r3
                res["out2"] = open(out3).read() if os.path.exists(out3) else None
                res["extra"] = dict(res["extra"], decoy_member=True)
            except StopIteration:
                pass
        # ---- archive content and states for the Dump.v correspondence
        with tarfile.open(archive, "r:gz") as tar:
            names = tar.getnames()
            dn = [n for n in names if n.endswith(".dump")]
            gn = [n for n in names if n.endswith(".genome")]
            res["archive_files"] = sorted(os.path.basename(n) for n in names if os.path.basename(n) not in ("", "."))
            if not dn or not gn or not cap1.states or not cap2.states:
                return res
            content = pickle.load(gzip.open(tar.extractfile(dn[0])))
            marker = tar.extractfile(gn[0]).read().decode().strip()
        s1, s2 = cap1.states[0], cap2.states[0]
        gene = s1["sample"].gene
        lo, hi = min(gene.chr_to_ref), max(gene.chr_to_ref)
        rng = random.Random(case["seed"] + 1)
        outside = sorted({k[0] for k in s1["muts"] if not (lo <= k[0] <= hi) and not k[1].startswith("ins") and s1["muts"][k]})
        folded_pos = [p for p in outside if s1["norm"].get(p)]
        norm_keys = folded_pos[:5] + rng.sample(sorted(s1["norm"]), min(6, len(s1["norm"])))
        norm_keys = list(dict.fromkeys(norm_keys))
        # every variant cell that _make_coverage folds into the reference cell of a probed position must be part of the sub-state the
        # model sees (the first version kept 6 cells only: a position outside the window with more than 6 variant cells gave the model
        # a smaller reference cell than the implementation: false alarm of the thorough tier on NA10860 / wes)
        rel = [k for k in s1["muts"] if k[0] in norm_keys]
        fold = [k for k in rel if not (lo <= k[0] <= hi) and not k[1].startswith("ins")]
        mut_keys = fold + [k for k in rel if k not in fold][:6]
        rest = [k for k in s1["muts"] if k not in mut_keys]
        mut_keys += rng.sample(rest, min(5, len(rest)))
        ph_names = list(s1["phases"])
        multi_idx = [i for i, n in enumerate(ph_names) if len(s1["phases"][n]) > 1]
        pick = sorted(set(rng.sample(range(len(ph_names)), min(6, len(ph_names))) + rng.sample(multi_idx, min(6, len(multi_idx)))))
        keys = {"norm": norm_keys, "muts": mut_keys, "neutral": sorted(s1["neutral"])[:4] + sorted(s1["neutral"])[-2:]}
        sub1 = substate(s1, keys)
        sub1["phases"] = [[ph_names[i], [[p, o] for p, o in s1["phases"][ph_names[i]].items()]] for i in pick]
        # the archive restricted to the same keys
        (nm, prof_obj, dcn, dnorm, dmuts, dphases, dfusion, dindel) = content
        multi_names = [ph_names[i] for i in multi_idx]
        picked_multi = [multi_names.index(ph_names[i]) for i in pick if i in multi_idx]
        res["dump"] = {"genome": marker, "name": nm, "profile": scalar_profile(prof_obj.__dict__),
                       "neutral": [[p, dcn[p]] for p in keys["neutral"] if p in dcn],
                       "norm": [[p, [[list(q), n] for q, n in dnorm[p].items()]] for p in norm_keys if p in dnorm],
                       "muts": [[[k[0], k[1]], [[list(q), n] for q, n in dmuts[k].items()]] for k in mut_keys if k in dmuts],
                       "phases": [[[p, o] for p, o in dphases[j].items()] for j in picked_multi] if len(dphases) == len(multi_idx) else None,
                       "n_phases": len(dphases), "n_multi": len(multi_idx),
                       "indel": [[[k[0], k[1]], list(v)] for k, v in dindel.items()],
                       "fusion": [[k, list(v)] for k, v in (dfusion or {}).items()]}
        sub2 = substate(s2, keys)
        names2 = list(s2["phases"])
        sub2["phase_names_ok"] = names2 == [f"r{i}" for i in range(len(names2))]
        sub2["phases"] = [[[p, o] for p, o in s2["phases"][names2[j]].items()] for j in picked_multi] if len(names2) == len(multi_idx) else None
        res["state1"], res["state2"] = sub1, sub2
        res["bounds"] = [lo, hi]
        probe = norm_keys
        cov1, cov2 = s1["sample"].coverage._coverage, s2["sample"].coverage._coverage
        res["probe"] = probe
        res["ref1"] = [len(cov1.get(p, {}).get("_", [])) for p in probe]
        res["ref2"] = [len(cov2.get(p, {}).get("_", [])) for p in probe]
        res["folded_positions"] = len(folded_pos)
        drift = [p for p in cov1 if {k: len(v) for k, v in cov1[p].items()} != {k: len(v) for k, v in cov2.get(p, {}).items()}]
        res["coverage_drift"] = len(drift)
        rc1 = getattr(s1["sample"].coverage, "_region_coverage", {})
        rc2 = getattr(s2["sample"].coverage, "_region_coverage", {})
        res["region_drift"] = sorted(f"{k[1]}[{k[0]}]" for k in rc1 if abs(rc1[k] - rc2.get(k, 0)) > 1e-9)
        res["wall"] = round(time.time() - t0, 1)
        return res


# ----------------------------------------------------------------------------------------------------------------------
# predicate
# ----------------------------------------------------------------------------------------------------------------------
def close(a, b):
    return abs(a - b) <= TOL + 1e-9 * max(abs(a), abs(b))


def same_scored(l1, l2):
    if len(l1) != len(l2):
        return False
    for x, y in zip(l1, l2):
        for u, v in zip(x, y):
            if isinstance(u, float) or isinstance(v, float):
                if not close(float(u), float(v)):
                    return False
            elif u != v:
                return False
    return True


def predicate(r):
    """list of what differs between the run and its replay"""
    a, b = r["run1"], r.get("run2")
    if b is None:
        return ["no archive was written"]
    diffs = []
    if a["sample"] != b["sample"]:
        diffs.append("sample name")
    if (a["error"] is None) != (b["error"] is None) or (a["error"] or "")[:60] != (b["error"] or "")[:60]:
        diffs.append("error outcome")
    for key, label in (("cn", "structures"), ("majors", "major candidates"), ("passed", "passed majors"), ("minors", "minor candidates")):
        if not same_scored(a[key], b[key]):
            names = [x[:-1] for x in a[key]] == [x[:-1] for x in b[key]]
            diffs.append(label + (" (scores)" if names else ""))
    if (a["final"] is None) != (b["final"] is None) or (a["final"] is not None and not same_scored(a["final"], b["final"])):
        names = a["final"] is not None and b["final"] is not None and [(x[0], x[2], x[3]) for x in a["final"]] == [(x[0], x[2], x[3]) for x in b["final"]]
        diffs.append("final solutions" + (" (scores)" if names else ""))
    if r.get("out1") != r.get("out2"):
        diffs.append("output file")
    return diffs


# ----------------------------------------------------------------------------------------------------------------------
# Coq side
# ----------------------------------------------------------------------------------------------------------------------
def cqual(q):
    return f"({cz(q[0])}, {cz(q[1])})"


def cpval(v):
    if isinstance(v, bool):
        return f"VBool {'true' if v else 'false'}"
    if isinstance(v, int):
        return f"VInt {cz(v)}"
    if isinstance(v, float):
        return f"VFloat {cq(Fraction(repr(v)))}"
    return f"VStr {cstr(v)}"


def cmkey(k):
    return f"({cz(k[0])}, {cstr(k[1])})"


def term(r, variant):
    s = r["state1"]
    prof = clist(list(s["profile"].items()), lambda kv: f"({cstr(kv[0])}, {cpval(kv[1])})")
    x = ("{| s_name := " + cstr(s["name"]) + "; s_profile := " + prof + "; s_payload := OL []; "
         "s_neutral := " + clist(s["neutral"], lambda p: f"({cz(p[0])}, {cz(p[1])})") + "; "
         "s_norm := " + clist(s["norm"], lambda pc: f"({cz(pc[0])}, {clist(pc[1], cqual)})") + "; "
         "s_muts := " + clist(s["muts"], lambda pc: f"({cmkey(pc[0])}, {clist(pc[1], cqual)})") + "; "
         "s_phases := " + clist(s["phases"], lambda kv: f"({cstr(kv[0])}, {clist(kv[1], cmkey)})") + "; "
         "s_fusion := " + clist(s["fusion"], lambda kv: f"({cstr(kv[0])}, ({cz(kv[1][0])}, {cz(kv[1][1])}))") + "; "
         "s_indel := " + clist(s["indel"], lambda kv: f"({cmkey(kv[0])}, ({cz(kv[1][0])}, {cz(kv[1][1])}))") + " |}")
    lo, hi = r["bounds"]
    return f"o_roundtrip {variant} {cz(lo)} {cz(hi)} here {cstr(r['dump']['genome'])} ({x}) {clist(r['probe'], cz)}"


def d_pval(v):
    tag = v[0]
    if tag == 0:
        return bool(v[1])
    if tag == 1:
        return v[1]
    if tag == 2:
        return float(common.dq(v[1]))
    if tag == 3:
        return common.dstr(v[1])
    return None


def d_dict(v):
    return {common.dstr(k): d_pval(x) for k, x in v}


def decode_model(v):
    dump, samp, ref_a, ref_b = v
    dk = lambda k: [k[0], common.dstr(k[1])]
    D = {"genome": common.dstr(dump[0]), "name": common.dstr(dump[1]), "profile": d_dict(dump[2]),
         "neutral": [list(p) for p in dump[4]],
         "norm": [[pc[0], [[list(qn[0]), qn[1]] for qn in pc[1]]] for pc in dump[5]],
         "muts": [[dk(pc[0]), [[list(qn[0]), qn[1]] for qn in pc[1]]] for pc in dump[6]],
         "phases": [[dk(x) for x in rec] for rec in dump[7]],
         "fusion": [[common.dstr(kv[0]), list(kv[1])] for kv in dump[8]],
         "indel": [[dk(kv[0]), list(kv[1])] for kv in dump[9]]}
    S = {"name": common.dstr(samp[0]), "profile": d_dict(samp[1]), "neutral": [list(p) for p in samp[3]],
         "norm": [[pc[0], [list(q) for q in pc[1]]] for pc in samp[4]],
         "muts": [[dk(pc[0]), [list(q) for q in pc[1]]] for pc in samp[5]],
         "phases": [[dk(x) for x in kv[1]] for kv in samp[6]],
         "fusion": [[common.dstr(kv[0]), list(kv[1])] for kv in samp[7]],
         "indel": [[dk(kv[0]), list(kv[1])] for kv in samp[8]]}
    return D, S, ref_a, ref_b


def prof_eq(a, b):
    if set(a) != set(b):
        return False
    return all((close(float(a[k]), float(b[k])) if isinstance(a[k], float) or isinstance(b[k], float) else a[k] == b[k]) for k in a)


def correspond(chk, case, r, m):
    D, S, ref_a, ref_b = m
    d, s2 = r["dump"], r["state2"]
    cmpd = {"genome": (D["genome"], d["genome"]), "name": (D["name"], d["name"]), "neutral": (D["neutral"], d["neutral"]),
            "norm": (D["norm"], d["norm"]), "muts": (D["muts"], d["muts"]), "indel": (D["indel"], d["indel"]),
            "fusion": (D["fusion"], d["fusion"])}
    if d["phases"] is not None:
        # the model encodes the picked fragments only: its multi-site records are the picked multi-site ones, in order
        cmpd["phases"] = (D["phases"], d["phases"])
    for k, (mv, iv) in cmpd.items():
        if mv != iv:
            chk.mismatch(f"dump-encode-{k}", case, mv, iv)
    if d["n_phases"] != d["n_multi"]:
        chk.mismatch("dump-encode-phase-count", case, d["n_multi"], d["n_phases"])
    if not prof_eq(D["profile"], d["profile"]):
        chk.mismatch("dump-encode-profile", case, D["profile"], d["profile"])
    cmps = {"name": (S["name"], s2["name"]), "neutral": (S["neutral"], s2["neutral"]), "norm": (S["norm"], s2["norm"]),
            "muts": (S["muts"], s2["muts"]), "indel": (S["indel"], s2["indel"]), "fusion": (S["fusion"], s2["fusion"])}
    if s2["phases"] is not None:
        cmps["phases"] = (S["phases"], s2["phases"])
    for k, (mv, iv) in cmps.items():
        if mv != iv:
            chk.mismatch(f"dump-decode-{k}", case, mv, iv)
    if not s2["phase_names_ok"]:
        chk.mismatch("dump-decode-phase-names", case, "r0..rN", "other")
    if not prof_eq(S["profile"], s2["profile"]):
        chk.mismatch("dump-decode-profile", case, S["profile"], s2["profile"])
    if ref_a != r["ref1"]:
        chk.mismatch("coverage-ref-cell-run", case, ref_a, r["ref1"])
    if ref_b != r["ref2"]:
        chk.mismatch("coverage-ref-cell-replay", case, ref_b, r["ref2"])


# ----------------------------------------------------------------------------------------------------------------------
def detect_variant():
    """replay the Coq witness (C17_dump_as_shipped_refuted) on the implementation: one reference observation and one deleted base at
    a position outside the RefSeq window; the reference cell has 2 observations in the run; 3 after the dump = AsShipped"""
    def probe(_):
        common.quiet_aldy()
        import gendb, simreads, pysam
        from aldy.gene import Gene
        from aldy.profile import Profile
        from aldy.sam import Sample
        rng = random.Random(17)
        with tempfile.TemporaryDirectory(dir=common.SCRATCH) as d:
            yml, desc = gendb.write_db(d, rng, length=300, n_alleles=3, pseudogene=False, deletion=False, strands="++")
            bd = desc["builds"]["hg19"]
            gs, ge = bd["locus"]
            pos = ge + 10
            bam = os.path.join(d, "W.bam")
            seq = bd["win_seq"][ge - 30 - bd["win_start"]:ge + 40 - bd["win_start"]]
            header = {"HD": {"VN": "1.6", "SO": "coordinate"}, "SQ": [{"SN": bd["chr"], "LN": bd["chrom_len"]}]}
            with pysam.AlignmentFile(bam, "wb", header=header) as f:
                for name, cigar, s in (("ref", [(0, 70)], seq), ("del", [(0, 40), (2, 1), (0, 29)], seq[:40] + seq[41:])):
                    a = pysam.AlignedSegment(f.header)
                    a.query_name, a.flag, a.reference_id, a.reference_start, a.mapping_quality = name, 0, 0, ge - 30, 60
                    a.cigartuples, a.query_sequence = cigar, s
                    a.query_qualities = pysam.qualitystring_to_array("I" * len(s))
                    f.write(a)
            pysam.index(bam)
            gene = Gene(yml, genome="hg19")
            s1 = Sample(gene, Profile("user_provided", cn_solution=["1", "1"]), bam, debug=os.path.join(d, "w"))
            os.system(f"tar czf {d}/w.tar.gz -C {d} w.{gene.name}.dump w.{gene.name}.genome")
            s2 = Sample(gene, None, os.path.join(d, "w.tar.gz"))
            return [len(s1.coverage._coverage[pos]["_"]), len(s2.coverage._coverage[pos]["_"])]
    r = e2e.run_pool(probe, [0], jobs=1, timeout=120)[0]
    if isinstance(r, list) and r == [2, 3]:
        return "AsShipped", r
    if isinstance(r, list) and r == [2, 2]:
        return "Fixed", r
    return None, r


def evaluate(chk, cases, jobs=10, timeout=150):
    variant, wit = detect_variant()
    chk.notes.append(f"[C17] writer variant of this tree: {variant} (witness reference-cell sizes run/replay = {wit})")
    results = e2e.run_pool(run_case, cases, jobs=jobs, timeout=timeout)
    usable = []
    for case, r in zip(cases, results):
        if r.get("timeout"):
            chk.count(case["stream"], "timeout")
            continue
        if r.get("crash"):
            chk.broken.append(("correspondence", "harness-crash", {"case": case, "trace": r["crash"]}))
            continue
        usable.append((case, r))
    with_state = [(c, r) for c, r in usable if "state1" in r]
    model = {}
    if chk.model_available() and with_state and variant:
        vals = common.coq_eval(IMPORTS, [term(r, variant) for _, r in with_state], shard=3)
        model = {id(r): decode_model(v) for (_, r), v in zip(with_state, vals)}
    elif variant is None:
        chk.broken.append(("correspondence", "writer-variant-undetermined", {"witness": wit}))
    for case, r in usable:
        a = r["run1"]
        diffs = predicate(r)
        nontrivial = a["final"] is not None and r.get("run2") is not None
        canon = {"final": a["final"], "cn": a["cn"], "params": r["params"], "extra": r["extra"]}
        chk.case(case["stream"], canon, nontrivial=nontrivial,
                 sample={"case": case, "planted": r["planted"], "params": r["params"], "extra": r["extra"],
                         "reported": [x[2] for x in (a["final"] or [])], "error": a["error"], "replay_differs": diffs,
                         "coverage_positions_drifting": r.get("coverage_drift")})
        chk.count(case["stream"], "replay-equal" if not diffs else "replay-differs")
        if r.get("coverage_drift"):
            chk.count(case["stream"], "coverage-table-drift")
        if id(r) in model:
            correspond(chk, case, r, model[id(r)])
        if diffs:
            desc = {"stream": case["stream"], "outside_deletion": bool(r.get("folded_positions")),
                    "folded_reference_cells": r.get("folded_positions", 0), "region_drift": bool(r.get("region_drift")),
                    "differs": diffs, "only_scores": all(x.endswith("(scores)") for x in diffs),
                    "where": r["extra"].get("where"), "shipped": bool(case.get("shipped"))}
            chk.fail("replay-equal", desc, case, {"run": a}, {"replay": r.get("run2"), "differs": diffs, "region_drift": r.get("region_drift")})


def load_corpus():
    p = os.path.join(common.VERIF, "corpus", "C17.json")
    return json.load(open(p)) if os.path.exists(p) else []


def shipped_cases():
    from aldy.common import script_path
    bam = script_path("aldy.tests.resources/NA10860.bam")
    return [{"seed": 1, "stream": "NA10860", "shipped": True, "gene": "cyp2d6", "bam": bam, "profile": "illumina",
             "params": ["minor_phase_vars=10"]}]


def alias_cases(quick):
    """profile ALIASES of the command line (exome / wxs / wes: copy-number calling off and min_coverage 5; wgs; pgrnseq-v1..3) are
    resolved inside genotype(), partly on the Gene object: a run under an alias and the replay of its archive under the same alias"""
    from aldy.common import script_path
    bam = script_path("aldy.tests.resources/NA10860.bam")
    names = ["exome"] if quick else ["exome", "wxs", "wes", "wgs"]
    return [{"seed": 2 + i, "stream": "profile-alias", "shipped": True, "gene": "cyp2d6", "bam": bam, "profile": n,
             "params": ["minor_phase_vars=10"]} for i, n in enumerate(names)]


def run(chk):
    chk.rule = ("a case is a seed: generated database (both strands, with/without pseudogene), profile (YAML or BAM), simulated 2-4 copy "
                "sample; streams plain / indels / structures / neutral-gap / outside-deletion / params; non-trivial = the run produced a "
                "genotype and an archive; distinct = distinct (reported solutions, structures, parameters, planted extras)")
    chk.build()
    n = 24 if chk.tier == "quick" else 120
    cases = load_corpus() + gen_cases(chk.rng, n)
    cases += alias_cases(chk.tier == "quick")
    if chk.tier == "thorough":
        cases += shipped_cases()
    evaluate(chk, cases, timeout=150 if chk.tier == "quick" else 600)
    chk.assumptions = ["pickle, gzip, tar round-trip Python objects faithfully (trusted)",
                       "the Dump.v correspondence is evaluated on a sub-sample of positions, cells and phase records of every case "
                       "(encode/decode act cell by cell; the picked cells always include those that receive folded observations)",
                       "C17_dump_replay assumes the pipeline reads a sample only through the observables of sample_equiv; this is what "
                       "the replay-equal predicate tests end to end"]


def replay(chk, path):
    r = json.load(open(path))
    chk.build()
    evaluate(chk, [r["case"]], jobs=1, timeout=1200)
    for f in chk.failures:
        print("still failing:", f["clause"], json.dumps(f["observed"], default=str)[:600])
    print("REPLAY", "FAILS" if chk.failures else "passes")
    return 1 if chk.failures else 0
