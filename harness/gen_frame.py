"""gen_frame.py - tie by translation for C14 (no operation modifies the loaded database or the sample evidence).

For each listed function of /repo the Python AST is abstractly interpreted into a straight-line program of coq/theories/Frame.v
(INew / ICopy / IAlias / IUnion / IDiff / IAdd / IDel over variables; variables < 100 are containers of the loaded gene database or of
the sample evidence, variables >= 100 are locals of the operation) and written to coq/gen/Frame_here.v.  proofs/Tied_frame.v then
proves `is_safe p && locals_only p` for every generated program, and Frame's theorem turns that into "every root keeps its content".

What the abstraction keeps: which names / attribute paths / container elements are ALIASES of foreign containers and which are bound to
containers created by the operation itself, and every in-place write (augmented assignment, mutating method call, item assignment,
item deletion, attribute assignment on a foreign object).  Control flow is linearised: an `if` contributes both branches (the ownership
state is restored before the second one and merged after it: owned only if owned on both paths), a loop body is emitted twice.

Trusted (stated in the evidence of C14): the classification of expressions below (calls of constructors / builtins / copy.deepcopy return
fresh containers, copy.copy returns a fresh object whose fields alias the original's, any other call returns a fresh or immutable value and
does not write through its arguments unless it is one of the mutating methods listed), and that the listed functions are the operations that
touch the catalogue / evidence containers.  Fail-closed: a statement kind the translator does not know makes the function's program unsafe.
"""
import ast, os, re, sys, json

REPO = os.environ.get("ALDY_REPO", "/repo")

# (label, file, qualified function name)
FUNCTIONS = [
    ("SolvedAllele.mutations", "aldy/solutions.py", "SolvedAllele.mutations"),
    ("write_decomposition", "aldy/diplotype.py", "write_decomposition"),
    ("write_vcf", "aldy/diplotype.py", "write_vcf"),
    ("MinorSolution.get_mutation_coverages", "aldy/solutions.py", "MinorSolution.get_mutation_coverages"),
    ("estimate_minor", "aldy/minor.py", "estimate_minor"),
    ("solve_minor_model", "aldy/minor.py", "solve_minor_model"),
    ("estimate_major", "aldy/major.py", "estimate_major"),
    ("_filter_alleles", "aldy/major.py", "_filter_alleles"),
    ("solve_major_model", "aldy/major.py", "solve_major_model"),
    ("estimate_cn", "aldy/cn.py", "estimate_cn"),
    ("_filter_configs", "aldy/cn.py", "_filter_configs"),
    ("solve_cn_model", "aldy/cn.py", "solve_cn_model"),
    ("Coverage.filtered", "aldy/coverage.py", "Coverage.filtered"),
    ("Coverage.__init__", "aldy/coverage.py", "Coverage.__init__"),
    ("CNSolution.__init__", "aldy/solutions.py", "CNSolution.__init__"),
    ("estimate_diplotype", "aldy/diplotype.py", "estimate_diplotype"),
    ("Sample._make_coverage", "aldy/sam.py", "Sample._make_coverage"),
    ("Sample._dump_alignments", "aldy/sam.py", "Sample._dump_alignments"),
    ("genotype", "aldy/genotype.py", "genotype"),
    ("MajorSolution._solution_nice", "aldy/solutions.py", "MajorSolution._solution_nice"),
    ("MinorSolution._solution_nice", "aldy/solutions.py", "MinorSolution._solution_nice"),
]

ROOT_RULES = [  # (regex on the normalised foreign path, root id)   ids as in Frame.v
    (r"\.func_muts$", 0), (r"\.neutral_muts$", 1), (r"\.added$", 2), (r"\.missing$", 3), (r"\.random_mutations$", 4),
    (r"\.alleles$", 5), (r"\.cn_configs$", 6), (r"\.cn$", 7), (r"\._coverage$", 8), (r"\._indels$", 9),
    (r"\._cnv_coverage$", 10), (r"\._region_coverage$", 11), (r"\._coverage\[\]\[\]$", 12), (r"\.mutations$", 13), (r"\.phases$", 14),
]
FRESH_CALLS = {"set", "list", "dict", "tuple", "sorted", "frozenset", "defaultdict", "OrderedDict", "deepcopy", "natsorted", "reversed",
               "enumerate", "zip", "range", "len", "min", "max", "sum", "str", "int", "float", "abs", "any", "all", "round", "partial", "repr",
               "isinstance", "hasattr", "bool", "map", "filter", "iter", "next", "print", "format", "td", "sorted_tuple", "Counter", "chain",
               "product", "combinations", "groupby", "namedtuple", "id", "type", "getattr", "ord", "chr", "divmod", "pow", "open", "hash"}
MUTATORS = {"add": "IAdd", "update": "IUnion", "append": "IAdd", "extend": "IUnion", "remove": "IDel", "discard": "IDel", "pop": "IDel",
            "clear": "IDel", "sort": "IAdd", "insert": "IAdd", "setdefault": "IAdd", "popitem": "IDel", "reverse": "IAdd",
            "difference_update": "IDiff", "intersection_update": "IDiff", "symmetric_difference_update": "IUnion", "appendleft": "IAdd"}
ELEMENT_CALLS = {"get", "values", "items", "keys", "copy"}   # handled specially (.copy() = shallow copy)
UNKNOWN_ROOT = 19
BUILDERS = {"__init__", "_make_coverage"}   # methods that initialise fields of their own object (assignment to self.<field> is not a foreign write)
SINKS = {"json", "log"}   # module-level debug/log sinks (aldy.common.json, logbook): written by design, not part of database or evidence


class Unknown(Exception):
    pass


class Tr:
    def __init__(self, fn):
        self.fn = fn
        self.prog = []                # emitted instructions (strings)
        self.state = {}               # local path -> ("own",) | ("alias", root id)
        self.alias_path = {}          # local name/path -> foreign path string it stands for (objects and containers)
        self.copyobj = {}             # local name -> foreign path of the object it is a copy.copy of
        self.ids = {}                 # local path -> variable id >= 100
        self.other_roots = {}         # foreign path -> id 20..99
        self.locals = set()
        self.notes = []
        self.lines = []
        self.cur = 0
        self.is_init = fn.name in BUILDERS
        # parameters are foreign objects (any path starting at them is foreign), except **kwargs / *args: dict / tuple made for the call
        for a in (fn.args.kwarg, fn.args.vararg):
            if a is not None:
                self.locals.add(a.arg)
                self.state[a.arg] = ("own",)
                self.ids[a.arg] = 100 + len(self.ids)
                self.prog.append(f"INew {self.ids[a.arg]}")
                self.lines.append(0)

    # ---- variables
    def vid(self, path):
        if path not in self.ids:
            self.ids[path] = 100 + len(self.ids)
        return self.ids[path]

    def root_id(self, fpath):
        fpath = re.sub(r"\[[^\]]*\]", "[]", fpath)
        for rx, rid in ROOT_RULES:
            if re.search(rx, fpath):
                return rid
        if fpath not in self.other_roots:
            self.other_roots[fpath] = 20 + (len(self.other_roots) % 79)
        return self.other_roots[fpath]

    def emit(self, s):
        self.prog.append(s)
        self.lines.append(self.cur)

    # ---- paths
    def raw_path(self, e):
        if isinstance(e, ast.Name):
            return e.id
        if isinstance(e, ast.Attribute):
            b = self.raw_path(e.value)
            return None if b is None else b + "." + e.attr
        if isinstance(e, ast.Subscript):
            b = self.raw_path(e.value)
            # the key is kept as TEXT: d[a, i] = deepcopy(x); d[a, i].f[g] = ... speaks of one element.  (Two occurrences of the same
            # key text are taken to denote the same element; a key without a binding of its own falls back to any bound sibling,
            # aliases first.)
            try:
                key = ast.unparse(e.slice)
            except Exception:   # noqa
                key = ""
            key = re.sub(r"[^A-Za-z0-9_,'\-]", "", key.replace(".", "_"))
            return None if b is None else b + "[" + key + "]"
        if isinstance(e, ast.Call) and isinstance(e.func, ast.Attribute) and e.func.attr in ("get", "values", "items", "keys", "setdefault"):
            b = self.raw_path(e.func.value)
            return None if b is None else b + ("[]" if e.func.attr != "keys" else "[k]")
        return None

    def resolve(self, path):
        """-> ('local', localpath) when bound to something tracked locally, ('foreign', foreignpath) otherwise"""
        # longest local prefix with an explicit binding
        parts = re.split(r"(?=\.|\[)", path)
        for k in range(len(parts), 0, -1):
            pre = "".join(parts[:k])
            rest = "".join(parts[k:])
            if pre not in self.state and pre not in self.copyobj and pre not in self.alias_path:
                gen = re.sub(r"\[[^\]]*\]$", "[]", pre)        # a constant key without a binding of its own: the generic element
                if gen in self.state:
                    pre = gen
                elif pre.endswith("[]"):                         # a variable key: any bound constant-key sibling, aliases first
                    sib = [k for k in self.state if re.sub(r"\[[^\]]*\]$", "[]", k) == pre]
                    sib.sort(key=lambda k: self.state[k][0] != "alias")
                    if sib:
                        pre = sib[0]
            if pre in self.state and rest == "":
                return ("local", pre)
            if pre in self.copyobj and rest:
                return ("foreign", self.copyobj[pre] + rest)
            if pre in self.state and rest:
                b = self.state[pre]
                if pre in self.alias_path:
                    return ("foreign", self.alias_path[pre] + rest)
                if b[0] == "own":
                    # element / field of an owned container that has no binding of its own: owned (fresh content)
                    return ("local", pre + rest) if (pre + rest) in self.state else ("ownedpart", pre + rest)
            if pre in self.copyobj and rest:
                return ("foreign", self.copyobj[pre] + rest)
            if pre in self.alias_path and rest:
                return ("foreign", self.alias_path[pre] + rest)
        base = parts[0]
        if base in SINKS:
            return ("ownedpart", path)
        if base in self.locals and base not in self.state and base not in self.alias_path and base not in self.copyobj:
            return ("ownedpart", path)       # a local scalar / loop index
        return ("foreign", path)

    # ---- expressions
    def classify(self, e):
        """-> ('fresh', src var or None) | ('alias', foreign path) | ('localalias', local path) | ('copyobj', foreign path)"""
        if e is None or isinstance(e, (ast.Constant, ast.JoinedStr, ast.Compare, ast.BoolOp, ast.UnaryOp, ast.Lambda, ast.ListComp, ast.SetComp,
                                       ast.DictComp, ast.GeneratorExp, ast.List, ast.Set, ast.Dict, ast.Tuple, ast.BinOp, ast.FormattedValue)):
            if isinstance(e, ast.BoolOp):     # `a or b` returns one of its operands
                cs = [self.classify(v) for v in e.values]
                al = [c for c in cs if c[0] in ("alias", "localalias")]
                return al[0] if al else ("fresh", None)
            return ("fresh", None)
        if isinstance(e, ast.IfExp):
            cs = [self.classify(e.body), self.classify(e.orelse)]
            al = [c for c in cs if c[0] == "alias"] or [c for c in cs if c[0] == "localalias"]
            return al[0] if al else ("fresh", None)
        if isinstance(e, (ast.Name, ast.Attribute, ast.Subscript)):
            p = self.raw_path(e)
            if p is None:
                return ("fresh", None)
            kind, q = self.resolve(p)
            if kind == "foreign":
                return ("alias", q)
            if kind == "local":
                return ("localalias", q)
            return ("fresh", None)
        if isinstance(e, ast.Call):
            f = e.func
            name = f.id if isinstance(f, ast.Name) else (f.attr if isinstance(f, ast.Attribute) else None)
            if isinstance(f, ast.Attribute) and isinstance(f.value, ast.Name) and f.value.id == "copy" and f.attr == "copy":
                c = self.classify(e.args[0])
                return ("copyobj", c[1]) if c[0] == "alias" else ("fresh", None)
            if isinstance(f, ast.Attribute) and f.attr in ("get", "values", "items", "keys"):
                p = self.raw_path(e)
                if p is not None:
                    kind, q = self.resolve(p)
                    return ("alias", q) if kind == "foreign" else (("localalias", q) if kind == "local" else ("fresh", None))
            return ("fresh", None)          # constructors, builtins, deepcopy, .copy(), accessors: fresh / immutable results
        if isinstance(e, (ast.Starred, ast.Await, ast.NamedExpr)):
            raise Unknown(type(e).__name__)
        return ("fresh", None)

    def element_class(self, e):
        """binding of the loop variable of `for t in e`"""
        if isinstance(e, ast.Call) and isinstance(e.func, ast.Name) and e.func.id in ("enumerate", "sorted", "natsorted", "list", "set", "reversed", "zip") and e.args:
            return self.element_class(e.args[0])
        c = self.classify(e)
        if c[0] == "alias":
            return ("alias", c[1] + ("" if isinstance(e, ast.Call) else "[]"))
        if c[0] == "localalias":
            p = c[1] + "[]"
            return ("localalias", p) if p in self.state else ("fresh", None)
        return ("fresh", None)

    # ---- bindings
    def bind(self, lpath, c):
        self.locals.add(re.split(r"[.\[]", lpath)[0])
        v = self.vid(lpath)
        for k in [k for k in self.state if k != lpath and (k.startswith(lpath + ".") or k.startswith(lpath + "["))]:
            del self.state[k]
            self.alias_path.pop(k, None)
        self.alias_path.pop(lpath, None)
        self.copyobj.pop(lpath, None)
        if c[0] == "fresh":
            self.state[lpath] = ("own",)
            self.emit(f"INew {v}" if c[1] is None else f"ICopy {v} {c[1]}")
        elif c[0] == "alias":
            r = self.root_id(c[1])
            self.state[lpath] = ("alias", r)
            self.alias_path[lpath] = c[1]
            self.emit(f"IAlias {v} {r}")
        elif c[0] == "localalias":
            src = c[1]
            self.state[lpath] = self.state[src]
            if src in self.alias_path:
                self.alias_path[lpath] = self.alias_path[src]
            self.emit(f"IAlias {v} {self.vid(src)}")
            # elements / fields of the source are shared
            for k in [k for k in list(self.state) if k.startswith(src + ".") or k.startswith(src + "[")]:
                nk = lpath + k[len(src):]
                self.state[nk] = self.state[k]
                if k in self.alias_path:
                    self.alias_path[nk] = self.alias_path[k]
                self.emit(f"IAlias {self.vid(nk)} {self.vid(k)}")
        elif c[0] == "copyobj":
            self.state[lpath] = ("own",)
            self.copyobj[lpath] = c[1]
            self.emit(f"INew {v}")

    def bind_elements(self, lpath, e, loopvars, depth=0):
        """a freshly built container (literal or comprehension) may hold ALIASES of foreign containers as elements:
        x = {k: v for k, v in foreign.items()}, x = {p: {"_": cov} for p, cov in norm.items()}, x = [a, b]"""
        if depth > 3:
            return
        def alias_of(v):
            if isinstance(v, ast.Name) and v.id in loopvars:
                return loopvars[v.id]
            if isinstance(v, (ast.Name, ast.Attribute, ast.Subscript)):
                c = self.classify(v)
                return ("alias", c[1]) if c[0] == "alias" else (("localalias", c[1]) if c[0] == "localalias" else None)
            if isinstance(v, ast.IfExp):
                return alias_of(v.body) or alias_of(v.orelse)
            return None
        vals, lv = [], dict(loopvars)
        if isinstance(e, (ast.ListComp, ast.SetComp, ast.GeneratorExp, ast.DictComp)):
            for g in e.generators:
                ec = self.element_class(g.iter)
                names = [g.target] if isinstance(g.target, ast.Name) else [x for x in ast.walk(g.target) if isinstance(x, ast.Name)]
                for k, nm in enumerate(names):
                    if ec[0] == "alias":
                        # tuple targets (k, v) over .items(): every component may alias an element of the iterable
                        lv[nm.id] = ("alias", ec[1] + ("" if isinstance(g.target, ast.Name) else "[]"))
                    elif ec[0] == "localalias":
                        lv[nm.id] = ("localalias", ec[1])
            vals = [e.value] if isinstance(e, ast.DictComp) else [e.elt]
        elif isinstance(e, ast.Dict):
            vals = [v for v in e.values if v is not None]
        elif isinstance(e, (ast.List, ast.Set, ast.Tuple)):
            vals = list(e.elts)
        else:
            return
        epath = lpath + "[]"
        for v in vals:
            old_lv, loopvars = loopvars, lv
            a = alias_of(v)
            loopvars = old_lv
            if a is not None:
                if not (epath in self.state and self.state[epath][0] == "alias"):
                    self.bind(epath, a)
            elif isinstance(v, (ast.Dict, ast.List, ast.Set, ast.Tuple, ast.ListComp, ast.SetComp, ast.DictComp)):
                if epath not in self.state:
                    self.bind(epath, ("fresh", None))
                self.bind_elements(epath, v, lv, depth + 1)

    def write(self, e, instr, arg=None):
        """in-place write on the container denoted by expression e"""
        p = self.raw_path(e)
        if p is None:
            return                      # write on a temporary
        kind, q = self.resolve(p)
        tail = "1" if instr in ("IAdd", "IDel") else str(arg if arg is not None else UNKNOWN_ROOT)
        if kind == "foreign":
            self.emit(f"{instr} {self.root_id(q)} {tail}")
        elif kind == "local":
            self.emit(f"{instr} {self.vid(q)} {tail}")
        # ownedpart: element of an owned container or a scalar local: nothing to record

    def target_bind(self, t, c):
        if isinstance(t, ast.Name):
            self.bind(t.id, c)
        elif isinstance(t, (ast.Tuple, ast.List)):
            for x in t.elts:
                ec = c
                if c[0] == "alias":
                    ec = ("alias", c[1] + "[]")
                elif c[0] == "localalias":
                    ec = ("localalias", c[1] + "[]") if (c[1] + "[]") in self.state else ("fresh", None)
                self.target_bind(x.value if isinstance(x, ast.Starred) else x, ec)
        elif isinstance(t, ast.Attribute):
            p = self.raw_path(t)
            if p is None:
                return
            kind, q = self.resolve(self.raw_path(t.value))
            if self.is_init and isinstance(t.value, ast.Name) and t.value.id == "self":
                self.bind(p, c)                                   # the constructor initialises the fields of its own object
            elif kind == "foreign":
                self.emit(f"IAdd {self.root_id(q)} 1")       # a field of a foreign object is rebound: a write to that object
            else:
                self.bind(p, c)
        elif isinstance(t, ast.Subscript):
            self.write(t.value, "IAdd")
            p = self.raw_path(t)
            if p is not None:
                kind, q = self.resolve(self.raw_path(t.value))
                if kind in ("local", "ownedpart"):
                    old = self.state.get(p)
                    if c[0] in ("alias", "localalias") or old is None or old[0] == "own":
                        if not (old is not None and old[0] == "alias" and c[0] == "fresh"):   # sticky: once an alias, elements stay aliases
                            self.bind(p, c)

    # ---- statements
    def snapshot(self):
        return (dict(self.state), dict(self.alias_path), dict(self.copyobj))

    def restore(self, snap, emit=True):
        st, ap, co = snap
        if emit:
            for k in set(self.state) | set(st):
                want, have = st.get(k), self.state.get(k)
                if want != have and want is not None:
                    self.emit(f"INew {self.vid(k)}" if want[0] == "own" else f"IAlias {self.vid(k)} {want[1]}")
                elif want is None and have is not None and have[0] == "own":
                    self.emit(f"IAlias {self.vid(k)} {UNKNOWN_ROOT}")
        self.state, self.alias_path, self.copyobj = dict(st), dict(ap), dict(co)

    def merge(self, a, b):
        """state after a join: owned only if owned on both paths; alias bindings of either path are kept"""
        sa, sb = a[0], b[0]
        out, ap, co = {}, {}, {}
        for k in set(sa) | set(sb):
            x, y = sa.get(k), sb.get(k)
            if x is None or y is None:                    # bound on one path only: that binding (unbound names cannot be written)
                out[k] = x if x is not None else y
                for src in (a, b):
                    if k in src[1]:
                        ap[k] = src[1][k]
            elif x[0] == "own" and y[0] == "own":
                out[k] = ("own",)
            else:
                al = next((z for z in (x, y) if z is not None and z[0] == "alias"), None)
                out[k] = al if al is not None else ("alias", UNKNOWN_ROOT)
                for src in (a, b):
                    if k in src[1]:
                        ap[k] = src[1][k]
        for src in (a, b):
            for k, v in src[2].items():
                if out.get(k) == ("own",):
                    co[k] = v
        return (out, ap, co)

    def block(self, body):
        for s in body:
            self.stmt(s)

    def stmt(self, s):
        self.cur = getattr(s, "lineno", self.cur)
        if isinstance(s, ast.Assign):
            c = self.classify(s.value)
            self.calls_in(s.value)
            for t in s.targets:
                self.target_bind(t, c)
                if c[0] == "fresh" and isinstance(t, ast.Name):
                    self.bind_elements(t.id, s.value, {})
        elif isinstance(s, ast.AnnAssign):
            if s.value is not None:
                self.calls_in(s.value)
                c = self.classify(s.value)
                self.target_bind(s.target, c)
                if c[0] == "fresh" and isinstance(s.target, ast.Name):
                    self.bind_elements(s.target.id, s.value, {})
        elif isinstance(s, ast.AugAssign):
            self.calls_in(s.value)
            if isinstance(s.target, ast.Subscript):
                self.write(s.target.value, "IAdd")
            else:
                instr = "IDiff" if isinstance(s.op, (ast.Sub, ast.BitAnd)) else "IUnion"
                self.write(s.target, instr, None)
        elif isinstance(s, ast.Expr):
            self.calls_in(s.value)
        elif isinstance(s, ast.Delete):
            for t in s.targets:
                if isinstance(t, ast.Subscript):
                    self.write(t.value, "IDel")
                elif isinstance(t, ast.Attribute):
                    kind, q = self.resolve(self.raw_path(t.value) or "?")
                    if kind == "foreign":
                        self.emit(f"IDel {self.root_id(q)} 1")
        elif isinstance(s, ast.If):
            self.calls_in(s.test)
            pre = self.snapshot()
            self.block(s.body)
            a = self.snapshot()
            self.restore(pre)
            self.block(s.orelse)
            b = self.snapshot()
            self.restore(self.merge(a, b))
        elif isinstance(s, (ast.For, ast.AsyncFor)):
            self.calls_in(s.iter)
            pre = self.snapshot()
            for _ in range(2):
                self.target_bind(s.target, self.element_class(s.iter))
                self.block(s.body)
            a = self.snapshot()
            self.restore(self.merge(pre, a))
            self.block(s.orelse)
        elif isinstance(s, ast.While):
            self.calls_in(s.test)
            pre = self.snapshot()
            for _ in range(2):
                self.block(s.body)
            a = self.snapshot()
            self.restore(self.merge(pre, a))
            self.block(s.orelse)
        elif isinstance(s, ast.With):
            for it in s.items:
                self.calls_in(it.context_expr)
                if it.optional_vars is not None:
                    self.target_bind(it.optional_vars, ("fresh", None))
            self.block(s.body)
        elif isinstance(s, ast.Try):
            pre = self.snapshot()
            self.block(s.body)
            a = self.snapshot()
            for h in s.handlers:
                self.restore(pre)
                self.block(h.body)
                a = self.merge(a, self.snapshot())
            self.restore(a)
            self.block(s.orelse)
            self.block(s.finalbody)
        elif isinstance(s, ast.Return):
            if s.value is not None:
                self.calls_in(s.value)
        elif isinstance(s, (ast.Assert, ast.Raise)):
            for v in ast.iter_child_nodes(s):
                if isinstance(v, ast.expr):
                    self.calls_in(v)
        elif isinstance(s, (ast.Pass, ast.Continue, ast.Break, ast.Import, ast.ImportFrom, ast.Global, ast.Nonlocal)):
            pass
        elif isinstance(s, (ast.FunctionDef, ast.ClassDef)):
            self.notes.append(f"nested definition {s.name} not analysed")
        else:
            raise Unknown(type(s).__name__)

    def calls_in(self, e):
        """mutating method calls anywhere inside an expression"""
        for n in ast.walk(e):
            if isinstance(n, ast.Call) and isinstance(n.func, ast.Attribute) and n.func.attr in MUTATORS:
                arg = None
                if n.func.attr in ("update", "extend", "difference_update", "intersection_update", "symmetric_difference_update") and n.args:
                    c = self.classify(n.args[0])
                    if c[0] == "alias":
                        arg = self.root_id(c[1])
                    elif c[0] == "localalias":
                        arg = self.vid(c[1])
                self.write(n.func.value, MUTATORS[n.func.attr], arg)
            if isinstance(n, (ast.ListComp, ast.SetComp, ast.DictComp, ast.GeneratorExp)):
                for g in n.generators:      # comprehension variables are locals of the comprehension
                    for t in ast.walk(g.target):
                        if isinstance(t, ast.Name):
                            self.locals.add(t.id)


def find_function(tree, qual):
    parts = qual.split(".")
    nodes = tree.body
    node = None
    for p in parts:
        node = next((n for n in nodes if isinstance(n, (ast.FunctionDef, ast.ClassDef)) and n.name == p), None)
        if node is None:
            return None
        nodes = node.body
    return node if isinstance(node, ast.FunctionDef) else None


LINES = {}


def translate_all():
    out, status = [], {}
    for label, rel, qual in FUNCTIONS:
        src = open(os.path.join(REPO, rel)).read()
        fn = find_function(ast.parse(src), qual)
        if fn is None:
            status[label] = "missing"
            out.append((label, rel, qual, ["IAdd 0 1"], ["function not found: fail-closed"]))
            continue
        tr = Tr(fn)
        try:
            tr.block(fn.body)
            status[label] = "ok"
            prog = tr.prog
        except Unknown as ex:
            status[label] = f"unknown statement {ex}"
            prog = ["IAdd 0 1"]
        out.append((label, rel, qual, prog, tr.notes))
        LINES[label] = tr.lines
    return out, status


def render(out):
    L = ["(* GENERATED by harness/gen_frame.py from /repo's current sources - do not edit.",
         "   One straight-line aliasing program (theories/Frame.v) per operation that touches the loaded database or the sample evidence. *)",
         "From Coq Require Import String.", "From Aldy Require Import Base Consts Frame.", "Import List.", "Open Scope Z_scope.", ""]
    names = []
    for k, (label, rel, qual, prog, notes) in enumerate(out):
        nm = f"here_op_{k}"
        names.append((label, nm))
        L.append(f"(* {rel}: {qual}" + ("; " + "; ".join(notes) if notes else "") + " *)")
        body = "; ".join(prog)
        L.append(f"Definition {nm} : prog := [{body}].")
    L.append("")
    L.append("Definition ops_here : list (str * prog) :=")
    L.append("  [" + ";\n   ".join(f'(s "{label}", {nm})' for label, nm in names) + "].")
    return "\n".join(L) + "\n"


def main():
    out, status = translate_all()
    dst = sys.argv[1] if len(sys.argv) > 1 else os.path.join(os.path.dirname(os.path.dirname(os.path.abspath(__file__))), "coq", "gen", "Frame_here.v")
    open(dst, "w").write(render(out))
    json.dump(status, open(os.path.join(os.path.dirname(dst), "frame_status.json"), "w"), indent=1)
    for (label, rel, qual, prog, notes) in out:
        print(f"{label:42s} {len(prog):4d} instructions  {status[label]}")


if __name__ == "__main__":
    main()
