"""C19 — no genotype is reported from no data.

Correspondence: aldy.genotype.genotype() on simulated alignment files (outcome class, error kind, simple-format line)
                vs coq/theories/Guards.v `guard` evaluated on the numeric evidence of the same files (per-position totals,
                neutral sums, region sums, profile values taken from the implementation's own Sample/Profile objects).
Predicate     : Guards.holds_no_call (error, no call in any output, empty result line in simple output) on the
                implementation's behaviour for the clauses no-reads / low-depth / empty-neutral; for pseudogene-only
                reads: every reported solution is the whole-gene deletion on both haplotypes."""
import io, json, os, re, shutil, sys, tempfile, contextlib, traceback
from fractions import Fraction
import common
from common import cz, cq, cbool, clist

IMPORTS = ["Base", "Consts", "Guards", "Consts_here"]
CHROM = "20"
NEUT = (30000, 30400)          # neutral region used by every case (same chromosome, far from the locus)
LN = 60000

SLINE = {0: "not-simple", 1: "absent", 2: "unterminated", 3: "empty"}
ERRS = {0: "NeutralEmpty", 1: "NeutralRatio", 2: "NeutralThin", 3: "LowAverage", 4: "CnLowDepth", 5: "IllFormed"}


# ------------------------------------------------------------------ databases (TOY moved to small coordinates)
def toy_text(nocn=False):
    from aldy.common import script_path
    t = open(script_path("aldy.tests.resources/toy.yml")).read()
    for a, b in (("1000000", "100"), ("1000001", "101"), ("1000002", "102"), ("2000000", "200"), ("2000001", "201"), ("2000002", "202")):
        t = re.sub(r"\b" + a + r"(\d\d)\b", b + r"\1", t)
    if nocn:
        import yaml
        y = yaml.safe_load(t)
        for k in ("TOY*4.001", "TOY*5.001", "TOY*6.001"):
            del y["alleles"][k]
        y["structure"].pop("tandems", None)
        t = yaml.dump(y, default_flow_style=None, sort_keys=False)
    return t


class World:
    """per-run scratch directory with the databases, reference BAMs and profile files"""

    def __init__(self, d):
        from aldy.gene import Gene
        self.d = d
        self.db, self.gene = {}, {}
        for name, nocn in (("toy", False), ("toynocn", True)):
            p = os.path.join(d, name + ".yml")
            open(p, "w").write(toy_text(nocn))
            self.db[name] = p
            for build in ("hg19", "hg38"):
                self.gene[name, build] = Gene(p, genome=build)
        self.prof = {}

    def locus(self, db, build):
        g = self.gene[db, build]
        w = g.get_wide_region()
        return w.start, w.end

    def parts(self, db, build):
        """(gene span, pseudogene span) as half-open intervals"""
        g = self.gene[db, build]
        sp = []
        for gr in g.regions:
            sp.append((min(r.start for r in gr.values()), max(r.end for r in gr.values())))
        return sp

    def refbase(self, db, build, i):
        b = self.gene[db, build][i]
        return b if b in "ACGT" else "A"

    def profile_files(self, db, build):
        """reference sample (two copies, depth 20 everywhere) -> (BAM path, YAML profile path)"""
        key = (db, build)
        if key not in self.prof:
            import yaml
            from aldy.profile import Profile
            from aldy.gene import GRange
            g = self.gene[key]
            lo, hi = self.locus(db, build)
            bam = os.path.join(self.d, f"ref_{db}_{build}.bam")
            write_bam(self, db, build, bam, [[lo - 60, hi + 60, 20, 40], [NEUT[0] - 50, NEUT[1] + 50, 20, 40]])
            regions = {(g.name, r, gi): rng for gi, gr in enumerate(g.regions) for r, rng in gr.items()}
            data = Profile.get_sam_profile_data(bam, regions=regions, cn_region=GRange(CHROM, *NEUT), genome=build)
            yml = os.path.join(self.d, f"ref_{db}_{build}.yml")
            open(yml, "w").write(yaml.dump(data, default_flow_style=None))
            self.prof[key] = (bam, yml)
        return self.prof[key]


def tile(lo, hi, depth, L):
    """reads (start, end) giving exactly `depth` at every position of [lo, hi) and nothing outside"""
    out = []
    for k in range(depth):
        s = lo - (k * L) // depth
        while s < hi:
            a, b = max(s, lo), min(s + L, hi)
            if b > a:
                out.append((a, b))
            s += L
    return out


def write_bam(world, db, build, path, segments, decoy=None):
    """decoy: segments written on ANOTHER contig whose name ends with the gene's contig name ("1" + CHROM), at the same coordinates;
    the file is then written as plain SAM text without an index (every record goes through the loader's own locus test)"""
    import pysam
    reads = []
    for lo, hi, depth, L in segments:
        reads += [(0, a, b) for a, b in tile(lo, hi, depth, L)]
    for lo, hi, depth, L in (decoy or []):
        reads += [(1, a, b) for a, b in tile(lo, hi, depth, L)]
    reads.sort()
    sq = [{"SN": CHROM, "LN": LN}] + ([{"SN": "1" + CHROM, "LN": LN}] if decoy else [])
    hdr = {"HD": {"VN": "1.0", "SO": "coordinate"}, "SQ": sq}
    with pysam.AlignmentFile(path, "w" if decoy else "wb", header=hdr) as f:
        for i, (rid, a, b) in enumerate(reads):
            r = pysam.AlignedSegment()
            r.query_name = f"r{i}"
            r.query_sequence = "".join(world.refbase(db, build, j) for j in range(a, b))
            r.flag = 0
            r.reference_id = rid
            r.reference_start = a
            r.mapping_quality = 60
            r.cigar = ((0, b - a),)
            r.query_qualities = pysam.qualitystring_to_array("I" * (b - a))
            f.write(r)
    if not decoy:
        pysam.index(path)
    return [(a, b) for rid, a, b in reads if rid == 0]


# ------------------------------------------------------------------ case generation
LAYOUTS = ["none", "far", "near", "adjacent", "thin", "partial-thin", "pseudo-only", "nonunique-only", "ok"]


def gen_case(rng, k, world, force=None):
    db = "toy" if rng.random() < 0.8 else "toynocn"
    build = rng.choice(["hg19", "hg38"])
    lo, hi = world.locus(db, build)
    (glo, ghi), (plo, phi) = world.parts(db, build)
    L = rng.choice([20, 25, 30, 40, 50, 60])
    layout = force or rng.choice(LAYOUTS)
    mode = rng.choice(["yaml", "bam", "supplied", "supplied"])
    min_avg = rng.choice([None, None, None, 1.0, 3.0, 5.0, 10.0, 2.5, 3.9, 4.2, 0.5])      # incl. non-integral minima
    m = 2.0 if min_avg is None else min_avg
    D = rng.choice([8, 12, 20, 30, 45])
    if D <= m + 1:
        D = int(m) + rng.choice([4, 10])
    seg = []
    if layout == "far":
        a = rng.choice([lo - rng.randint(700, 3000), hi + rng.randint(700, 3000)])
        seg.append([a, a + rng.randint(60, 300), D, L])
    elif layout == "near":
        gap = rng.randint(1, 40)
        if rng.random() < 0.5:
            seg.append([lo - gap - rng.randint(40, 200), lo - gap, D, L])
        else:
            seg.append([hi + gap, hi + gap + rng.randint(40, 200), D, L])
    elif layout == "adjacent":
        side = rng.choice(["left", "right", "both"])
        if side in ("left", "both"):
            seg.append([lo - rng.randint(40, 200), lo, D, L])
        if side in ("right", "both"):
            seg.append([hi, hi + rng.randint(40, 200), D, L])
    elif layout == "thin":
        d = rng.randint(1, max(1, int(m)))                         # depth <= minimum everywhere
        seg.append([lo - rng.randint(0, 50), hi + rng.randint(0, 50), d, L])
    elif layout == "partial-thin":
        d = rng.randint(1, max(1, int(m)))
        a = rng.randint(lo, hi - 30)
        seg.append([a, min(hi, a + rng.randint(20, 120)), d, L])
    elif layout == "pseudo-only":
        # whole pseudogene, nothing of the gene; flank on the far side only
        if plo < glo:
            seg.append([plo - rng.randint(0, 60), min(phi, glo), D, L])
        else:
            seg.append([max(plo, ghi), phi + rng.randint(0, 60), D, L])
    elif layout == "nonunique-only":
        g = world.gene[db, build]
        r = g.regions[0]["down"]
        seg.append([r.start + rng.randint(0, 5), r.end - rng.randint(0, 5), D, L])
    elif layout == "ok":
        seg.append([lo - rng.randint(0, 60), hi + rng.randint(0, 60), D, L])
    neutral = rng.choice(["ok", "ok", "ok", "empty", "adjacent", "thin"]) if mode != "supplied" else rng.choice(["ok", "empty"])
    if layout == "pseudo-only" and rng.random() < 0.8:
        neutral = "ok"
    if neutral == "ok":
        seg.append([NEUT[0] - rng.randint(0, 60), NEUT[1] + rng.randint(0, 60), D, L])
    elif neutral == "adjacent":
        seg.append([NEUT[0] - rng.randint(30, 90), NEUT[0], D, L])
        seg.append([NEUT[1], NEUT[1] + rng.randint(30, 90), D, L])
    elif neutral == "thin":
        seg.append([NEUT[0], NEUT[1], 1, L])
    if mode == "supplied":
        g = world.gene[db, build]
        dele = g.deletion_allele()
        if layout == "pseudo-only" and dele and rng.random() < 0.5:
            cn = [dele, dele]
        else:
            cn = rng.choice([["1", "1"], ["1", "1"], ["1"], ["1", "1", "1"]])
    else:
        cn = None
    fmt = rng.choice(["simple", "simple", "aldy", "vcf", "none", "flag-simple"])
    route = "cli" if (rng.random() < 0.12 and fmt in ("simple", "aldy", "vcf")) else "api"
    case = {"id": k, "db": db, "build": build, "layout": layout, "neutral": neutral, "mode": mode, "cn": cn, "fmt": fmt,
            "min_avg": min_avg, "segments": seg, "route": route}
    if rng.random() < 0.2 and mode != "bam":
        # plain SAM text, and well-covered reads at the locus and the neutral region of ANOTHER contig whose name ends with the gene's
        case["decoy"] = [[lo - 40, hi + 40, 20, L], [NEUT[0] - 40, NEUT[1] + 40, 20, L]]
    return case


def witnesses(world):
    """fixed cases run first: they decide which variant of each switch the tree implements"""
    lo, hi = world.locus("toy", "hg19")
    g = world.gene["toy", "hg19"]
    down = g.regions[0]["down"]
    nz = [NEUT[0] - 20, NEUT[1] + 20, 20, 40]
    base = {"db": "toy", "build": "hg19", "min_avg": None, "route": "api"}
    return [
        dict(base, id="w-needs-neutral", layout="none", neutral="ok", mode="supplied", cn=["1", "1"], fmt="simple", segments=[nz]),
        dict(base, id="w-late-header", layout="ok", neutral="empty", mode="bam", cn=None, fmt="simple", segments=[[lo - 20, hi + 20, 20, 40]]),
        dict(base, id="w-cn-unterminated", layout="nonunique-only", neutral="ok", mode="bam", cn=None, fmt="simple",
             segments=[[down.start, down.end, 20, 40], nz]),
    ]


# ------------------------------------------------------------------ running the implementation
def classify_error(msg):
    if "has no reads" in msg:
        return "NeutralEmpty"
    if "Invalid CN-neutral region" in msg:
        return "NeutralRatio"
    if "average coverage of the sample is too low" in msg:
        return "NeutralThin"
    if msg.startswith("Average coverage of"):
        return "LowAverage"
    if "too low for copy number calling" in msg:
        return "CnLowDepth"
    if "No solutions found" in msg or "No major solutions found" in msg or "could not phase" in msg:
        return "stage:" + msg.split("\n")[0][:40]
    return "other:" + msg.split("\n")[0][:80]


def file_calls(fmt, text, sample, gname):
    """(has a call, simple-line kind)"""
    if fmt in ("simple", "flag-simple"):
        if text == "":
            return False, "absent"
        if text == f"{sample}\t{gname}\t":
            return False, "unterminated"
        if text == f"{sample}\t{gname}\t\n":
            return False, "empty"
        return True, "call:" + text.strip()[:80]
    if fmt == "aldy":
        return any(ln and not ln.startswith("#") for ln in text.split("\n")), "not-simple"
    if fmt == "vcf":
        return any(ln and not ln.startswith("#") for ln in text.split("\n")), "not-simple"
    return False, "not-simple"


def run_impl(case, world, d, bam):
    """the real genotype() (or the real command line) on the case -> observation dict"""
    from aldy.genotype import genotype
    from aldy.gene import GRange
    from aldy.common import AldyException
    db, build = case["db"], case["build"]
    gname = world.gene[db, build].name
    sample = os.path.basename(bam).split(".")[0]
    ref_bam, ref_yml = world.profile_files(db, build)
    fmt = case["fmt"]
    ext = {"simple": ".simple", "aldy": ".aldy", "vcf": ".vcf", "flag-simple": ".txt"}.get(fmt)
    out_path = os.path.join(d, "out" + ext) if ext else None
    params = {}
    if case["min_avg"] is not None:
        params["min_avg_coverage"] = case["min_avg"]
    if case.get("decoy"):
        params["indelpost"] = "false"  # the realigner needs an indexed file; plain SAM text has none
    profile = {"yaml": ref_yml, "bam": ref_bam, "supplied": None}[case["mode"]]
    cn_region = GRange(CHROM, *NEUT) if case["mode"] == "bam" else None
    obs = {"error": None, "kind": None, "calls": [], "crash": None}
    if case["route"] == "cli":
        import aldy.__main__ as M
        import logbook

        class _NoHandler:
            def __init__(self, *a, **k):
                pass

            def push_application(self):
                pass

        args = ["genotype", bam, "--gene", world.db[db], "--genome", build, "--output", out_path]
        if profile:
            args += ["--profile", profile]
        if cn_region:
            args += ["--cn-neutral-region", f"{CHROM}:{NEUT[0]}-{NEUT[1]}"]
        if case["cn"]:
            args += ["--cn", ",".join(case["cn"])]
        for k, v in params.items():
            args += ["--param", f"{k}={v}"]
        old = M.logbook.more.ColorizedStderrHandler
        M.logbook.more.ColorizedStderrHandler = _NoHandler
        th = logbook.TestHandler(bubble=False)
        th.push_application()
        try:
            with contextlib.redirect_stdout(io.StringIO()), contextlib.redirect_stderr(io.StringIO()):
                try:
                    M.main(args)
                except SystemExit as e:
                    if e.code not in (0, None):
                        obs["crash"] = f"exit {e.code}"
        finally:
            th.pop_application()
            M.logbook.more.ColorizedStderrHandler = old
        errs = [str(r.message) for r in th.records if r.level_name == "ERROR"]
        crit = [str(r.message) for r in th.records if r.level_name == "CRITICAL"]
        if obs["crash"]:
            obs["crash"] += " " + " | ".join(crit)[:200]
        elif errs:
            obs["error"] = errs[0]
            obs["kind"] = classify_error(errs[0])
        # the command line reports the calls in its log ("<gene> results:" followed by "  - *a / *b")
        ansi = re.compile(r"(\x9B|\x1B\[)[0-?]*[ -\/]*[@-~]")
        for r in th.records:
            mm = re.match(r"^  - (\*.*)$", ansi.sub("", str(r.message)))
            if mm and r.level_name == "INFO":
                obs["calls"].append(mm.group(1).replace(" ", ""))
        text = open(out_path).read() if os.path.exists(out_path) else ""
    else:
        f = open(out_path, "w") if out_path else None
        try:
            try:
                res = genotype(world.db[db], bam, profile, f, cn_region=cn_region, cn_solution=case["cn"], genome=build,
                               is_simple=(fmt == "flag-simple"), **params)
                for sols in res.values():
                    for m in sols:
                        obs["calls"].append(m.get_major_diplotype().replace(" ", ""))
            except AldyException as e:
                obs["error"] = str(e)
                obs["kind"] = classify_error(str(e))
            except Exception:
                obs["crash"] = traceback.format_exc()[-400:]
        finally:
            if f:
                f.close()
        text = open(out_path).read() if out_path else ""
    has, line = file_calls(fmt, text, sample, gname)
    obs["file_call"] = has
    obs["line"] = line
    obs["text"] = text[:200]
    if fmt in ("simple", "flag-simple") and has:
        # result fields of the simple format: major diplotypes at even offsets
        fields = text.strip("\n").split("\t")[2:]
        obs["simple_majors"] = [x for x in fields[0::2] if x]
    return obs


def extract_evidence(case, world, bam):
    """numbers the guards look at, taken from the implementation's own objects (no guard is executed here)"""
    from aldy.sam import Sample
    from aldy.profile import Profile
    from aldy.gene import GRange
    g = world.gene[case["db"], case["build"]]
    params = {}
    if case["min_avg"] is not None:
        params["min_avg_coverage"] = case["min_avg"]
    raw = Profile("user_provided", cn_solution=["1", "1"], **params)      # no neutral region: Sample() cannot raise a guard error
    s = Sample(g, raw, bam)
    cov = s.coverage
    # the minimum the user configured (the profile's own attribute only when nothing was configured)
    ev = {"sites": [int(cov.total(p)) for p in cov._coverage],
          "min_avg": Fraction(repr(float(case["min_avg"] if case["min_avg"] is not None else raw.min_avg_coverage))),
          "neutral": None, "neutral_value": Fraction(0), "regions": [], "cn_min": 0}
    if case["mode"] == "supplied":
        ev["struct"] = "Supplied"
        return ev
    ref_bam, ref_yml = world.profile_files(case["db"], case["build"])
    prof = Profile.load(g, ref_yml if case["mode"] == "yaml" else ref_bam, GRange(CHROM, *NEUT) if case["mode"] == "bam" else None, **params)
    cnr = prof.cn_region
    tab = dict(s._load_cn_region(bam, None, cnr))
    ev["neutral"] = (sum(tab.get(i, 0) for i in range(cnr.start, cnr.end)), sum(tab.values()), abs(cnr.end - cnr.start))
    ev["neutral_value"] = Fraction(prof.neutral_value).limit_denominator(10 ** 6)
    for r in g.unique_regions:
        for gi in range(len(g.regions)):
            rng = g.regions[gi][r]
            sm = int(sum(cov.total(i) for i in range(rng.start, rng.end)))
            ev["regions"].append((sm, Fraction(prof.data[g.name][r][gi]).limit_denominator(10 ** 6)))
    ev["cn_min"] = min(sum(sum(v.values()) for v in c.cn) for c in g.cn_configs.values())
    ev["struct"] = "Estimated" if g.do_copy_number else "DefaultCN"
    return ev


def ev_term(ev, simple):
    neutral = "None" if ev["neutral"] is None else "(Some {| n_in := %s; n_all := %s; n_len := %s |})" % tuple(cz(x) for x in ev["neutral"])
    regs = clist(ev["regions"], lambda sp: f"({cz(sp[0])}, {cq(sp[1])})")
    return ("{| ev_sites := %s; ev_neutral := %s; ev_neutral_value := %s; ev_min_avg := %s; ev_regions := %s; "
            "ev_cn_min := %s; ev_struct := %s; ev_simple := %s |}") % (
        clist(ev["sites"], cz), neutral, cq(ev["neutral_value"]), cq(ev["min_avg"]), regs, cz(ev["cn_min"]), ev["struct"], cbool(simple))


def variant_term(v):
    return "{| needs_neutral := %s; late_header := %s; cn_unterminated := %s |}" % tuple(cbool(v[k]) for k in ("needs_neutral", "late_header", "cn_unterminated"))


def obs_term(obs):
    ln = {"not-simple": "NotSimple", "absent": "NoLine", "unterminated": "Unterminated", "empty": "EmptyLine"}.get(obs["line"], "NotSimple")
    call = bool(obs["calls"]) or obs["file_call"]
    return "{| ob_error := %s; ob_call := %s; ob_line := %s |}" % (cbool(obs["error"] is not None and not obs["crash"]), cbool(call), ln)


def decode_guard(v):
    o = v[0]
    res = ("Proceed", None) if o[0] == 0 else (ERRS[o[1]], SLINE[o[2]])
    avg = common.dq(v[1])
    extra = common.dopt(v[2], lambda x: (common.dq(x[0]), common.dq(x[1])))
    return res, avg, extra


# ------------------------------------------------------------------ the property's demands
def read_stats(case, world):
    """independent of the implementation: what the reads of the case cover (from the read list alone)"""
    lo, hi = world.locus(case["db"], case["build"])
    depth = {}
    for a, b, d, L in case["segments"]:
        for (x, y) in tile(a, b, d, L):
            for i in range(x, y):
                depth[i] = depth.get(i, 0) + 1
    locus = [depth.get(i, 0) for i in range(lo, hi)]
    (glo, ghi), (plo, phi) = world.parts(case["db"], case["build"])
    gene_cov = sum(depth.get(i, 0) for i in range(glo, ghi))
    pseudo = [depth.get(i, 0) for i in range(plo, phi) if not (glo <= i < ghi)]
    neut = sum(depth.get(i, 0) for i in range(*NEUT))
    covered = [x for x in locus if x > 0]
    return {"locus_bases": sum(locus), "max_depth": max(locus) if locus else 0, "gene_bases": gene_cov,
            "pseudo_min": min(pseudo) if pseudo else 0, "neutral_bases": neut,
            "avg_covered": (Fraction(sum(covered), len(covered)) if covered else Fraction(0))}


def demands(case, world, st):
    """clauses of the property that apply to this input -> list of clause names"""
    m = Fraction(repr(case["min_avg"])) if case["min_avg"] is not None else Fraction(2)
    out = []
    if st["locus_bases"] == 0:
        out.append("no-reads")
    elif st["max_depth"] <= m and m > 0:
        out.append("low-depth")               # every covered base at depth <= minimum: the average is below it
    if case["mode"] != "supplied" and st["neutral_bases"] == 0:
        out.append("empty-neutral")
    if (not out and st["gene_bases"] == 0 and st["pseudo_min"] > m + 2 and case["neutral"] == "ok"
            and world.gene[case["db"], case["build"]].deletion_allele()):
        if case["mode"] != "supplied" or set(case["cn"]) == {world.gene[case["db"], case["build"]].deletion_allele()}:
            out.append("pseudogene-only-deletion")
    return out


def structure_label(case, world):
    if case["mode"] == "supplied":
        return "supplied"
    return "estimated" if world.gene[case["db"], case["build"]].do_copy_number else "default"


# ------------------------------------------------------------------ evaluation
def evaluate(chk, cases, world, variant=None):
    results = []
    with tempfile.TemporaryDirectory(dir=common.SCRATCH) as d:
        for k, case in enumerate(cases):
            # every other sample is called "sample.bam" (in a directory of its own): different files with ONE base name loaded in
            # one process - whatever is remembered per sample name instead of per file shows as a call on an empty locus / region
            sub = os.path.join(d, f"dir{k}")
            os.makedirs(sub, exist_ok=True)
            bam = os.path.join(sub, "sample.bam") if k % 2 else os.path.join(d, f"s{k}.bam")
            if case.get("decoy"):
                bam = bam[:-4] + ".sam"
            write_bam(world, case["db"], case["build"], bam, case["segments"], decoy=case.get("decoy"))
            obs = run_impl(case, world, d, bam)
            try:
                ev = extract_evidence(case, world, bam)
            except Exception:
                ev = None
                obs["evidence_crash"] = traceback.format_exc()[-400:]
            results.append((case, obs, ev))
            shutil.rmtree(sub, ignore_errors=True)
            for f in os.listdir(d):
                if f.startswith(f"s{k}.") or f.startswith("out"):
                    os.remove(os.path.join(d, f))
    if variant is None:
        # which behaviour does the tree implement? replay the three witnesses (they are the first three cases)
        by = {c["id"]: o for c, o, _ in results}
        variant = {
            "needs_neutral": bool(by["w-needs-neutral"]["calls"]) and by["w-needs-neutral"]["error"] is None,
            "late_header": by["w-late-header"]["line"] == "absent",
            "cn_unterminated": by["w-cn-unterminated"]["line"] == "unterminated",
        }
        chk.notes.append(f"[C19] switches implemented by the tree: {variant}")
    terms = []
    for case, obs, ev in results:
        simple = case["fmt"] in ("simple", "flag-simple")
        if ev is not None:
            terms.append(f"o_guard here {variant_term(variant)} {ev_term(ev, simple)}")
            terms.append(f"o_guard here g_fixed {ev_term(ev, simple)}")
        else:
            terms += ["OL []", "OL []"]
        terms.append(f"o_bool (holds_no_call {cbool(simple)} {obs_term(obs)})")
    vals = common.coq_eval(IMPORTS, terms, shard=150) if chk.model_available() else None
    for i, (case, obs, ev) in enumerate(results):
        st = read_stats(case, world)
        dem = demands(case, world, st)
        simple = case["fmt"] in ("simple", "flag-simple")
        struct = structure_label(case, world)
        stream = "witness" if str(case["id"]).startswith("w-") else case["layout"]
        canon = {k: case[k] for k in ("db", "build", "layout", "neutral", "mode", "cn", "fmt", "min_avg", "segments", "route")}
        chk.case(stream, canon, nontrivial=bool(dem) or obs["error"] is not None,
                 sample={**canon, "demands": dem, "observed": {k: obs[k] for k in ("kind", "calls", "line", "crash")}})
        chk.count(stream, "structure:" + struct)
        chk.count(stream, "format:" + case["fmt"])
        chk.count(stream, "outcome:" + (obs["kind"] or ("crash" if obs["crash"] else "call")))
        for cl in dem:
            chk.count("demands", cl + "/" + struct)
        # ---- step 3: correspondence with the model of the variant the tree implements
        holds = None
        if vals is not None:
            gv, gf, hv = vals[3 * i], vals[3 * i + 1], vals[3 * i + 2]
            holds = bool(hv)
            if ev is None or not gv:
                chk.mismatch("guard-evidence", case, None, obs.get("evidence_crash"))
            else:
                (mres, avg, extra) = decode_guard(gv)
                m = ev["min_avg"]
                tie = abs(avg - m) < Fraction(1, 10 ** 9)
                if extra:
                    tie = tie or abs(extra[0] - 2) < Fraction(1, 10 ** 9) or abs(extra[1] - Fraction(ev["cn_min"], 2)) < Fraction(1, 10 ** 9)
                if obs["crash"]:
                    ires = ("crash", None)
                elif obs["kind"] is None or obs["kind"].startswith("stage:"):
                    ires = ("Proceed", None)
                else:
                    ires = (obs["kind"], obs["line"])
                if tie:
                    chk.count(stream, "threshold-tie-skipped")
                elif ires != mres:
                    chk.mismatch("guard-outcome", case, {"model": mres, "avg": str(avg), "variant": variant}, {"implementation": ires, "msg": obs["error"]})
        # ---- step 4: the property predicate on the implementation's behaviour
        for cl in dem:
            desc = {"structure": struct, "reads": case["layout"], "neutral": case["neutral"], "profile": case["mode"],
                    "output": case["fmt"], "route": case["route"], "db": case["db"]}
            if cl == "pseudogene-only-deletion":
                dele = world.gene[case["db"], case["build"]].deletion_allele()
                want = f"*{dele}/*{dele}"
                ok = (obs["error"] is None and not obs["crash"])
                ok = ok and obs["calls"] and all(c == want for c in obs["calls"])
                if simple:
                    ok = ok and obs.get("simple_majors") and all(c == want for c in obs["simple_majors"])
                elif case["fmt"] == "aldy":
                    # a homozygous deletion has no allele rows: the decomposition file only holds "#Solution 1: " (see report, C12)
                    ok = ok and "#Solution 1" in obs["text"]
                elif case["fmt"] == "vcf":
                    ok = ok and obs["text"].startswith("##fileformat")      # a deletion has no variant record to list
                if not ok:
                    chk.fail(cl, dict(desc, failure="not-called-as-deletion"), case, want, obs)
                continue
            if holds is None:
                # model unavailable: the same boolean in Python (trusted harness)
                call = bool(obs["calls"]) or obs["file_call"]
                holds = (obs["error"] is not None and not obs["crash"] and not call
                         and obs["line"] == ("empty" if simple else "not-simple"))
            if not holds:
                call = bool(obs["calls"]) or obs["file_call"]
                if obs["crash"]:
                    failure = "crash"
                elif call or obs["error"] is None:
                    failure = "call-reported"
                elif simple and obs["line"] != "empty":
                    failure = "simple-line-" + obs["line"]
                else:
                    failure = "other"
                chk.fail(cl, dict(desc, failure=failure), case,
                         {"error": True, "call": False, "simple_line": "empty" if simple else "not-simple"},
                         {"error": obs["error"], "calls": obs["calls"], "file_call": obs["file_call"], "line": obs["line"], "text": obs["text"]})
    return variant


def run(chk):
    chk.rule = ("cases = simulated BAMs over TOY moved to small coordinates (both builds = both strands; with and without "
                "copy-number alleles) whose reads avoid the locus (none/far/near/adjacent), cover it at depth <= the minimum "
                "(thin/partial-thin), cover only the pseudogene, only a non-unique region, or cover it well (control), x neutral "
                "region ok/empty/adjacent/thin x {profile file, BAM as profile, supplied structure} x {simple, aldy, vcf, none, "
                "is_simple flag} x {API, command line}; non-trivial = some clause of the property applies or the run ended in an "
                "error; distinct = distinct (database, build, layout segments, neutral, mode, structure, format, min_avg, route)")
    chk.extra_trusted = ["pysam BAM writer/reader; the evidence fed to the guard model is read from the implementation's own "
                         "Sample/Profile objects (the pileup itself is C06's subject)"]
    chk.assumptions = ["guard model starts after the pileup: per-position totals, neutral sums, region sums, profile values",
                       "float comparisons within 1e-9 of a threshold are skipped in the correspondence (none expected: inputs are integers)"]
    chk.build()
    q = chk.tier == "quick"
    n = 260 if q else 2500
    os.makedirs(common.SCRATCH, exist_ok=True)
    with tempfile.TemporaryDirectory(dir=common.SCRATCH) as d:
        world = World(d)
        cases = witnesses(world)
        corpus = os.path.join(common.VERIF, "corpus", "C19.json")
        if os.path.exists(corpus):
            cases += json.load(open(corpus))
        k = 0
        for lay in LAYOUTS:                       # every layout x every mode at least once
            for mode in ("yaml", "bam", "supplied"):
                c = gen_case(chk.rng, f"g{k}", world, force=lay)
                c["mode"] = mode
                if mode == "supplied" and not c["cn"]:
                    c["cn"] = ["1", "1"]
                if mode != "supplied":
                    c["cn"] = None
                cases.append(c)
                k += 1
        while k < n:
            cases.append(gen_case(chk.rng, f"g{k}", world))
            k += 1
        evaluate(chk, cases, world)


def replay(chk, path):
    r = json.load(open(path))
    chk.build()
    with tempfile.TemporaryDirectory(dir=common.SCRATCH) as d:
        world = World(d)
        evaluate(chk, witnesses(world) + [r["case"]], world)
    bad = [f for f in chk.failures if f["case"].get("id") == r["case"].get("id")]
    for f in bad:
        print("still failing:", f["clause"], json.dumps(f["desc"]), json.dumps(f["observed"], default=str)[:400])
    print("REPLAY", "FAILS" if bad else "passes")
    return 1 if bad else 0
