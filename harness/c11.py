"""C11 — the diplotype is a faithful arrangement of the called alleles.

Correspondence: aldy.diplotype.estimate_diplotype + MinorSolution.get_major_diplotype / get_minor_diplotype
                vs coq/theories/Diplotype.v (arrange, major_diplotype, minor_diplotype), every permutation of a multiset;
                natsort's default key vs coq/theories/NatSort.v (nkey, comparison, stable sort) on every name that occurs.
Predicate     : evaluated on the implementation's arrangement and string only (no model output): clauses
                partition, nonempty, deletion-placeholders, names, tandem-adjacent, sorted, order-free."""
import copy, itertools, json, os, re
from collections import Counter
import common
from common import cz, cstr, clist, cpair, copt, cbool

IMPORTS = ["Base", "Consts", "NatSort", "Diplotype"]
GENES = {
    "TOY": "aldy.tests.resources/toy.yml",
    "CYP2D6": "aldy.resources.genes/cyp2d6.yml",
    "CYP2A6": "aldy.resources.genes/cyp2a6.yml",
    "CYP2C19": "aldy.resources.genes/cyp2c19.yml",
    "GSTM1": "aldy.resources.genes/gstm1.yml",
}
ERR = {IndexError: 1, AssertionError: 2, TypeError: 3}
_G = {}


# ------------------------------------------------------------------ genes
class GInfo:
    """a loaded gene plus the tables the harness needs; `fake` genes are TOY copies with other tandems / deletion allele
    and free allele names (estimate_diplotype and get_major_name never look a name up in the catalogue)"""

    def __init__(self, key, gene, fake=False):
        self.key, self.gene, self.fake = key, gene, fake
        self.solo = {}
        for an, a in gene.alleles.items():
            if len(a.func_muts) == 1:
                self.solo.setdefault(next(iter(a.func_muts)), an)
        self.muts = sorted(gene.mutations)
        self.func = [m for m in self.muts if gene.mutations[m][0] is not None]
        self.majors = list(gene.alleles)

    @property
    def del_allele(self):
        return self.gene.deletion_allele()

    @property
    def tandems(self):
        return [tuple(t) for t in self.gene.common_tandems]


def load_gene(key):
    if key not in _G:
        from aldy.gene import Gene
        from aldy.common import script_path
        _G[key] = GInfo(key, Gene(script_path(GENES[key])))
    return _G[key]


def fake_gene(spec):
    """spec = {"del": name|None, "tandems": [[a,b],...]} on top of TOY"""
    base = load_gene("TOY")
    g = copy.copy(base.gene)
    g.common_tandems = [tuple(t) for t in spec["tandems"]]
    d = spec["del"]
    g.deletion_allele = lambda d=d: d
    return GInfo("GEN", g, fake=True)


def gene_of(case):
    return fake_gene(case["fake"]) if case.get("fake") else load_gene(case["gene"])


# ------------------------------------------------------------------ implementation
def build_solution(gi, alleles, display):
    from aldy.solutions import SolvedAllele, MinorSolution, MajorSolution, CNSolution
    from aldy.gene import Mutation
    from aldy.profile import Profile
    g = gi.gene
    sols = [SolvedAllele(g, a["major"], a["minor"], [Mutation(p, o) for p, o in a["added"]],
                         [Mutation(p, o) for p, o in a["missing"]]) for a in alleles]
    prof = Profile("c11", display_format=True) if display else None
    return MinorSolution(0, sols, MajorSolution(0, Counter(sols), CNSolution(g, 0, ["1"] * len(sols)), []), profile=prof)


def run_impl(gi, alleles, display):
    """-> ("ok", arrangement, major string, minor string|None, legacy minor string|None) | ("err", code)"""
    from aldy.diplotype import estimate_diplotype
    ms = build_solution(gi, alleles, display)
    try:
        d = estimate_diplotype(gi.gene, ms)
    except (IndexError, AssertionError, TypeError) as e:
        return ("err", ERR[type(e)])
    arr = [list(h) for h in ms.diplotype]
    assert d is ms.diplotype or list(map(list, d)) == arr
    def text(f, **kw):
        # an arrangement exists, so the strings must too: an exception of a printer is an observation, not a harness crash
        try:
            return f(**kw)
        except Exception as e:   # noqa
            return f"<{type(e).__name__} raised by {f.__name__}>"
    mj = text(ms.get_major_diplotype)
    if gi.fake or any(not a["minor"] for a in alleles):
        return ("ok", arr, mj, None, None)
    return ("ok", arr, mj, text(ms.get_minor_diplotype), text(ms.get_minor_diplotype, legacy=True))


# ------------------------------------------------------------------ model terms
def cvariant(gi, m):
    info = gi.gene.mutations.get((m[0], m[1]))
    rs = str(info[1]) if info else "-"
    eff = info[0] if info else None
    from aldy.gene import Mutation
    solo = gi.solo.get(Mutation(m[0], m[1]))
    return f"(Build_variant {cz(m[0])} {cstr(m[1])} {cstr(rs)} {copt(eff, cstr)} {copt(solo, cstr)})"


def callele(gi, a):
    alt = ""
    if not gi.fake and a["minor"]:
        alt = gi.gene.alleles[a["major"]].minors[a["minor"]].alt_name or ""
    return (f"(Build_allele {cstr(a['major'])} {cstr(a['minor'])} {clist(a['added'], lambda m: cvariant(gi, m))} "
            f"{clist(a['missing'], lambda m: cvariant(gi, m))} {cstr(alt)})")


def cgene(gi):
    return f"(Build_dgene {copt(gi.del_allele, cstr)} {clist(gi.tandems, lambda t: cpair(cstr(t[0]), cstr(t[1])))})"


def d_run(v):
    if len(v) == 1:
        return ("err", v[0])
    return ("ok", v[1], common.dstr(v[2]), common.dstr(v[3]), common.dstr(v[4]))


def canon_pair(i, m):
    """compare; minor strings only when the implementation could render them"""
    if i[0] != m[0]:
        return False
    if i[0] == "err":
        return i[1] == m[1]
    if i[1] != m[1] or i[2] != m[2]:
        return False
    return i[3] is None or (i[3] == m[3] and i[4] == m[4])


# ------------------------------------------------------------------ property predicate (implementation output only)
def nkey():
    import natsort
    return natsort.natsort_keygen()


def real_key(major):
    n = str(major).split("#")[0]
    m = re.match(r"[0-9]+", n)
    if m:
        return m.group(0)
    return re.match(r"[^0-9]*", n).group(0)


def expected_name(gi, a, display):
    """the called major allele: fusion suffix removed, novel core (functional) variants appended"""
    g = gi.gene
    n = [str(a["major"]).split("#")[0]]
    for m in sorted((p, o) for p, o in a["added"]):
        info = g.mutations.get(m)
        if info is None or info[0] is None:
            continue
        rs = info[1] if info[1] != "-" else f"{m[0] + 1}.{m[1]}"
        if display:
            from aldy.gene import Mutation
            solo = gi.solo.get(Mutation(*m))
            rs = f"{solo}.{rs}" if solo else (f"{info[0]}.{rs}" if info[0] else rs)
        n.append(rs)
    if not display:
        return "+".join(n)
    return n[0] if len(n) == 1 else "(" + " ^".join(n) + ")"


def segmentations(hap, keys, tandems, allow):
    """all ways to cut a haplotype (list of copy indices) into units: single copies or adjacent common-tandem pairs"""
    if not hap:
        yield []
        return
    for rest in segmentations(hap[1:], keys, tandems, allow):
        yield [(hap[0],)] + rest
    if allow and len(hap) >= 2 and hap[0] >= 0 and hap[1] >= 0 and (keys[hap[0]], keys[hap[1]]) in tandems:
        for rest in segmentations(hap[2:], keys, tandems, allow):
            yield [(hap[0], hap[1])] + rest


def predicate(gi, alleles, display, res):
    """-> list of (clause, detail) that FAIL for this call"""
    bad = []
    n = len(alleles)
    if res[0] != "ok":
        return [("total", f"exception code {res[1]}")]
    arr, mj = res[1], res[2]
    dele = gi.del_allele
    k = max(0, 2 - n) if dele else 0
    flat = [i for h in arr for i in h]
    if len(arr) != 2 or sorted(i for i in flat if i != -1) != list(range(n)):
        bad.append(("partition", f"copies {sorted(flat)} for n={n}"))
    if flat.count(-1) != k or any(-1 in h and h != [-1] for h in arr):
        bad.append(("deletion-placeholders", f"{flat.count(-1)} placeholders, expected {k}"))
    if n >= 2 and (len(arr) != 2 or not arr[0] or not arr[1]):
        bad.append(("nonempty", f"{arr}"))
    # names
    names = {i: expected_name(gi, a, display) for i, a in enumerate(alleles)}
    names[-1] = dele
    try:
        want = " / ".join(" + ".join("*" + names[i] for i in h) for h in arr if h)
    except (KeyError, TypeError):
        want = None
    if want != mj:
        bad.append(("names", f"expected {want!r}"))
    if bad:
        return bad
    # tandem-adjacent + sorted: one segmentation into units must witness both
    key = nkey()
    keys = {i: real_key(a["major"]) for i, a in enumerate(alleles)}
    tandems = set(gi.tandems)
    ok_t = ok_s = False
    for s0 in segmentations(arr[0], keys, tandems, n > 2):
        for s1 in segmentations(arr[1], keys, tandems, n > 2):
            single = {keys[u[0]] for u in s0 + s1 if len(u) == 1 and u[0] >= 0}
            maximal = not any(ta in single and tb in single for ta, tb in tandems) if n > 2 else True
            srt = all(key(names[a[0]]) <= key(names[b[0]]) for s in (s0, s1) for a, b in zip(s, s[1:]))
            ok_t = ok_t or maximal
            ok_s = ok_s or (maximal and srt)
    if not ok_t:
        bad.append(("tandem-adjacent", f"{arr} keys {keys}"))
    elif not ok_s or not key([names[i] for i in arr[0]]) <= key([names[i] for i in arr[1]]):
        bad.append(("sorted", f"{arr} names {[[names[i] for i in h] for h in arr]}"))
    return bad


# ------------------------------------------------------------------ generation
def rand_allele(rng, gi, major):
    g = gi.gene
    if gi.fake:
        minor = ""
        defs = []
    else:
        minor = rng.choice(list(g.alleles[major].minors))
        defs = sorted(g.alleles[major].func_muts | g.alleles[major].minors[minor].neutral_muts)
    added, missing = [], []
    r = rng.random()
    if r < 0.35 and gi.muts:
        for _ in range(rng.choice([1, 1, 2, 3])):
            u = rng.random()
            if u < 0.5 and gi.func:
                m = rng.choice(gi.func)
            elif u < 0.85:
                m = rng.choice(gi.muts)
            else:   # not in the catalogue
                m0 = rng.choice(gi.muts)
                m = (m0[0] + rng.choice([1, 2, 7]), rng.choice(["A>C", "insTT", "delG", "T>G"]))
            if tuple(m) not in added and tuple(m) not in [tuple(x) for x in defs]:
                added.append(tuple(m))
    if defs and rng.random() < 0.2:
        missing = [tuple(m) for m in rng.sample(defs, min(len(defs), rng.choice([1, 1, 2])))]
    return {"major": major, "minor": minor, "added": [list(m) for m in added], "missing": [list(m) for m in missing]}


def pool(rng, gi):
    """major names worth drawing: tandem members (and alleles sharing their number), the deletion allele, fusions, others"""
    names = gi.majors
    tk = {x for t in gi.tandems for x in t}
    hot = [m for m in names if real_key(m) in tk]
    dele = [m for m in names if m == gi.del_allele]
    fus = [m for m in names if "#" in m]
    return names, hot, dele, fus


def rand_multiset(rng, gi, n):
    names, hot, dele, fus = pool(rng, gi)
    out = []
    for _ in range(n):
        r = rng.random()
        if out and r < 0.25:
            out.append(rng.choice(out))           # duplicates
        elif hot and r < 0.6:
            out.append(rng.choice(hot))
        elif dele and r < 0.66:
            out.append(rng.choice(dele))
        elif fus and r < 0.74:
            out.append(rng.choice(fus))
        else:
            out.append(rng.choice(names))
    return out


FAKE_NAMES = ["1", "2", "2B", "10", "10A", "1#2", "13#1", "A", "A1", "B", "Null", "4.021", "4", "36", "x7", "07"]


def rand_fake(rng, malformed=False):
    names = rng.sample(FAKE_NAMES, rng.randint(3, 6))
    keys = sorted({real_key(x) for x in names})
    tandems = []
    for _ in range(rng.choice([0, 1, 1, 2, 3])):
        if len(keys) >= 2:
            a, b = rng.sample(keys, 2)
            tandems.append([a, b])
    if malformed:
        a = rng.choice(keys)
        tandems.insert(rng.randint(0, len(tandems)), [a, a])
    dele = rng.choice([None, None, rng.choice(names).split("#")[0], "0"])
    if malformed:     # draw the doubled name more often
        names = names + [x for x in names if real_key(x) == a] * 3
    return {"del": dele, "tandems": tandems}, names


def gen_cases(chk, quick):
    """a case = one multiset of alleles on one gene (+ display flag); it is run in all (or sampled) orders"""
    rng = chk.rng
    cases = []
    per_n = {0: 1, 1: 3, 2: 8, 3: 8, 4: 6, 5: 2, 6: 1} if quick else {0: 1, 1: 8, 2: 40, 3: 60, 4: 60, 5: 25, 6: 8}
    for key in GENES:
        gi = load_gene(key)
        for n, cnt in per_n.items():
            for _ in range(cnt):
                majors = rand_multiset(rng, gi, n)
                cases.append({"stream": key, "gene": key, "display": rng.random() < 0.15,
                              "alleles": [rand_allele(rng, gi, m) for m in majors]})
    # rare shapes around the whole-gene deletion: no copy called at all (homozygous deletion shown as two placeholders), the
    # deletion allele called once or twice, next to another allele, and next to an allele that shares its number
    for key in GENES:
        gi = load_gene(key)
        if not gi.del_allele:
            continue
        d = gi.del_allele
        same = [m for m in gi.majors if m != d and real_key(m) == real_key(d)]
        other = [m for m in gi.majors if m != d]
        shapes = [[], [d], [d, d], [d, rng.choice(other)], [rng.choice(other), d], [d, d, d], [d, rng.choice(other), rng.choice(other)]]
        if same:
            shapes += [[same[0]], [same[0], d], [d, same[0], same[0]]]
        for majors in shapes:
            for disp in (False, True):
                cases.append({"stream": key + "-deletion-shapes", "gene": key, "display": disp,
                              "alleles": [rand_allele(rng, gi, m) for m in majors]})
    # tandem rules next to novel functional variants, printed with display_format: the printed name of such a copy is '(36 ^...)';
    # the pairing must still go by the allele, not by what is printed
    for key in GENES:
        gi = load_gene(key)
        if not gi.tandems or not gi.func:
            continue
        for (ta, tb) in gi.tandems[:3]:
            heads = [m for m in gi.majors if real_key(m) == ta]
            tails = [m for m in gi.majors if real_key(m) == tb]
            if not heads or not tails:
                continue
            for extra_n in (1, 2):
                majors = [rng.choice(heads), rng.choice(tails)] + [rng.choice(gi.majors) for _ in range(extra_n)]
                als = [rand_allele(rng, gi, m) for m in majors]
                for j in (0, 1):      # a novel functional variant on the head / the tail of the tandem
                    m = rng.choice(gi.func)
                    if list(m) not in als[j]["added"]:
                        als[j]["added"].append(list(m))
                    for disp in (True, False):
                        cases.append({"stream": key + "-tandem-novel", "gene": key, "display": disp, "alleles": [dict(a, added=list(a["added"])) for a in als]})
    for mal in (False, True):
        for n, cnt in per_n.items():
            for _ in range(cnt if not mal else max(1, cnt // 2)):
                spec, names = rand_fake(rng, mal)
                gi = fake_gene(spec)
                majors = [rng.choice(names) for _ in range(n)]
                if majors and rng.random() < 0.5:
                    majors[rng.randrange(n)] = rng.choice(majors)
                cases.append({"stream": "GEN-malformed" if mal else "GEN", "gene": "GEN", "fake": spec, "display": False,
                              "malformed": mal, "alleles": [rand_allele(rng, gi, m) for m in majors]})
    return cases


def orders(rng, n, quick):
    """None = every permutation (model enumerates them itself), else a list of index tuples"""
    full = 4 if quick else 6
    if n <= full:
        return None
    ps = {tuple(range(n)), tuple(reversed(range(n)))}
    while len(ps) < (40 if quick else 200):
        p = list(range(n))
        rng.shuffle(p)
        ps.add(tuple(p))
    return sorted(ps)


# ------------------------------------------------------------------ evaluation
def evaluate(chk, cases, quick):
    rng = chk.rng
    terms, plan = [], []
    for c in cases:
        gi = gene_of(c)
        al, disp = c["alleles"], c["display"]
        ords = c.get("orders", "unset")
        if ords == "unset":
            ords = orders(rng, len(al), quick)
            c["orders"] = ords
        if ords is None:
            perm_list = list(itertools.permutations(range(len(al))))
            terms.append(f"o_run_perms {cbool(disp)} {cgene(gi)} {clist(al, lambda a: callele(gi, a))}")
            plan.append((c, gi, perm_list, "all"))
        else:
            perm_list = [tuple(p) for p in ords]
            for p in perm_list:
                terms.append(f"o_run {cbool(disp)} {cgene(gi)} {clist([al[i] for i in p], lambda a: callele(gi, a))}")
            plan.append((c, gi, perm_list, "each"))
    vals = common.coq_eval(IMPORTS, terms, shard=40)
    pos = 0
    all_names = set()
    for c, gi, perm_list, mode in plan:
        if mode == "all":
            mvals = vals[pos]
            pos += 1
        else:
            mvals = vals[pos:pos + len(perm_list)]
            pos += len(perm_list)
        if len(mvals) != len(perm_list):
            chk.mismatch("diplotype-permutation-count", c, len(mvals), len(perm_list))
            continue
        al, disp = c["alleles"], c["display"]
        n = len(al)
        strings = set()
        for p, mv in zip(perm_list, mvals):
            pal = [al[i] for i in p]
            im = run_impl(gi, pal, disp)
            mo = d_run(mv)
            stream = c["stream"]
            chk.count(stream, f"n={n}")
            nontrivial = n >= 2
            chk.case(stream, {"gene": c.get("fake") or c["gene"], "alleles": pal, "display": disp}, nontrivial=nontrivial,
                     sample={"gene": c["gene"], "majors": [a["major"] for a in pal], "implementation": list(im[1:3])})
            if not canon_pair(im, mo):
                chk.mismatch("estimate_diplotype", {**{k: v for k, v in c.items() if k != "orders"}, "alleles": pal}, list(mo), list(im))
            if im[0] == "ok":
                all_names.update(x for x in re.split(r" / | \+ ", im[2]))
                all_names.update(a["minor"] for a in pal)
                strings.add(im[2])
            if c.get("malformed"):
                chk.count(stream, "error" if im[0] == "err" else "no-error")
                continue
            for clause, detail in predicate(gi, pal, disp, im):
                chk.fail(clause, {"gene": c["gene"], "n": n, "clause-shape": detail.split(" ")[0]},
                         {**{k: v for k, v in c.items() if k != "orders"}, "alleles": pal, "orders": [list(range(n))]}, detail, list(im))
        if n <= 2 and not c.get("malformed") and len(strings) > 1:
            # hypothesis of the theorem: natsort can tell different names apart
            key = nkey()
            nm = [expected_name(gi, a, disp) for a in al]
            if not (n == 2 and nm[0] != nm[1] and key(nm[0]) == key(nm[1])):
                chk.fail("order-free", {"gene": c["gene"], "n": n}, {k: v for k, v in c.items()}, "one string for every order", sorted(strings))
            else:
                chk.count(c["stream"], "order-free-hypothesis-not-met")
    return all_names


def check_natsort(chk, names):
    """NatSort.v against the natsort package on every name that occurred: keys, pairwise comparison, stable sort"""
    import natsort
    key = natsort.natsort_keygen()
    names = sorted(n for n in names if n is not None and all(ord(ch) < 128 for ch in n))
    names += ["", "0", "007", "7", "a", "a0", "0a", "1.001", "1.01", "10", "9", "1+rs1", "1+rs01", "(1 ^x.rs2)", "1 + 2"]
    terms = [f"OL (map (fun t => o_key (nkey t)) {clist(names[k:k + 200], cstr)})" for k in range(0, len(names), 200)]
    rng = chk.rng
    pairs = [(rng.choice(names), rng.choice(names)) for _ in range(min(4000, 10 * len(names)))]
    terms.append("OL (map (fun p => OL [OZ (match key_cmp (nkey (fst p)) (nkey (snd p)) with Lt => -1 | Eq => 0 | Gt => 1 end); "
                 "o_bool (key_typed (nkey (fst p)) (nkey (snd p))); o_bool (alternates true (nkey (fst p)))]) "
                 + clist(pairs, lambda p: cpair(cstr(p[0]), cstr(p[1]))) + ")")
    lists = [[rng.choice(names) for _ in range(rng.randint(0, 8))] for _ in range(300)]
    terms.append("OL (map (fun l => o_list o_str (natsorted l)) " + clist(lists, lambda l: clist(l, cstr)) + ")")
    lol = [([rng.choice(names) for _ in range(rng.randint(0, 3))], [rng.choice(names) for _ in range(rng.randint(0, 3))]) for _ in range(300)]
    terms.append("OL (map (fun p => o_bool (names_ltb (fst p) (snd p))) "
                 + clist(lol, lambda p: cpair(clist(p[0], cstr), clist(p[1], cstr))) + ")")
    vals = common.coq_eval(IMPORTS, terms, shard=4)
    nchunks = (len(names) + 199) // 200
    mkeys = [k for ch in vals[:nchunks] for k in ch]
    for nme, mk in zip(names, mkeys):
        got = tuple(common.dstr(x[1]) if x[0] == 0 else x[1] for x in mk)
        chk.case("natsort-key", nme, nontrivial=bool(re.search(r"\d", nme)))
        if got != key(nme) or [type(a) for a in got] != [type(a) for a in key(nme)]:
            chk.mismatch("natsort-key", nme, list(got), list(key(nme)))
    for (a, b), (cmpv, typed, alt) in zip(pairs, vals[nchunks]):
        ka, kb = key(a), key(b)
        want = -1 if ka < kb else (1 if ka > kb else 0)
        chk.case("natsort-compare", [a, b], nontrivial=a != b)
        if cmpv != want or typed != 1 or alt != 1:
            chk.mismatch("natsort-compare", [a, b], [cmpv, typed, alt], [want, 1, 1])
    for l, mv in zip(lists, vals[nchunks + 1]):
        chk.case("natsort-sorted", l, nontrivial=len(l) > 1)
        if [common.dstr(x) for x in mv] != natsort.natsorted(l):
            chk.mismatch("natsort-sorted", l, [common.dstr(x) for x in mv], natsort.natsorted(l))
    for (a, b), mv in zip(lol, vals[nchunks + 2]):
        chk.case("natsort-list-key", [a, b], nontrivial=a != b)
        if bool(mv) != (key(a) < key(b)):
            chk.mismatch("natsort-list-key", [a, b], bool(mv), key(a) < key(b))


def check_databases(chk):
    """side conditions of the theorems on every shipped database: tandems are pairs of two different strings, names non-empty"""
    import glob, yaml
    from aldy.common import script_path
    files = sorted(glob.glob(os.path.join(common.REPO, "aldy", "resources", "genes", "*.yml"))) + \
        [os.path.join(common.REPO, "aldy", "tests", "resources", "toy.yml")]
    n_t = 0
    for f in files:
        text = open(f).read()
        if "tandems" not in text:
            continue
        # only the structure section is needed: cut it out of the text (the full CYP2D6 file takes seconds to parse)
        m = re.search(r"^structure:\n((?:[ \t].*\n|\n)*)", text, re.M)
        st = yaml.safe_load("structure:\n" + m.group(1))["structure"] if m else yaml.safe_load(text)["structure"]
        for t in st.get("tandems", []):
            n_t += 1
            ok = isinstance(t, (list, tuple)) and len(t) == 2 and all(isinstance(x, str) and x for x in t) and t[0] != t[1]
            chk.case("database-tandems", [os.path.basename(f), list(t)], nontrivial=True)
            if not ok:
                chk.fail("tandems-ok", {"file": os.path.basename(f)}, {"file": f, "tandem": list(t)}, "a pair of two different names", list(t))
    for key in GENES:
        gi = load_gene(key)
        if gi.tandems != [tuple(t) for t in gi.gene.common_tandems] or any(not str(a).split("#")[0] for a in gi.majors):
            chk.fail("names-ok", {"gene": key}, {"gene": key}, "non-empty allele names", "empty name")
    chk.count("database-tandems", "tandem-pairs", n_t)


def suite_cases():
    """the examples of aldy/tests/test_diplotype_*.py with their expected strings (kept in corpus/C11.json)"""
    p = os.path.join(common.VERIF, "corpus", "C11.json")
    return json.load(open(p)) if os.path.exists(p) else []


def run_suite_cases(chk):
    items = [c for c in suite_cases() if "expected" in c]
    terms = []
    for c in items:
        gi = load_gene(c["gene"])
        terms.append(f"o_run false {cgene(gi)} {clist(c['alleles'], lambda a: callele(gi, a))}")
    vals = common.coq_eval(IMPORTS, terms)
    for c, v in zip(items, vals):
        gi = load_gene(c["gene"])
        # the unit tests call fusion alleles by their bare number ("4"): no minor allele, no minor string
        from aldy.diplotype import estimate_diplotype
        ms = build_solution(gi, c["alleles"], False)
        estimate_diplotype(gi.gene, ms)
        got = ms.get_major_diplotype()
        mo = d_run(v)
        chk.case("suite-examples", c, nontrivial=True)
        if mo[0] != "ok" or mo[2] != got or mo[1] != [list(h) for h in ms.diplotype]:
            chk.mismatch("estimate_diplotype", c, list(mo), got)
        if got != c["expected"]:
            chk.fail("names", {"gene": c["gene"], "clause-shape": "suite-example"}, c, c["expected"], got)


def run(chk):
    chk.rule = ("a case = one call of estimate_diplotype on a list of called alleles (random minor alleles, added variants incl. "
                "functional / non-catalogued ones, lost variants); a multiset of 0-6 alleles is run in EVERY order for n<=4 "
                "(quick) / n<=6 (thorough) and in sampled orders above; streams: TOY, CYP2D6, CYP2A6, CYP2C19, GSTM1, generated "
                "tandem tables / deletion names on TOY (GEN), malformed tandem tables (a, a) (correspondence only), the unit-test "
                "examples, natsort keys of every name that occurred; non-trivial = at least two copies; distinct = distinct "
                "(gene, ordered allele list, display flag)")
    chk.extra_trusted = ["natsort 8.4 default key is the reference for NatSort.v (compared on every name that occurs; ASCII names)",
                         "Gene catalogue lookups (gene.mutations, deletion_allele, common_tandems) are inputs of the model"]
    chk.assumptions = ["theorems are stated under tandems_ok (checked on every shipped database on every run) and non-empty "
                       "allele names; order-freeness under the hypothesis that natsort distinguishes the two names"]
    chk.build()
    quick = chk.tier == "quick"
    check_databases(chk)
    if not chk.model_available():
        chk.notes.append("[C11] model did not build; only the database side conditions were evaluated")
        return
    run_suite_cases(chk)
    cases = [c for c in suite_cases() if "expected" not in c] + gen_cases(chk, quick)
    names = evaluate(chk, cases, quick)
    check_natsort(chk, names)


def replay(chk, path):
    r = json.load(open(path))
    c = r["case"]
    chk.build()
    if "alleles" not in c:
        print("REPLAY: no input in this replay file (broken obligation / correspondence)")
        return 1
    c.setdefault("stream", "replay")
    evaluate(chk, [c], True)
    for f in chk.failures:
        print("still failing:", f["clause"], json.dumps(f["observed"], default=str)[:400], "expected", str(f["expected"])[:300])
    for k, n, d in chk.broken:
        print("BROKEN", k, n)
    bad = bool(chk.failures) or bool(chk.broken)
    print("REPLAY", "FAILS" if bad else "passes")
    return 1 if bad else 0
