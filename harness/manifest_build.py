"""integrator tool: (re)write /verif/MANIFEST.json from the per-property texts below.  usage: /venv/bin/python harness/manifest_build.py"""
import json, os

VERIF = os.path.dirname(os.path.dirname(os.path.abspath(__file__)))
TIE = ("Tied to /repo on every run by the regenerated literals/decision expressions (coq/gen/*.v, fail-closed translators) and by a "
       "correspondence run of the model (vm_compute inside coqc) against the real code; the property predicate is recomputed on the "
       "implementation's own output. ")
TRUST = ("Trusted: Coq 8.16.1 kernel (vm_compute, no native_compute), no axioms (every property theorem prints 'Closed under the global "
         "context'; coqchk -o in the thorough tier), translators harness/gen_consts.py + gen_exprs.py, the Python harness (generators, adapters, "
         "term printer/parser). The theorems are about the Gallina model; the Python code is connected by translator + correspondence. ")

P = {
 "C01": dict(
  text="PARTIAL proof + end-to-end decision. Proved for every number and kind of planted copies (Pipeline.v, Select.v): under the ideal-evidence "
       "hypotheses (supporting observations = depth x planted member copies per constraint row, locus depth = depth x structure copies) every row "
       "sees exactly the planted copies, the planted combination has fit error 0 and no combination scores lower, normalised region depths equal "
       "the planted copy numbers, and a best-scoring candidate chain is reported by genotype()'s selection; for SUBSTITUTION and REFERENCE rows the "
       "ideal-evidence hypotheses are themselves proved from the pileup model of C06 for error-free reads at uniform depth (Simulated.v). NOT "
       "proved: that insertion/deletion rows are ideal (foreign indel realigner), and that the minor objective (phase term) is 0 on planted reads; those are decided by "
       "simulation: error-free reads are simulated from planted allele combinations over generated two-strand databases (with/without pseudogene, "
       "SNP/MNP/ins/del, extra copies, deletion, fusion) and shipped genes, genotyped through the real pipeline (BAM -> genotype()), and the two "
       "clauses (planted majors among best; variants with multiplicity exact) are evaluated on the result.",
  note=TRUST + "pysam/htslib, the read simulator harness/simreads.py and database generator harness/gendb.py, CBC, the vendored indelpost realigner "
       "(foreign component, oracle). Hypotheses E1-E6 are stated in props/C01.v; findings of the unchanged tree are listed in known_findings.json.",
  tech="Coq proof over executable Gallina model (partial: ideal-evidence hypotheses) + end-to-end simulation differential on the implementation"),
 "C02": dict(
  text="Theorems over MajorModel.gen (the ILP exactly as solve_major_model builds it) and MajorSpec (combinatorial specification) for every "
       "instance, any number of alleles/variants/copies: copies per configuration, carried XOR novel for every observed core variant, at most one "
       "novel per site, objective = fit error + novelty penalties at tight helpers (lower bound, tightness, attainment), feasible points <-> "
       "admissible combinations, enumeration sound/complete incl. the early exit, what solutions(gap) reports is sound / once / first optimal / "
       "within gap / complete (relative to the solver contract of C05), noise-free evidence gives the planted combination at score 0 which is the "
       "optimum. " + TIE + "Structural tie: the LP handed to CBC (recorded through a subclass of lpinterface.CBC, rows read back from OR-Tools) is "
       "compared row by row with gen; behavioural tie: estimate_major's solutions and scores vs MajorSpec.run on generated evidence tables (toy, "
       "generated and shipped genes, fusions, novel variants, gap 0-0.3).",
  note=TRUST + "CBC is an oracle with the contract stated in C05 (validated against brute force there). inst_wf is a decidable hypothesis evaluated on every case.",
  tech="Coq proof over executable Gallina model (ILP generator + combinatorial spec) + structural LP comparison + differential correspondence (vm_compute)"),
 "C03": dict(
  text="Theorems over CnModel.gen (the ILP of solve_cn_model) and CnSpec (canonical forms, documented objective, enumeration with exclusion cuts, "
       "folding, estimate_cn branches) with no bound on configurations, regions or max_cn: exactly two complete slots, second needs first, extras "
       "and pseudogene slots form a prefix, a double deletion is alone, folded structure well-formed, feasible <-> canonical form within error "
       "bounds, objective identity, reported scores are the objective of a folded feasible form inside the gap, first is optimal over all "
       "enumerated forms, no repeats, least among yielded explanations, ordered yields, completeness up to supersets, user-supplied structure "
       "verbatim / unknown configuration rejected / default copies. The enumeration of canonical forms (candidates) is proved COMPLETE "
       "(C03_cn_candidates_complete: the active set of every feasible point is, up to order, an enumerated form), so optimality, completeness "
       "and non-emptiness hold over ALL feasible points of the ILP (C03_cn_optimal_abs, C03_cn_complete_abs, C03_cn_nonempty_abs). The loop "
       "the code runs (model.solutions(gap) = Enum.solutions with the solver as an oracle under the C05 contract) is composed with these "
       "(props/C03_reported.v: every yield feasible + canonical form + objective = documented objective of its form, first optimal over all "
       "admissible forms, within gap, ordered/no containment/no repeats, complete up to containment). " + TIE + "Structural LP tie (recorded CBC model vs gen) and behavioural tie "
       "(estimate_cn / solve_cn_model results and scores vs CnSpec) on generated region-depth vectors over toy, generated and shipped genes.",
  note=TRUST + "CBC oracle (C05 contract). hyps_ok / names_ok are decidable hypotheses evaluated on every case. 'Score of the BEST explanation' is proved as 'least among yielded explanations' (named partial in props/C03.v).",
  tech="Coq proof over executable Gallina model (ILP generator + enumeration spec) + structural LP comparison + differential correspondence (vm_compute)"),
 "C04": dict(
  text="Theorems over MinorModel.gen (the ILP of solve_minor_model) for every feasible point, any number of candidate alleles, variants, sites, "
       "copies, read modes: product helpers exact, one catalogued minor per called major copy, core variants kept, additions only where the allele "
       "has copies and filtered reads, carried variants have reads, one variant per position, supported variants carried, phase assignment, copy "
       "order, reference-site rows, objective = MinorSpec.pt_score (fit + dropped/added/novel penalties + phase), and FULL optimality against the combinatorial "
       "specification MinorSpec (C04_minor_optimal: for a minimiser of the ILP - the C05 solver contract - the assignment read out of the solver is "
       "admissible, the reported score is exactly its MinorSpec score, and no admissible assignment over the instance's copies scores lower; proved "
       "through C04_minor_point_spec: every feasible point denotes an admissible assignment with score <= objective, and C04_minor_spec_point: every "
       "admissible assignment is realised by a feasible point with objective = score; side conditions inst_wf and minor_phase >= 0 are evaluated on "
       "every instance of every run); the NOISE-FREE clause (C04_minor_noise_free: if the planted assignment scores 0, every minimiser of the ILP "
       "denotes an admissible assignment that carries each variant exactly as often as observed = as often as planted, drops nothing and adds "
       "nothing; decidable premise noise_free_b evaluated on every noise-free case generated); the shipped homozygous read-out is modelled with a variant switch and REFUTED for "
       "'one per site' and 'score of the reported assignment' by vm_compute witnesses (known findings). " + TIE + "Structural LP tie (row by row) and "
       "behavioural tie (estimate_minor solutions/scores vs MinorSpec exhaustive enumeration) on generated instances incl. phase records.",
  note=TRUST + "CBC oracle (C05 contract). Read-out defects are listed in known_findings.json (open).",
  tech="Coq proof over executable Gallina model (ILP generator + exhaustive spec) + structural LP comparison + differential correspondence (vm_compute)"),
 "C05": dict(
  text="Theorems over Lp.v / Enum.v / Brute.v for every model and every solver meeting the stated contract: prod rows hold exactly when the product "
       "variable is the AND of its factors; abssum lower bound, attainment, tightness at positive coefficients (and a refutation at zero "
       "coefficient); solutions(): first yield optimal, every yield feasible for the original rows with its own objective, within gap, no yielded "
       "active set contains an earlier one (no duplicates), non-decreasing order, completeness up to supersets, limit, termination (fuel never "
       "exhausted); the reference solver Brute is sound, optimal, and satisfies the contract. " + TIE + "The real lpinterface (CBC via OR-Tools) "
       "is run on generated models (binaries, error terms, helpers, near ties at the precision thresholds; also general integer variables, which "
       "the model's `binaries` excludes and the reference solver does not handle: predicate + LP-row tie only) and on every LP recorded from the three "
       "stages, and compared with Brute/Enum evaluated in Coq, exhaustive evaluation, and independent solvers (SCIP, HiGHS).",
  note=TRUST + "CBC/SCIP/HiGHS (OR-Tools 9.15) are oracles: the contract hypothesis C05_contract is validated, not proved, for them, and is KNOWN TO FAIL for CBC on two families (open findings: 1e-5 cutoff resolution; non-optimal 'optimal' answers after exclusion cuts on CYP2D6 copy-number models). Exact rationals in the model, 1e-6 tolerance on the float side away from thresholds.",
  tech="Coq proof over executable Gallina model (enumeration loop, helpers, reference solver) + differential correspondence against CBC, brute force and independent solvers"),
 "C06": dict(
  text="Theorems over Pileup.v (CIGAR walk of _parse_read, eligibility filter, MNP merge, quality binning, _make_coverage folding) for every read "
       "list, CIGAR and gene view: depth at every position = number of eligible spanning reads (M/=/X/D once, S/I consume no reference), substitution "
       "and reference counts inside the RefSeq-mapped part, complete catalogued multi-substitution counted once at its first position (and its component and later-reference cells as sums over reads), ineligible "
       "reads contribute nothing, qualities kept (binned), result independent of read order, insertions keyed at the next base; the locus test and fetch window of the loader are regenerated from "
       "sam.py and proved equal to the model's (C06_tie_in_region, C06_tie_window); sam._in_region in full (contig named exactly prefix + chr, an end "
       "reported, closed intervals meet: C06_in_region_named_iff, longer contig names never pass) and common.chr_prefix, both with direct correspondence. " + TIE +
       "Reads are generated (all CIGAR ops, clips, indels, MNPs, qualities, flags, positions at region borders), written to real BAM files with "
       "pysam and loaded through Sample; table, phases and per-read observations are compared with the model, and the pileup predicate is recomputed "
       "from the reads alone.",
  note=TRUST + "pysam/htslib record decoding. The indel realigner is switched off (foreign component) for the table comparison. multi_ops_ok / multi_free are decidable side conditions evaluated on each gene.",
  tech="Coq proof over executable Gallina model (CIGAR walk, filters, merge) + differential correspondence through real BAM files (vm_compute)"),
 "C07": dict(
  text="Theorems over Norm.v (coverage._normalize_coverage, profile.get_sam_profile_data, sam._load_cn_region) in exact rationals for every region "
       "layout and depth table: invariance when every read is duplicated k times, linear scaling when only gene reads are multiplied, self-profile "
       "gives exactly 2 in every covered region, empty neutral region rejected; the structure stage consumes only the normalised vector, which "
       "in lowest terms is the same data at any depth, so the model's copy-number stage returns the same result (C07_cn_stage_depth_independent). " + TIE +
       "Simulated BAMs over generated genes (either strand, with/without pseudogene, custom neutral regions) go through the real Sample/Profile "
       "code (profile from BAM and from a written profile file) and are compared with the model; k in 2..5.",
  note=TRUST + "pysam, read simulator, float arithmetic compared to exact rationals at 1e-9 relative. _filter_configs uses the absolute min_coverage parameter: depth-independence of the reported structure is stated for the normalised vector only.",
  tech="Coq proof over executable Gallina model (exact rational normalisation) + differential/metamorphic correspondence through real BAM and profile files"),
 "C08": None, "C11": None, "C18": None,
 "C09": dict(
  text="Theorems over Catalogue.load (regions, routing, structural configurations, grouping into majors/minors, naming, partial alleles of fusions, "
       "duplicate removal, alias table) for every database and every catalogue the loader returns: minors of one major pairwise distinct, every configuration exists, "
       "core = function-altering / minors = the others (through naming, partial alleles and duplicate removal: C09_core_split), major names "
       "unique and filed under their own name (C09_names_unique), partial alleles carry only variants in regions their fusion retains "
       "(C09_partials_retained); for the step of the construction that establishes them (*_partial): "
       "partition/major distinctness at grouping, alias soundness, partial content = parent variants in retained regions. NOT proved, decided "
       "on every run by decidable predicates evaluated in Coq on the model's AND the implementation's catalogue: reachability by "
       "get_allele, (structure, core set) distinct after renaming and partials, build independence. " + TIE + "All 38 shipped databases x {hg19, hg38} and generated databases (name collisions, fusions, "
       "duplicate definitions) are loaded by aldy.gene.Gene and by the model and compared field by field.",
  note=TRUST + "PyYAML. One open finding on shipped data (vkorc1 annotation order) in known_findings.json.",
  tech="Coq proof over executable Gallina model of the loader + exhaustive differential correspondence on shipped databases (vm_compute) + decidable clause predicates on implementation output"),
 "C10": dict(
  text="Theorems over Select.v (genotype.py candidate loop, score carry-over, minor.py rescaling, final selection): reported = exactly the refined "
       "candidates within gap + SOLUTION_PRECISION of the best combined score, best first, scores carry the structure/major differences, every "
       "reported candidate descends from a passed major candidate of a recorded structure, empty stage -> error. Chain-consistency clauses "
       "(copies match structure, minors refine majors one to one, diplotype lists each allele once) are theorems of C02/C03/C04/C11 and are "
       "evaluated here on the implementation's reported solutions. " + TIE + "Simulated noisy samples with several surviving structures/majors go "
       "through genotype(), competing structures are injected behind estimate_cn, and the candidates of real runs are replayed with several synthetic stage-score assignments; the stage results are recorded and Select's selection (vm_compute) is compared with the reported list and scores.",
  note=TRUST + "pysam, simulator, CBC. Decision expressions of genotype.py are regenerated by gen_exprs.py (Exprs_here.v).",
  tech="Coq proof over executable Gallina model (selection + score carry-over) + translator for decision expressions + differential correspondence on recorded stage results"),
 "C12": dict(
  text="Theorems over Writers.v (rows of write_decomposition, table and records of write_vcf, file texts, parsers for both formats) for every list of "
       "solutions: decomposition rows = carried variants (definition + added - missing) per copy with position/change/support/effect/rsid, one empty "
       "row for copies without variants, parse(write) recovers the solutions; VCF (variant Fixed): GT/MA/MI exact per solution, one-based "
       "positions, REF/ALT spell the variant, parse back; the shipped VCF writer (shared genotype dict, lost variants not subtracted, REF/ALT of "
       "indels/MNPs) is modelled by three switches and REFUTED by witnesses (open known findings, pinned by NA10860.vcf.expected). " + TIE +
       "Generated solution lists (1-4 solutions x 1-4 copies, toy/generated/shipped genes, all variant kinds, fusions, novel) are written by the "
       "real writers, compared with the model's text, parsed back.",
  note=TRUST + "Nine open findings on the VCF writer in known_findings.json; the decomposition clauses hold.",
  tech="Coq proof over executable Gallina model (writers + parsers, round trip) + differential correspondence on real output files (vm_compute)"),
 "C13": dict(
  text="Proof (same-strand builds) + PARTIAL proof (opposite strands) + two-build differential. Proved over Transport.v: for the abstract stage (fit of catalogue variants + reference evidence per "
       "site, per-site admissibility) results commute with any injective SITE-PRESERVING transport of variants; same-strand builds always are; "
       "opposite strands are not when two non-insertion variants of different footprint start at one RefSeq base (witness; hypothesis cannot be "
       "dropped); and the ACTUAL major-stage specification of C02 (MajorSpec.score, admissible, enum_all) commutes with every such transport "
       "(C13_major_*: same scores, same admissibility, one-to-one enumeration); for two builds on one strand the WHOLE major stage incl. evidence "
       "filters and candidate selection (C13_major_stage_same_strand), the minor-stage specification of C04 incl. phase term, admissibility and "
       "property clauses (C13_minor_*, strictly increasing position maps) and the normalised region depths that feed the copy-number stage "
       "(C13_region_depths_equivariant, shifts and strand mirroring) are proved equivariant, the evidence filters of both stages commute with every "
       "injective position map (C13_major_filter_equivariant, C13_minor_filter_equivariant), and for builds that differ by one offset the pileup "
       "itself is translation-equivariant for every read set (C13_pileup_shift: reads -> coverage table, coverage/total, phase records). NOT "
       "proved: major/minor filters and the pileup on opposite strands, gapped alignments at the read level. Decided by running the real stages on the same "
       "evidence transported through the RefSeq maps between hg19/hg38 (shipped genes) and between opposite strands (generated databases), and on "
       "simulated alignments against each build; structures, majors, minors, scores and RefSeq-expressed added/lost variants are compared.",
  note=TRUST + "pysam, simulator, CBC, indelpost. Open findings (opposite-strand same-site sub+del and adjacent ins+sub, phase term, indel support anchor, realigner incl. its dependence on the absolute coordinate, exact ties) in known_findings.json.",
  tech="Coq proof over abstract transport model (partial) + two-build differential on the implementation"),
 "C14": dict(
  text="PARTIAL proof + observation. Proved over Frame.v: an operation whose transcription passes the ownership analysis writes no pre-existing "
       "location; all transcribed public operations pass (the old in-place accessor is refuted by witness); results as sets are independent of "
       "input listing order; minor-stage candidate independence under the per-structure filter when the pool adds nothing (the pooled variant list "
       "is refuted by witness: open finding, by design); every printed name of a gene copy is independent of the order in which its added / "
       "missing variants are held (C14_names_order_free: hash-seed independence of the name strings). Tie by translation: harness/gen_frame.py abstractly interprets the Python AST of 21 "
       "operations (accessors, writers, stage functions and model builders, evidence filters, Coverage/CNSolution construction, "
       "Sample._make_coverage, genotype()) into aliasing programs (gen/Frame_here.v) on every run, and C14_tie_ops_here_frame proves that every one "
       "of them writes only to containers it created itself, so no container of the database or of the evidence changes (a code change that writes "
       "through an alias breaks this obligation; the two repaired aliasing defects and two seeded ones do). NOT proved: process-level "
       "determinism and hash-seed independence; these are observed: deep snapshots of Gene/Coverage/Sample before and after every query, accessor, "
       "stage and writer compared with a fresh load; repeat runs, other genes in between, multi-gene runs with a failing gene, fresh processes with "
       "PYTHONHASHSEED 0-7, candidate pools and orders.",
  note=TRUST + "harness/gen_frame.py (its classification of Python expressions into fresh containers / aliases / in-place writes, the linearisation of branches and loops, the list of operations and of log sinks). CPython object identity, pickle for snapshots. Open findings: pooled variants (by design), exact-tie hash-seed order, diplotype arrangement follows pool order.",
  tech="Coq proof over ownership/frame model (partial) + snapshot differential and fresh-process determinism runs on the implementation"),
 "C15": dict(
  text="Theorems over Filter.v and MajorModel/MajorSpec: quality_filter keeps exactly observations meeting both thresholds; basic_filter threshold "
       "arithmetic (min_coverage, single-copy fraction); the filtered table is invariant under adding/removing/changing observations below either "
       "threshold; a called major's core variants and every novel flag have filtered support (from the ILP rows); an allele with an unsupported core "
       "variant is never admissible; minor-stage evidence filter covered. " + TIE + "Evidence tables with arbitrary low-quality observations mixed "
       "in (toy, generated, small shipped genes, thresholds over the documented ranges) go through the real Coverage filters and estimate_major/"
       "estimate_minor; metamorphic equality and support predicates are evaluated on the results.",
  note=TRUST + "CBC oracle (C05 contract) for the stage runs.",
  tech="Coq proof over executable Gallina model (filters + major ILP rows) + differential and metamorphic correspondence (vm_compute)"),
 "C16": dict(
  text="Theorems over VcfIn.v: Fixed = Coverage.coverage/total as the property states them (allele uses of diploid records): support proportional "
       "to alternate copies and reference reduced accordingly for substitution, deletion, insertion, and a catalogued multi-substitution both as one record (gaps filled with the gene's bases, or any REF/ALT that differs from the gene exactly at its components) and as adjacent single-base records - stated about the FILE for every gene view and every catalogued multi-substitution (C16_vcf_support_mnp_one_record/_any_record/_adjacent, C16_mnp_writings_agree; decidable premises mnp_record_ok/adj_ok evaluated on every multi-substitution of every gene used); "
       "absent sites homozygous reference; REF-mismatch re-expression; non-diploid/missing/N-position/other-shape records change nothing; "
       "AsShipped = _load_vcf + _make_coverage + Coverage.__init__ step by step, REFUTED by witnesses for insertions and both MNP spellings (open "
       "findings); with the repair 55bf4fc inexpressible alleles are ignored (theorem). " + TIE + "Generated bgzipped+tabixed VCFs (1-3 samples, "
       "phased or not, 0/0..1/2, multi-allelic sites as one record or as split bi-allelic records, unrelated/REF-mismatch/odd records) over generated and shipped genes are loaded by the real Sample; table and "
       "accessors are compared with AsShipped, the predicate = Fixed is evaluated on the implementation's accessors, and heterozygous catalogued "
       "alleles are genotyped end to end.",
  note=TRUST + "pysam/htslib VCF writing/decoding, PyYAML. Open findings: insertion support, MNP (adjacent, one record) support and the het calls that depend on them.",
  tech="Coq proof over executable Gallina model (AsShipped/Fixed variants) + differential correspondence through real VCF files (vm_compute)"),
 "C17": dict(
  text="Theorems over Dump.v (_dump_alignments encoding, _load_dump decoding, profile overrides, sample naming): decode(encode(state)) gives the "
       "same coverage table, neutral-region counts, indel table, phases and fusion counters for every sample state (variant Fixed; the old aliasing "
       "writer is refuted by witness, repaired by 0cb63f3); the stages consume only decoded fields. " + TIE + "Simulated samples (indels, several "
       "structures, deletions outside the RefSeq window, estimated or supplied (--cn) structure, non-default parameters incl. those the loader resets) and the shipped NA10860 BAM are genotyped with --debug and again from the archive through "
       "the real CLI path; archive content is compared with encode, reader state with decode, results and output files byte for byte.",
  note=TRUST + "pickle, gzip, tar, pysam, CBC determinism within one process.",
  tech="Coq proof over executable Gallina model (encode/decode round trip) + differential correspondence and end-to-end replay on real archives"),
 "C19": dict(
  text="Theorems over Guards.v (the guards of Sample(), Coverage, cn.py and genotype.py in order, and the simple-format line protocol): for the "
       "repaired guard set no call is reported when the locus has no reads, the average depth is below the minimum, or the neutral region is empty "
       "- whatever the structure source - and a pseudogene-only sample is still a whole-gene deletion; the guard expressions of genotype.py, coverage.py and cn.py are regenerated and proved equal to the model's (C19_tie_*); shipped switches are refuted by witnesses "
       "(supplied-structure guard repaired by 93648b9; simple-format line and boundary-read findings open). " + TIE + "Simulated BAMs whose reads "
       "avoid the locus / are thin / cover only the pseudogene / avoid the neutral region are run through genotype() and the CLI in every output "
       "format, estimated and supplied structure; outcomes are compared with the model and the predicate is evaluated on outputs.",
  note=TRUST + "pysam, simulator. Open findings: boundary-adjacent reads pass the closed-interval region test; simple-format line absent/unterminated on early errors.",
  tech="Coq proof over executable Gallina model (guard sequence, variant switches) + differential correspondence on simulated alignment files"),
}


def main():
    p = os.path.join(VERIF, "MANIFEST.json")
    m = json.load(open(p))
    old = {c["property_id"]: c for c in m["checks"]}
    checks = []
    for cid in sorted(P):
        if P[cid] is None:
            checks.append(old[cid])
            continue
        d = P[cid]
        checks.append({
            "property_id": cid, "quick_cmd": f"bin/check {cid} --tier quick", "thorough_cmd": f"bin/check {cid} --tier thorough",
            "evidence_file": f"evidence/{cid}.json", "replay_cmd_template": f"bin/check {cid} --replay {{path}}", "engine": "coq-model",
            "level_claimed": {"category": "proof", "text": d["text"], "design_ref": f"DESIGN.md section 4 / {cid} and section 8"},
            "level_note": d["note"], "technique": d["tech"]})
    m["checks"] = checks
    for e in m["engines"]:
        e["serves_properties"] = [c["property_id"] for c in checks]
    m["not_applicable"] = []
    m["notes"] = ("All 19 properties are claimed. Where a property is only partly carried by theorems (C01, C13, C14) the level text says which "
                  "part is proved and which is decided by differential runs on the implementation; see DESIGN.md section 8.")
    json.dump(m, open(p, "w"), indent=1)
    print("checks:", [c["property_id"] for c in checks])


if __name__ == "__main__":
    main()
