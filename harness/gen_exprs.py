#!/usr/bin/env python3
"""Fail-closed translator, part 2: selected decision EXPRESSIONS of /repo's current sources -> coq/gen/Exprs_here.v.

For every entry of SPECS the expression is located in the Python AST by an exactly-one-match rule and translated
structurally into a Gallina definition over Q / bool whose arguments are the free quantities of the expression.
Hand-written model files state, next to their own definition, an equivalence obligation
      Lemma <name>_tied : forall args, Exprs_here.<name> args = <model definition> args.   (proofs/ExprsTied.v)
so a change of the expression in the code breaks an obligation (then the check searches for a failing input) even when
no sampled input distinguishes old and new behaviour.  Only stdlib `ast` is used."""
import ast, os, sys
from fractions import Fraction

REPO = os.environ.get("ALDY_REPO", "/repo")
R = os.path.join(REPO, "aldy") + "/"


class FailClosed(Exception):
    pass


def tree(f):
    return ast.parse(open(R + f).read())


def func(t, path):
    """path like 'Gurobi.solutions' or 'genotype'"""
    node = t
    for part in path.split("."):
        hits = [n for n in ast.walk(node) if isinstance(n, (ast.FunctionDef, ast.ClassDef)) and n.name == part]
        if len(hits) != 1:
            raise FailClosed(f"{path}: {len(hits)} definitions named {part}")
        node = hits[0]
    return node


class Tr:
    """Python expression -> Gallina text.  `names` maps ast.unparse() of a sub-expression to a Gallina variable."""

    def __init__(self, names, what):
        self.names, self.what, self.used = names, what, set()

    def q(self, n):
        key = ast.unparse(n)
        if key in self.names:
            self.used.add(self.names[key])
            return self.names[key]
        if isinstance(n, ast.Constant) and isinstance(n.value, (int, float)) and not isinstance(n.value, bool):
            f = Fraction(repr(n.value)) if isinstance(n.value, float) else Fraction(n.value)
            return f"({f.numerator} # {f.denominator})"
        if isinstance(n, ast.UnaryOp) and isinstance(n.op, ast.USub):
            return f"(Qopp {self.q(n.operand)})"
        if isinstance(n, ast.BinOp):
            op = {ast.Add: "Qplus", ast.Sub: "Qminus", ast.Mult: "Qmult", ast.Div: "Qdiv"}.get(type(n.op))
            if op is None:
                raise FailClosed(f"{self.what}: operator {ast.dump(n.op)}")
            return f"({op} {self.q(n.left)} {self.q(n.right)})"
        if isinstance(n, ast.Call) and isinstance(n.func, ast.Name) and n.func.id in ("abs", "max", "min", "float") and not n.keywords:
            if n.func.id == "abs" and len(n.args) == 1:
                return f"(Qabs' {self.q(n.args[0])})"
            if n.func.id == "float" and len(n.args) == 1:
                return self.q(n.args[0])
            if n.func.id in ("max", "min") and len(n.args) == 2:
                return f"({'Qmax' if n.func.id == 'max' else 'Qmin'}' {self.q(n.args[0])} {self.q(n.args[1])})"
        if isinstance(n, ast.BoolOp) and isinstance(n.op, ast.Or) and len(n.values) == 2:
            # Python's `a or b` on numbers/None: b when a is falsy (0 / None -> modelled as 0)
            return f"(q_or {self.q(n.values[0])} {self.q(n.values[1])})"
        raise FailClosed(f"{self.what}: cannot translate {key}")

    def b(self, n):
        if isinstance(n, ast.BoolOp):
            op = "andb" if isinstance(n.op, ast.And) else "orb"
            out = self.b(n.values[0])
            for v in n.values[1:]:
                out = f"({op} {out} {self.b(v)})"
            return out
        if isinstance(n, ast.UnaryOp) and isinstance(n.op, ast.Not):
            return f"(negb {self.b(n.operand)})"
        if isinstance(n, ast.Compare) and len(n.ops) > 1:
            # chained comparison a OP b OP c  ==  (a OP b) and (b OP c)
            terms = [n.left] + list(n.comparators)
            parts = [self.b(ast.Compare(left=terms[k], ops=[n.ops[k]], comparators=[terms[k + 1]])) for k in range(len(n.ops))]
            out = parts[0]
            for x in parts[1:]:
                out = f"(andb {out} {x})"
            return out
        if isinstance(n, ast.Compare) and len(n.ops) == 1:
            a, c = self.q(n.left), self.q(n.comparators[0])
            t = type(n.ops[0])
            if t is ast.Lt:
                return f"(Qltb {a} {c})"
            if t is ast.LtE:
                return f"(Qleb {a} {c})"
            if t is ast.Gt:
                return f"(Qltb {c} {a})"
            if t is ast.GtE:
                return f"(Qleb {c} {a})"
            if t is ast.Eq:
                return f"(Qeqb {a} {c})"
        raise FailClosed(f"{self.what}: cannot translate condition {ast.unparse(n)}")


def one(nodes, what):
    nodes = list(nodes)
    if len(nodes) != 1:
        raise FailClosed(f"{what}: {len(nodes)} matches (expected exactly 1)")
    return nodes[0]


def all_same(nodes, what):
    nodes = list(nodes)
    if not nodes:
        raise FailClosed(f"{what}: no match")
    texts = {ast.unparse(n) for n in nodes}
    if len(texts) != 1:
        raise FailClosed(f"{what}: sites differ: {sorted(texts)}")
    return nodes[0]


def assigns_to(fn, target):
    return [n.value for n in ast.walk(fn) if isinstance(n, ast.Assign) and len(n.targets) == 1 and ast.unparse(n.targets[0]) == target]


def augassigns_to(fn, target, op):
    return [n.value for n in ast.walk(fn) if isinstance(n, ast.AugAssign) and ast.unparse(n.target) == target and isinstance(n.op, op)]


def _adder(out):
    def add(name, args, kind, node, names, what):
        tr = Tr(names, what)
        body = tr.b(node) if kind == "bool" else tr.q(node)
        missing = [a for a in args if a not in tr.used]
        extra = [u for u in tr.used if u not in args]
        if extra:
            raise FailClosed(f"{what}: unexpected free quantity {extra}")
        out.append((name, args, kind, body, ast.unparse(node), missing))
    return add


def group_lp():
    out = []
    add = _adder(out)
    # ---- lpinterface.solutions(): bound and stop rule
    fn = func(tree("lpinterface.py"), "Gurobi.solutions")
    add("lp_ub", ["gap", "best"], "Q", one(assigns_to(fn, "ub"), "solutions: ub ="), {"gap": "gap", "best_obj": "best"}, "lp_ub")
    stop = one([n.test for n in ast.walk(fn) if isinstance(n, ast.If) and "ub" in ast.unparse(n.test) and "obj" in ast.unparse(n.test)
                and len(n.body) == 1 and isinstance(n.body[0], ast.Return)], "solutions: stop test")
    add("lp_stop", ["obj", "ub", "solver_prec", "solution_prec"], "bool", stop,
        {"obj": "obj", "ub": "ub", "SOLVER_PRECISON": "solver_prec", "SOLUTION_PRECISION": "solution_prec"}, "lp_stop")
    # the exclusion cut's right-hand side: len(vv) - 1
    cut = one([n for n in ast.walk(fn) if isinstance(n, ast.Compare) and ast.unparse(n.left).startswith("self.quicksum(vv")], "solutions: cut")
    if not isinstance(cut.ops[0], ast.LtE):
        raise FailClosed("solutions: cut is not <=")
    add("lp_cut_rhs", ["n"], "Q", cut.comparators[0], {"len(vv)": "n"}, "lp_cut_rhs")
    # ---- CBC.getValue(): which integral variables are read as binaries (bool): the test on the bounds
    gv = func(tree("lpinterface.py"), "CBC.getValue")
    isint = one([n for n in ast.walk(gv) if isinstance(n, ast.If) and "var.integer()" in ast.unparse(n.test)], "getValue: integrality test")
    tests = [n for n in ast.walk(isint) if isinstance(n, ast.If) and n is not isint]
    bt = one(tests, "getValue: binary test inside the integral branch")
    if not (len(bt.body) == 1 and isinstance(bt.body[0], ast.Return) and ast.unparse(bt.body[0].value) == "x > 0"):
        raise FailClosed("getValue: the binary branch does not return `x > 0`: " + ast.unparse(bt.body[0]))
    rets = [ast.unparse(n.value) for n in ast.walk(gv) if isinstance(n, ast.Return)]
    if sorted(rets) != ["x", "x", "x > 0"]:
        raise FailClosed(f"getValue: return statements changed: {rets}")
    add("lp_reads_binary", ["lb", "ub", "solution_prec"], "bool", bt.test,
        {"var.lb()": "lb", "var.ub()": "ub", "SOLUTION_PRECISION": "solution_prec"}, "lp_reads_binary")
    isb = func(tree("lpinterface.py"), "CBC.is_binary")
    if [ast.unparse(n.value) for n in ast.walk(isb) if isinstance(n, ast.Return)] != ["isinstance(self.getValue(v), bool)"]:
        raise FailClosed("CBC.is_binary is no longer `isinstance(self.getValue(v), bool)`")
    return out


def group_sel():
    out = []
    add = _adder(out)
    # ---- genotype.py: selection
    gfn = func(tree("genotype.py"), "genotype")
    keeps = [n for n in ast.walk(gfn) if isinstance(n, ast.Compare) and ast.unparse(n.comparators[0]) == "SOLUTION_PRECISION"
             and "profile.gap" in ast.unparse(n.left)]
    if len(keeps) != 2:
        raise FailClosed(f"genotype: {len(keeps)} gap filters (expected 2: major, minor)")
    for nm, k, mn in (("sel_major_keep", keeps[0], "min_major_score"), ("sel_minor_keep", keeps[1], "min_minor_score")):
        add(nm, ["score", "best", "gap", "solver_prec", "solution_prec"], "bool", k,
            {"m.score": "score", mn: "best", "profile.gap": "gap", "SOLUTION_PRECISION": "solution_prec",
             "SOLVER_PRECISON": "solver_prec"}, nm)
    carry = one([n.value for n in ast.walk(gfn) if isinstance(n, ast.AugAssign) and ast.unparse(n.target) == "s.score"
                 and isinstance(n.op, ast.Add)], "genotype: major carry")
    add("sel_major_carry", ["cn_score", "min_cn"], "Q", carry, {"cn_sol.score": "cn_score", "min_cn_score": "min_cn"}, "sel_major_carry")
    resc = one([n.args[0] for n in ast.walk(gfn) if isinstance(n, ast.Call) and ast.unparse(n.func) == "solutions.MinorSolution" and n.args],
               "genotype: MinorSolution(...) rescale")
    add("sel_rescale", ["score", "cn_score", "min_cn", "slack"], "Q", resc,
        {"m.score": "score", "m.major_solution.cn_solution.score": "cn_score", "min_cn_score": "min_cn", "SLACK": "slack"}, "sel_rescale")
    keys = [n for n in ast.walk(gfn) if isinstance(n, ast.Call) and isinstance(n.func, ast.Name) and n.func.id == "int" and n.args
            and isinstance(n.args[0], ast.BinOp)]
    k0 = all_same([k.args[0] for k in keys], "genotype: int(1000 * m.score) sort keys")
    add("sel_sort_key", ["score"], "Q", k0, {"m.score": "score"}, "sel_sort_key")
    # minor.py: carry-over of the major score difference
    mfn = func(tree("minor.py"), "estimate_minor")
    carry = one([n.value for n in ast.walk(mfn) if isinstance(n, ast.AugAssign) and ast.unparse(n.target) == "s.score"], "minor carry")
    add("sel_minor_carry", ["major_score", "min_major"], "Q", carry, {"major_sol.score": "major_score", "min_score": "min_major"}, "sel_minor_carry")
    return out


def group_cov():
    out = []
    add = _adder(out)
    # ---- coverage.py: filters and depth
    cov = tree("coverage.py")
    qf = func(cov, "Coverage.quality_filter")
    comp = one([n for n in ast.walk(qf) if isinstance(n, ast.ListComp)], "quality_filter comprehension")
    gen = one(comp.generators, "quality_filter generator")
    if ast.unparse(gen.target) != "(m, q)" or ast.unparse(comp.elt) != "(m, q)":
        raise FailClosed("quality_filter: element/target shape changed: " + ast.unparse(comp))
    cond = ast.BoolOp(op=ast.And(), values=list(gen.ifs)) if len(gen.ifs) > 1 else gen.ifs[0]
    add("qual_keep", ["m", "q", "min_quality", "min_mapq"], "bool", cond,
        {"m": "m", "q": "q", "self.profile.min_quality": "min_quality", "self.profile.min_mapq": "min_mapq"}, "qual_keep")
    bf = func(cov, "Coverage.basic_filter")
    add("basic_thres", ["thres", "cn", "threshold"], "Q", one(assigns_to(bf, "thres"), "basic_filter thres"),
        {"thres": "thres", "cn": "cn", "self.profile.threshold": "threshold"}, "basic_thres")
    add("basic_min_cov", ["min_coverage", "total", "thres"], "Q", one(assigns_to(bf, "min_cov"), "basic_filter min_cov"),
        {"self.profile.min_coverage": "min_coverage", "self.total(mut)": "total", "thres": "thres"}, "basic_min_cov")
    ret = one([n.value for n in ast.walk(bf) if isinstance(n, ast.Return)], "basic_filter return")
    add("basic_pass", ["sz", "min_cov"], "bool", ret, {"sz": "sz", "min_cov": "min_cov"}, "basic_pass")
    sc = func(cov, "Coverage.single_copy")
    rets = [n.value for n in sorted((n for n in ast.walk(sc) if isinstance(n, ast.Return)), key=lambda n: n.lineno)]
    if len(rets) != 2 or ast.unparse(rets[0]) != "0":
        raise FailClosed("single_copy: return shape changed")
    add("single_copy_val", ["total", "pcn"], "Q", rets[1], {"self.total(m)": "total", "cn_solution.position_cn(pos)": "pcn"}, "single_copy_val")
    tests = [n.test for n in ast.walk(sc) if isinstance(n, ast.If) and "position_cn" in ast.unparse(n.test)]
    add("single_copy_zero", ["pcn"], "bool", one(tests, "single_copy zero test"), {"cn_solution.position_cn(pos)": "pcn"}, "single_copy_zero")
    return out


def group_norm():
    out = []
    add = _adder(out)
    cov = tree("coverage.py")
    nc = func(cov, "Coverage._normalize_coverage")
    ratio = one(assigns_to(nc, "ratio"), "_normalize_coverage ratio")
    add("norm_ratio", ["neutral_value", "sam_ref"], "Q", ratio, {"self.profile.neutral_value": "neutral_value", "sam_ref": "sam_ref"}, "norm_ratio")
    reg = one([n.value for n in ast.walk(nc) if isinstance(n, ast.Assign) and ast.unparse(n.targets[0]) == "self._region_coverage[gene, region]"],
              "_normalize_coverage region value")
    if not (isinstance(reg, ast.IfExp) and ast.unparse(reg.test) == "p != 0" and ast.unparse(reg.orelse) in ("0.0", "0")):
        raise FailClosed("_normalize_coverage: region value shape changed: " + ast.unparse(reg))
    add("norm_region", ["ratio", "s", "p"], "Q", reg.body, {"ratio": "ratio", "s": "s", "p": "p"}, "norm_region")
    half = one([n.value for n in ast.walk(nc) if isinstance(n, ast.AugAssign) and ast.unparse(n.target) == "p" and isinstance(n.op, ast.Div)],
               "_normalize_coverage p /= 2")
    add("norm_profile_div", [], "Q", half, {}, "norm_profile_div")
    return out


def group_cn():
    out = []
    add = _adder(out)
    # ---- cn.py: weak-fusion bound, region scale
    cn = tree("cn.py")
    sfn = func(cn, "solve_cn_model")
    fus = one([n for n in ast.walk(sfn) if isinstance(n, ast.Compare) and ast.unparse(n.left) == "fusion_support[name]"], "cn weak-fusion test")
    add("cn_fusion_keep", ["support", "max_cn"], "bool", fus, {"fusion_support[name]": "support", "max_cn": "max_cn"}, "cn_fusion_keep")
    return out


def group_guard():
    """the "no data, no call" guards: genotype.py average-depth test, coverage.py average / neutral depth, sam.py neutral floor,
    cn.py low-depth test"""
    out = []
    add = _adder(out)
    gfn = func(tree("genotype.py"), "genotype")
    test = one([n.test for n in ast.walk(gfn) if isinstance(n, ast.If) and "min_avg_coverage" in ast.unparse(n.test)], "genotype: average-depth guard")
    add("guard_avg", ["avg_cov", "min_avg"], "bool", test, {"avg_cov": "avg_cov", "profile.min_avg_coverage": "min_avg"}, "guard_avg")
    cov = tree("coverage.py")
    ac = func(cov, "Coverage.average_coverage")
    ret = one([n.value for n in ast.walk(ac) if isinstance(n, ast.Return)], "average_coverage return")
    if not (isinstance(ret, ast.BinOp) and isinstance(ret.op, ast.Div) and ast.unparse(ret.left) == "sum((self.total(pos) for pos in self._coverage))"):
        raise FailClosed("average_coverage: shape changed: " + ast.unparse(ret))
    add("guard_avg_cov", ["total", "n"], "Q", ret, {ast.unparse(ret.left): "total", "len(self._coverage)": "n"}, "guard_avg_cov")
    dc = func(cov, "Coverage.diploid_avg_coverage")
    ret = one([n.value for n in ast.walk(dc) if isinstance(n, ast.Return)], "diploid_avg_coverage return")
    add("guard_dip_avg", ["total", "s", "e"], "Q", ret,
        {"sum(self._cnv_coverage.values())": "total", "self.profile.cn_region.end": "e", "self.profile.cn_region.start": "s"}, "guard_dip_avg")
    sfn = func(tree("sam.py"), "Sample.__init__")
    cmp_ = one([n for n in ast.walk(sfn) if isinstance(n, ast.Compare) and ast.unparse(n.left) == "self.coverage.diploid_avg_coverage()"],
               "Sample.__init__: neutral floor")
    add("guard_neutral_thin", ["dip_avg"], "bool", cmp_, {"self.coverage.diploid_avg_coverage()": "dip_avg"}, "guard_neutral_thin")
    efn = func(tree("cn.py"), "estimate_cn")
    test = one([n.test for n in ast.walk(efn) if isinstance(n, ast.If) and "total_cov" in ast.unparse(n.test)], "estimate_cn: low-depth guard")
    add("guard_cn_low", ["total_cov", "min_cov"], "bool", test, {"total_cov": "total_cov", "min_cov": "min_cov"}, "guard_cn_low")
    return out


def group_region():
    """interval tests of the pileup: sam._in_region (read against the gene's wide region) and the RefSeq-window test of
    Sample._make_coverage"""
    out = []
    add = _adder(out)
    t = tree("sam.py")
    fn = one([n for n in t.body if isinstance(n, ast.FunctionDef) and n.name == "_in_region"], "_in_region")
    rets = [n.value for n in ast.walk(fn) if isinstance(n, ast.Return) and not (isinstance(n.value, ast.Constant))]
    ret = one(rets, "_in_region: interval test")
    a = one([n.value for n in ast.walk(fn) if isinstance(n, ast.Assign) and ast.unparse(n.targets[0]) == "a"], "_in_region: a =")
    b = one([n.value for n in ast.walk(fn) if isinstance(n, ast.Assign) and ast.unparse(n.targets[0]) == "b"], "_in_region: b =")
    if ast.unparse(a) != "(read.reference_start, read.reference_end)" or ast.unparse(b) != "(region.start, region.end)":
        raise FailClosed(f"_in_region: a/b changed: {ast.unparse(a)} / {ast.unparse(b)}")
    add("region_overlap", ["a0", "a1", "b0", "b1"], "bool", ret, {"a[0]": "a0", "a[1]": "a1", "b[0]": "b0", "b[1]": "b1"}, "region_overlap")
    mk = func(t, "Sample._make_coverage")
    bnd = one([n.value for n in ast.walk(mk) if isinstance(n, ast.Assign) and ast.unparse(n.targets[0]) == "bounds"], "_make_coverage: bounds =")
    if ast.unparse(bnd) != "(min(self.gene.chr_to_ref), max(self.gene.chr_to_ref))":
        raise FailClosed("_make_coverage: bounds changed: " + ast.unparse(bnd))
    tests = [n.test for n in ast.walk(mk) if isinstance(n, ast.If) and "bounds" in ast.unparse(n.test)]
    test = one(tests, "_make_coverage: window test")
    if not (isinstance(test, ast.BoolOp) and isinstance(test.op, ast.And) and len(test.values) == 2
            and isinstance(test.values[0], ast.UnaryOp) and isinstance(test.values[0].op, ast.Not)
            and ast.unparse(test.values[1]) == "mut[:3] != 'ins'"):
        raise FailClosed("_make_coverage: window test shape changed: " + ast.unparse(test))
    add("window_inside", ["lo", "pos", "hi"], "bool", test.values[0].operand, {"bounds[0]": "lo", "bounds[1]": "hi", "pos": "pos"}, "window_inside")
    return out


GROUPS = [("region", group_region), ("lp", group_lp), ("sel", group_sel), ("cov", group_cov), ("norm", group_norm), ("cn", group_cn), ("guard", group_guard)]

PRELUDE = """(* GENERATED by harness/gen_exprs.py from /repo's current sources - do not edit.
   Each definition is the structural translation of ONE expression of the code; the source text is quoted. *)
From Aldy Require Import Base.
Open Scope Q_scope.
Definition q_or (a b : Q) : Q := if Qeqb a 0 then b else a.   (* Python `a or b` on a number/None (None, 0 -> b) *)
"""


def emit(defs):
    L = [PRELUDE]
    for name, args, kind, body, src, missing in defs:
        L.append(f"(* {src.replace('(*', '( *').replace('*)', '* )')} *)")
        sig = f"({' '.join(args)} : Q) " if args else ""
        L.append(f"Definition {name} {sig}: {'bool' if kind == 'bool' else 'Q'} :=\n  {body}.")
    return "\n".join(L) + "\n"


def write_if_changed(path, text):
    old = open(path).read() if os.path.exists(path) else None
    if old != text:
        open(path, "w").write(text)


def main():
    """writes coq/gen/Exprs_<group>.v, one file per source area, so that an expression the translator cannot read any more
    (fail-closed) breaks only the obligations of the properties that depend on that area: the group's file then holds no
    definitions and proofs/Tied_<group>.v stops compiling.  Exit status 0 unless nothing could be written."""
    out_dir = os.path.dirname(sys.argv[1]) if len(sys.argv) > 1 else os.path.join(os.path.dirname(__file__), "..", "coq", "gen")
    names, failed = [], []
    for g, fn in GROUPS:
        try:
            defs = fn()
            text = emit(defs)
            names += [d[0] for d in defs]
        except (FailClosed, OSError, SyntaxError) as e:
            failed.append(f"{g}: {e}")
            text = PRELUDE + f"(* FAIL-CLOSED: the translator could not read this group from the current sources: {str(e).replace('(*', '( *').replace('*)', '* )')} *)\n"
        write_if_changed(os.path.join(out_dir, f"Exprs_{g}.v"), text)
    stale = os.path.join(out_dir, "Exprs_here.v")
    if os.path.exists(stale):
        os.remove(stale)
    print("exprs:", ", ".join(names))
    for f in failed:
        print("FAIL-CLOSED group", f)


if __name__ == "__main__":
    main()
